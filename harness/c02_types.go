package harness

// Value descriptors for C02 (wire fidelity): everything a handler returns is
// described by small JSON-able structs and expanded deterministically, so the
// same Case can be rebuilt inside a stdio child process.

import (
	"context"
	"encoding/json"
	"errors"
	"fmt"
	"strings"
	"sync"
	"unicode/utf8"

	mcp "trpc.group/trpc-go/trpc-mcp-go"
)

// StrSpec describes a string by class, length (in runes, approximately) and seed.
type StrSpec struct {
	Class string `json:"c"`
	N     int    `json:"n"`
	Seed  int    `json:"s,omitempty"`
	Lit   string `json:"lit,omitempty"` // class "lit": the literal itself
}

var strAlphabets = map[string][]rune{
	"ascii":  []rune("abcdefghijklmnopqrstuvwxyzABCDEFGHIJKLMNOPQRSTUVWXYZ0123456789 _-.,;:!?"),
	"bmp":    []rune("äöüßéèêñçøåÆŒабвгдежзийклмнопΑΒΓΔαβγδ中文字符日本語テキスト한국어אבגדהابتثج"),
	"astral": []rune("😀😁😂🤣😃💥🚀🦄𝔘𝔫𝔦𝔠𝔬𝔡𝔢𐍈𝄞🀄🃏"),
	"ctrl":   []rune("\x01\x02\x07\x08\x0b\x0c\x0e\x1b\x1f\x7f\u0080\u009f a"),
	"lines":  []rune("ab \n\r\t\n"),
	"seps":   []rune("a\u2028b\u2029c\u0085d\ufeff"),
	"quotes": []rune("\"\\/<>&'`{}[]%$#\\u0041 \\n"),
	"nul":    []rune("a\x00b"),
	"sse":    []rune("data: \nid: x\n\n:\r\nevent: endpoint\n"),
}

// Expand returns the string.
func (s StrSpec) Expand() string {
	if s.Class == "lit" {
		return s.Lit
	}
	al, ok := strAlphabets[s.Class]
	if !ok || s.N <= 0 {
		return ""
	}
	var b strings.Builder
	x := uint32(s.Seed)*2654435761 + 99991
	for i := 0; i < s.N; i++ {
		x = x*1664525 + 1013904223
		b.WriteRune(al[int(x>>16)%len(al)])
	}
	return b.String()
}

// NonASCII reports whether the expanded string has anything beyond printable ASCII.
func (s StrSpec) NonASCII() bool {
	for _, r := range s.Expand() {
		if r < 0x20 || r > 0x7e {
			return true
		}
	}
	return false
}

// C02Content is one content item / resource contents descriptor.
type C02Content struct {
	Kind string  `json:"k"` // text image audio res-text res-blob
	Text StrSpec `json:"t"`
	Data StrSpec `json:"d"` // base64-ish payload for image / audio / blob
	Mime string  `json:"m,omitempty"`
	URI  string  `json:"u,omitempty"`
}

// C02Tool describes a tool and what its handler returns.
type C02Tool struct {
	Name       string          `json:"name"`
	Desc       StrSpec         `json:"desc"`
	Content    []C02Content    `json:"content"`
	IsError    bool            `json:"iserror,omitempty"`
	Structured json.RawMessage `json:"structured,omitempty"`
	Meta       json.RawMessage `json:"meta,omitempty"`
	Err        *StrSpec        `json:"err,omitempty"`   // handler returns this Go error instead
	Hints      []int           `json:"hints,omitempty"` // 4 entries: -1 unset, 0 false, 1 true (readOnly destructive idempotent openWorld)
	Title      string          `json:"title,omitempty"`
	Props      []string        `json:"props,omitempty"` // input schema: "s:name" "n:name" "i:name" "b:name" "a:name" "o:name" (+"!" suffix = required)
	OutSchema  bool            `json:"outschema,omitempty"`
}

// C02Prompt describes a prompt and what its handler returns.
type C02Prompt struct {
	Name     string       `json:"name"`
	Desc     StrSpec      `json:"desc"`
	Args     []string     `json:"args,omitempty"` // "name" or "name!" (required)
	ResDesc  StrSpec      `json:"resdesc"`
	Roles    []string     `json:"roles"`
	Messages []C02Content `json:"messages"`
	Err      *StrSpec     `json:"err,omitempty"`
}

// C02Resource describes a resource and what its handler returns.
type C02Resource struct {
	URI      string       `json:"uri"`
	Name     string       `json:"name"`
	Desc     StrSpec      `json:"desc"`
	Mime     string       `json:"mime,omitempty"`
	Size     int64        `json:"size,omitempty"`
	Multi    bool         `json:"multi,omitempty"`
	Contents []C02Content `json:"contents"`
	Err      *StrSpec     `json:"err,omitempty"`
}

// C02Reg is a registration set of value-returning handlers.
type C02Reg struct {
	Tools     []C02Tool     `json:"tools,omitempty"`
	Prompts   []C02Prompt   `json:"prompts,omitempty"`
	Resources []C02Resource `json:"resources,omitempty"`
}

func (c C02Content) resource() mcp.ResourceContents {
	if c.Kind == "res-blob" {
		return mcp.BlobResourceContents{URI: c.URI, MIMEType: c.Mime, Blob: c.Data.Expand()}
	}
	return mcp.TextResourceContents{URI: c.URI, MIMEType: c.Mime, Text: c.Text.Expand()}
}

// Build returns the library value of a content descriptor (public constructors / struct literals).
func (c C02Content) Build() mcp.Content {
	switch c.Kind {
	case "image":
		return mcp.NewImageContent(c.Data.Expand(), c.Mime)
	case "audio":
		return mcp.NewAudioContent(c.Data.Expand(), c.Mime)
	case "res-text", "res-blob":
		return mcp.NewEmbeddedResource(c.resource())
	}
	return mcp.NewTextContent(c.Text.Expand())
}

// Project turns a content descriptor into the plain tree the caller must obtain.
func (c C02Content) Project() interface{} {
	switch c.Kind {
	case "image", "audio":
		return map[string]interface{}{"kind": c.Kind, "data": c.Data.Expand(), "mime": c.Mime}
	case "res-text":
		return map[string]interface{}{"kind": "resource", "uri": c.URI, "mime": c.Mime, "text": c.Text.Expand()}
	case "res-blob":
		return map[string]interface{}{"kind": "resource", "uri": c.URI, "mime": c.Mime, "blob": c.Data.Expand()}
	}
	return map[string]interface{}{"kind": "text", "text": c.Text.Expand()}
}

// ProjectContent projects a library content value field by field (no struct tags, no MarshalJSON).
func ProjectContent(c mcp.Content) interface{} {
	switch v := c.(type) {
	case mcp.TextContent:
		return map[string]interface{}{"kind": "text", "text": v.Text}
	case *mcp.TextContent:
		return map[string]interface{}{"kind": "text", "text": v.Text}
	case mcp.ImageContent:
		return map[string]interface{}{"kind": "image", "data": v.Data, "mime": v.MimeType}
	case mcp.AudioContent:
		return map[string]interface{}{"kind": "audio", "data": v.Data, "mime": v.MimeType}
	case mcp.EmbeddedResource:
		return projectResource(v.Resource, true)
	case nil:
		return nil
	}
	return fmt.Sprintf("unknown content %T", c)
}

func projectResource(r mcp.ResourceContents, embedded bool) interface{} {
	kind := "resource"
	switch v := r.(type) {
	case mcp.TextResourceContents:
		return map[string]interface{}{"kind": kind, "uri": v.URI, "mime": v.MIMEType, "text": v.Text}
	case mcp.BlobResourceContents:
		return map[string]interface{}{"kind": kind, "uri": v.URI, "mime": v.MIMEType, "blob": v.Blob}
	}
	return fmt.Sprintf("unknown resource contents %T", r)
}

func boolHint(h int) *bool {
	switch h {
	case 0:
		return mcp.BoolPtr(false)
	case 1:
		return mcp.BoolPtr(true)
	}
	return nil
}

// BuildTool builds the descriptor with the public builders.
func (t C02Tool) BuildTool() *mcp.Tool {
	opts := []mcp.ToolOption{mcp.WithDescription(t.Desc.Expand())}
	for _, p := range t.Props {
		req := strings.HasSuffix(p, "!")
		p = strings.TrimSuffix(p, "!")
		kind, name := p[:1], p[2:]
		po := []mcp.PropertyOption{mcp.Description("prop " + name)}
		if req {
			po = append(po, mcp.Required())
		}
		switch kind {
		case "s":
			opts = append(opts, mcp.WithString(name, append(po, mcp.Enum("a", "b"), mcp.Default("a"))...))
		case "n":
			opts = append(opts, mcp.WithNumber(name, po...))
		case "i":
			opts = append(opts, mcp.WithInteger(name, append(po, mcp.Title("T-"+name))...))
		case "b":
			opts = append(opts, mcp.WithBoolean(name, po...))
		case "a":
			opts = append(opts, mcp.WithArray(name, append(po, mcp.MinItems(1), mcp.MaxItems(5), mcp.UniqueItems(true))...))
		default:
			opts = append(opts, mcp.WithObject(name, po...))
		}
	}
	if len(t.Hints) == 4 || t.Title != "" {
		a := &mcp.ToolAnnotations{Title: t.Title}
		if len(t.Hints) == 4 {
			a.ReadOnlyHint, a.DestructiveHint, a.IdempotentHint, a.OpenWorldHint = boolHint(t.Hints[0]), boolHint(t.Hints[1]), boolHint(t.Hints[2]), boolHint(t.Hints[3])
		}
		opts = append(opts, mcp.WithToolAnnotations(a))
	}
	if t.OutSchema {
		opts = append(opts, mcp.WithOutputStruct[struct {
			A string `json:"a"`
			B int    `json:"b,omitempty"`
		}]())
	}
	return mcp.NewTool(t.Name, opts...)
}

// Result builds what the handler returns.
func (t C02Tool) Result() (*mcp.CallToolResult, error) {
	if t.Err != nil {
		return nil, errors.New(t.Err.Expand())
	}
	// a handler that has no content items returns the struct literal without a Content slice (the outcome is in the error
	// flag, the structured content or _meta alone)
	res := &mcp.CallToolResult{IsError: t.IsError}
	for _, c := range t.Content {
		res.Content = append(res.Content, c.Build())
	}
	if len(t.Structured) > 0 {
		var v interface{}
		json.Unmarshal(t.Structured, &v)
		res.StructuredContent = v
	}
	if len(t.Meta) > 0 {
		var m map[string]interface{}
		json.Unmarshal(t.Meta, &m)
		res.Meta = m
	}
	return res, nil
}

// c02Calls counts handler invocations (in-process servers only).
type c02Calls struct {
	mu sync.Mutex
	n  map[string]int
}

func (c *c02Calls) hit(k string) {
	if c == nil {
		return
	}
	c.mu.Lock()
	if c.n == nil {
		c.n = map[string]int{}
	}
	c.n[k]++
	c.mu.Unlock()
}

func registerC02(r Registrar, reg C02Reg, calls *c02Calls) {
	for _, t := range reg.Tools {
		t := t
		r.RegisterTool(t.BuildTool(), func(ctx context.Context, req *mcp.CallToolRequest) (*mcp.CallToolResult, error) {
			calls.hit("tool:" + t.Name)
			return t.Result()
		})
	}
	for _, p := range reg.Prompts {
		p := p
		pr := &mcp.Prompt{Name: p.Name, Description: p.Desc.Expand()}
		for _, a := range p.Args {
			pr.Arguments = append(pr.Arguments, mcp.PromptArgument{Name: strings.TrimSuffix(a, "!"), Description: "arg " + a, Required: strings.HasSuffix(a, "!")})
		}
		r.RegisterPrompt(pr, func(ctx context.Context, req *mcp.GetPromptRequest) (*mcp.GetPromptResult, error) {
			calls.hit("prompt:" + p.Name)
			if p.Err != nil {
				return nil, errors.New(p.Err.Expand())
			}
			res := &mcp.GetPromptResult{Description: p.ResDesc.Expand(), Messages: []mcp.PromptMessage{}}
			for i, m := range p.Messages {
				role := mcp.RoleUser
				if i < len(p.Roles) && p.Roles[i] == "assistant" {
					role = mcp.RoleAssistant
				}
				res.Messages = append(res.Messages, mcp.PromptMessage{Role: role, Content: m.Build()})
			}
			return res, nil
		})
	}
	for _, rs := range reg.Resources {
		rs := rs
		res := &mcp.Resource{URI: rs.URI, Name: rs.Name, Description: rs.Desc.Expand(), MimeType: rs.Mime, Size: rs.Size}
		if rs.Multi {
			r.RegisterResources(res, func(ctx context.Context, req *mcp.ReadResourceRequest) ([]mcp.ResourceContents, error) {
				calls.hit("res:" + rs.URI)
				if rs.Err != nil {
					return nil, errors.New(rs.Err.Expand())
				}
				out := []mcp.ResourceContents{}
				for _, c := range rs.Contents {
					out = append(out, c.resource())
				}
				return out, nil
			})
		} else {
			r.RegisterResource(res, func(ctx context.Context, req *mcp.ReadResourceRequest) (mcp.ResourceContents, error) {
				calls.hit("res:" + rs.URI)
				if rs.Err != nil {
					return nil, errors.New(rs.Err.Expand())
				}
				return rs.Contents[0].resource(), nil
			})
		}
	}
}

var _ = utf8.RuneError
