package harness

import (
	"context"
	"fmt"
	"sync"
	"testing"
	"time"

	"pgregory.net/rapid"
	mcp "trpc.group/trpc-go/trpc-mcp-go"
)

// C20: no data races. The oracle is the Go race detector: this file only adds the
// client-side workload and the session-object workload; the server-side workloads
// are those of C01, C05, C09, C11, C12 and C13, run from the race-instrumented binary.

type C20Case struct {
	Mode    Mode  `json:"mode"` // ModeSJ, ModeSS, ModeLegacy, ModeStdio
	Callers int   `json:"callers"`
	Rounds  int   `json:"rounds"`
	Ops     []int `json:"ops"` // interleaved client-side operations (cycled by the side goroutines)
	Real    bool  `json:"real"`
}

func genC20(t *rapid.T) C20Case {
	c := C20Case{Mode: rapid.SampledFrom([]Mode{ModeSJ, ModeSS, ModeSS, ModeLegacy, ModeStdio}).Draw(t, "mode"), Callers: rapid.IntRange(2, 8).Draw(t, "callers"), Rounds: rapid.IntRange(1, 4).Draw(t, "rounds"), Real: rapid.IntRange(0, 5).Draw(t, "real") == 0}
	n := rapid.IntRange(2, 10).Draw(t, "nops")
	for i := 0; i < n; i++ {
		c.Ops = append(c.Ops, rapid.IntRange(0, 6).Draw(t, "op"))
	}
	return c
}

func execC20(c C20Case) *Failure {
	w := NewWorld(c.Mode, RegSpec{}, WorldOpt{})
	defer w.Close()
	c01Register(w, RegistrarOf(serverOf(w)))
	// user code reads and writes the session object it is handed, concurrently
	RegistrarOf(serverOf(w)).RegisterTool(mcp.NewTool("sess"), func(ctx context.Context, req *mcp.CallToolRequest) (*mcp.CallToolResult, error) {
		s, ok := mcp.GetSessionFromContext(ctx)
		if ok && s != nil {
			var wg sync.WaitGroup
			for i := 0; i < 4; i++ {
				wg.Add(1)
				go func(i int) {
					defer wg.Done()
					s.SetData(fmt.Sprint("k", i%2), i)
					s.GetData("k0")
					s.UpdateActivity()
					_ = s.GetLastActivity()
					_ = s.GetCreatedAt()
					_ = s.GetID()
				}(i)
			}
			wg.Wait()
		}
		if sender, ok := mcp.GetNotificationSender(ctx); ok {
			sender.SendProgress(0.5, "half")
		}
		return mcp.NewTextResult("ok"), nil
	})
	lc, err := w.ConnectLib(c.Real, &ChildSpec{Role: "c01"})
	if err != nil {
		return Failf("C20/connect", "%v", err)
	}
	defer lc.Close()
	cl := lc.C
	provider := mcp.NewDefaultRootsProvider(mcp.Root{URI: "file:///a", Name: "a"})
	cl.SetRootsProvider(provider)
	var wg sync.WaitGroup
	stop := make(chan struct{})
	// callers
	for g := 0; g < c.Callers; g++ {
		wg.Add(1)
		go func(g int) {
			defer wg.Done()
			for r := 0; r < c.Rounds; r++ {
				ctx, cancel := context.WithTimeout(context.Background(), 5*time.Second)
				req := &mcp.CallToolRequest{}
				req.Params.Name = []string{"echo", "sess"}[(g+r)%2]
				req.Params.Arguments = map[string]interface{}{"nonce": fmt.Sprintf("g%dr%d", g, r), "size": 10, "lat": r % 3}
				cl.CallTool(ctx, req)
				cl.ListTools(ctx, &mcp.ListToolsRequest{})
				_ = cl.GetState()
				cancel()
			}
		}(g)
	}
	// side goroutine: handlers, roots provider, server-initiated traffic
	wg.Add(1)
	go func() {
		defer wg.Done()
		i := 0
		for {
			select {
			case <-stop:
				return
			default:
			}
			switch c.Ops[i%len(c.Ops)] {
			case 0:
				cl.RegisterNotificationHandler("notifications/progress", func(n *mcp.JSONRPCNotification) error { return nil })
			case 1:
				cl.UnregisterNotificationHandler("notifications/progress")
			case 2:
				cl.SetRootsProvider(mcp.NewDefaultRootsProvider(mcp.Root{URI: "file:///b"}))
			case 3:
				provider.AddRoot(fmt.Sprintf("/r%d", i), "r")
				provider.RemoveRoot(fmt.Sprintf("/r%d", i))
				_ = provider.GetRoots()
			case 4:
				ctx, cancel := context.WithTimeout(context.Background(), time.Second)
				cl.SendRootsListChangedNotification(ctx)
				cancel()
			case 5:
				if w.Srv != nil {
					if ids, err := w.Srv.GetActiveSessions(); err == nil {
						for _, id := range ids {
							w.Srv.SendNotification(id, "notifications/progress", map[string]interface{}{"progress": 1})
						}
					}
					w.Srv.BroadcastNotification("notifications/verif", map[string]interface{}{"x": i})
				}
			case 6:
				if sc, ok := cl.(mcp.SessionClient); ok {
					_ = sc.GetSessionID()
				}
			}
			i++
			time.Sleep(50 * time.Microsecond)
		}
	}()
	done := make(chan struct{})
	go func() {
		// wait for the callers only
		time.Sleep(time.Millisecond)
		close(done)
	}()
	<-done
	// callers finish, then the side goroutine is stopped
	waitCallers := make(chan struct{})
	go func() { wg.Wait(); close(waitCallers) }()
	time.AfterFunc(3*time.Second, func() {})
	// stop side goroutine once callers are likely done
	go func() {
		time.Sleep(time.Duration(c.Rounds*c.Callers) * 2 * time.Millisecond)
		close(stop)
	}()
	select {
	case <-waitCallers:
	case <-time.After(20 * time.Second):
		return TimingFailf("C20/workload-stuck", "%s: the client workload did not finish", c.Mode)
	}
	// session termination and Close race with nothing else here; they are part of the workload
	if sc, ok := cl.(mcp.SessionClient); ok && c.Mode.Stateful() {
		ctx, cancel := context.WithTimeout(context.Background(), time.Second)
		sc.TerminateSession(ctx)
		cancel()
	}
	cl.Close()
	return nil
}

func TestC20Client(t *testing.T) {
	RunProp(t, Prop[C20Case]{ID: "C20", Gen: genC20, Exec: execC20,
		NT: func(c C20Case) (bool, []string) { return c.Callers >= 2, []string{"mode=" + c.Mode.String()} }})
}
