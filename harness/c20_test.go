package harness

import (
	"context"
	"fmt"
	"net"
	"net/http"
	"os"
	"strings"
	"sync"
	"sync/atomic"
	"syscall"
	"testing"
	"time"

	"pgregory.net/rapid"
	mcp "trpc.group/trpc-go/trpc-mcp-go"
)

// C20: no data races. The oracle is the Go race detector: this file only adds the
// client-side workload and the session-object workload; the server-side workloads
// are those of C01, C05, C09, C11, C12 and C13, run from the race-instrumented binary.

type C20Case struct {
	Mode    Mode  `json:"mode"` // ModeSJ, ModeSS, ModeLegacy, ModeStdio
	Callers int   `json:"callers"`
	Rounds  int   `json:"rounds"`
	Ops     []int `json:"ops"` // interleaved client-side operations (cycled by the side goroutines)
	Real    bool  `json:"real"`
	Idle    int   `json:"idle,omitempty"`
	Retry   bool  `json:"retry,omitempty"` // HTTP clients: created with a retry option; a third of the calls lose their connection once (several calls retry at the same time) // further sessions that have been initialised but hold no listening stream (sends to them fail)
}

func genC20(t *rapid.T) C20Case {
	c := C20Case{Mode: rapid.SampledFrom([]Mode{ModeSJ, ModeSS, ModeSS, ModeLegacy, ModeStdio, ModeLJ, ModeLS}).Draw(t, "mode"), Callers: rapid.IntRange(2, 8).Draw(t, "callers"), Rounds: rapid.IntRange(1, 4).Draw(t, "rounds"), Real: rapid.IntRange(0, 5).Draw(t, "real") == 0}
	n := rapid.IntRange(2, 10).Draw(t, "nops")
	for i := 0; i < n; i++ {
		c.Ops = append(c.Ops, rapid.IntRange(0, 7).Draw(t, "op"))
	}
	c.Idle = rapid.SampledFrom([]int{0, 0, 2, 3, 5}).Draw(t, "idle")
	c.Retry = !c.Real && c.Mode != ModeStdio && rapid.IntRange(0, 2).Draw(t, "retry") == 0
	return c
}

func execC20(c C20Case) *Failure {
	w := NewWorld(c.Mode, RegSpec{}, WorldOpt{})
	defer w.Close()
	c01Register(w, RegistrarOf(serverOf(w)))
	// user code reads and writes the session object it is handed, concurrently
	RegistrarOf(serverOf(w)).RegisterTool(mcp.NewTool("sess"), func(ctx context.Context, req *mcp.CallToolRequest) (*mcp.CallToolResult, error) {
		s, ok := mcp.GetSessionFromContext(ctx)
		if ok && s != nil {
			var wg sync.WaitGroup
			for i := 0; i < 4; i++ {
				wg.Add(1)
				go func(i int) {
					defer wg.Done()
					if i%2 == 1 {
						s.GetData("k1") // readers that have not written anything themselves
						_ = s.GetLastActivity()
					}
					s.SetData(fmt.Sprint("k", i%2), i)
					s.GetData("k0")
					s.UpdateActivity()
					_ = s.GetLastActivity()
					_ = s.GetCreatedAt()
					_ = s.GetID()
				}(i)
			}
			wg.Wait()
			// a handler that keeps working on its session's data for a while (the session may be terminated under it)
			if lat, _ := req.Params.Arguments["lat"].(float64); lat > 0 {
				for end := time.Now().Add(time.Duration(lat) * 400 * time.Microsecond); time.Now().Before(end); {
					s.SetData("spin", 1)
					s.GetData("spin")
				}
			}
		}
		if sender, ok := mcp.GetNotificationSender(ctx); ok {
			sender.SendProgress(0.5, "half")
		}
		return mcp.NewTextResult("ok"), nil
	})
	var copts []mcp.ClientOption
	if c.Retry {
		copts = append(copts, mcp.WithRetry(mcp.RetryConfig{MaxRetries: 3, InitialBackoff: time.Millisecond, BackoffFactor: 2, MaxBackoff: 4 * time.Millisecond}))
	}
	// the application keeps configuring its client (roots provider, notification handlers) while the handshake runs
	w.PreInit = func(cn mcp.Connector) func() {
		quit, done := make(chan struct{}), make(chan struct{})
		go func() {
			defer close(done)
			type rootsSetter interface{ SetRootsProvider(mcp.RootsProvider) }
			for i := 0; ; i++ {
				select {
				case <-quit:
					return
				default:
				}
				if rs, ok := cn.(rootsSetter); ok {
					if i%2 == 0 {
						rs.SetRootsProvider(mcp.NewDefaultRootsProvider(mcp.Root{URI: "file:///pre", Name: "pre"}))
					} else {
						rs.SetRootsProvider(nil)
					}
				}
				cn.RegisterNotificationHandler("notifications/pre", func(n *mcp.JSONRPCNotification) error { return nil })
				_ = cn.GetState()
				cn.UnregisterNotificationHandler("notifications/pre")
				if i%8 == 7 {
					time.Sleep(50 * time.Microsecond)
				}
			}
		}()
		return func() { close(quit); <-done }
	}
	lc, err := w.ConnectLib(c.Real, &ChildSpec{Role: "c01"}, copts...)
	w.PreInit = nil
	if err != nil {
		return Failf("C20/connect", "%v", err)
	}
	defer lc.Close()
	if c.Retry && lc.Bridge != nil {
		var nth atomic.Int64
		lc.Bridge.SetFault(func(r *SeenReq) error {
			if (r.RPC == "tools/call" || r.RPC == "tools/list") && nth.Add(1)%3 == 0 {
				return &net.OpError{Op: "read", Net: "tcp", Err: os.NewSyscallError("read", syscall.ECONNRESET)}
			}
			return nil
		})
	}
	cl := lc.C
	if w.Srv != nil && c.Mode.Stateful() {
		waitRegistered(w.Srv, 1) // the client's listening stream
	}
	if w.Srv != nil && c.Mode.Stateful() {
		for i := 0; i < c.Idle; i++ {
			w.Direct("POST", "/mcp", map[string]string{"Content-Type": "application/json", "Accept": "application/json"}, InitRequest("0", "2025-03-26"))
		}
	}
	ops := append(append([]int(nil), c.Ops...), 5, 0, 5, 1, 5, 6, 7)
	provider := mcp.NewDefaultRootsProvider(mcp.Root{URI: "file:///a", Name: "a"})
	cl.SetRootsProvider(provider)
	var wg sync.WaitGroup
	stop := make(chan struct{})
	// callers
	for g := 0; g < c.Callers; g++ {
		wg.Add(1)
		go func(g int) {
			defer wg.Done()
			for r := 0; r < c.Rounds; r++ {
				ctx, cancel := context.WithTimeout(context.Background(), 5*time.Second)
				req := &mcp.CallToolRequest{}
				req.Params.Name = []string{"echo", "sess"}[(g+r)%2]
				req.Params.Arguments = map[string]interface{}{"nonce": fmt.Sprintf("g%dr%d", g, r), "size": 10, "lat": r % 3}
				cl.CallTool(ctx, req)
				cl.ListTools(ctx, &mcp.ListToolsRequest{})
				_ = cl.GetState()
				cancel()
			}
		}(g)
	}
	// side goroutine: handlers, roots provider, server-initiated traffic
	wg.Add(1)
	go func() {
		defer wg.Done()
		i := 0
		for {
			select {
			case <-stop:
				return
			default:
			}
			switch ops[i%len(ops)] {
			case 0:
				cl.RegisterNotificationHandler("notifications/progress", func(n *mcp.JSONRPCNotification) error { return nil })
			case 1:
				cl.UnregisterNotificationHandler("notifications/progress")
			case 2:
				cl.SetRootsProvider(mcp.NewDefaultRootsProvider(mcp.Root{URI: "file:///b"}))
			case 3:
				provider.AddRoot(fmt.Sprintf("/r%d", i), "r")
				provider.RemoveRoot(fmt.Sprintf("/r%d", i))
				_ = provider.GetRoots()
			case 4:
				ctx, cancel := context.WithTimeout(context.Background(), time.Second)
				cl.SendRootsListChangedNotification(ctx)
				cancel()
			case 5:
				if w.Srv != nil {
					if ids, err := w.Srv.GetActiveSessions(); err == nil {
						for _, id := range ids {
							w.Srv.SendNotification(id, "notifications/progress", map[string]interface{}{"progress": 1})
						}
					}
					w.Srv.BroadcastNotification("notifications/verif", map[string]interface{}{"x": i})
				}
			case 7:
				if w.Srv != nil {
					w.Srv.SendFilteredNotification("notifications/verif", map[string]interface{}{"x": i}, func(id string) bool { return len(id) > 0 && id[0]%2 == byte(i%2) })
					w.Srv.BroadcastNotification("notifications/verif-b", nil)
				}
			case 6:
				if sc, ok := cl.(mcp.SessionClient); ok {
					_ = sc.GetSessionID()
				}
			}
			i++
			time.Sleep(50 * time.Microsecond)
		}
	}()
	done := make(chan struct{})
	go func() {
		// wait for the callers only
		time.Sleep(time.Millisecond)
		close(done)
	}()
	<-done
	// callers finish, then the side goroutine is stopped
	waitCallers := make(chan struct{})
	go func() { wg.Wait(); close(waitCallers) }()
	time.AfterFunc(3*time.Second, func() {})
	// stop side goroutine once callers are likely done
	go func() {
		time.Sleep(20*time.Millisecond + time.Duration(c.Rounds*c.Callers)*2*time.Millisecond)
		close(stop)
	}()
	select {
	case <-waitCallers:
	case <-time.After(20 * time.Second):
		return TimingFailf("C20/workload-stuck", "%s: the client workload did not finish", c.Mode)
	}
	// session termination and Close come while other goroutines still use the client (calls, state queries)
	var lwg sync.WaitGroup
	lstop := make(chan struct{})
	for g := 0; g < 3; g++ {
		lwg.Add(1)
		go func(g int) {
			defer lwg.Done()
			for i := 0; ; i++ {
				select {
				case <-lstop:
					return
				default:
				}
				ctx, cancel := context.WithTimeout(context.Background(), time.Second)
				switch (g + i) % 3 {
				case 0:
					req := &mcp.CallToolRequest{}
					// every other late call works on the data of the session that is about to be terminated
					req.Params.Name = []string{"echo", "sess"}[(i/3)%2]
					req.Params.Arguments = map[string]interface{}{"nonce": fmt.Sprintf("late-g%di%d", g, i), "size": 1, "lat": (i / 3) % 3}
					cl.CallTool(ctx, req)
				case 1:
					_ = cl.GetState()
				case 2:
					cl.ListTools(ctx, &mcp.ListToolsRequest{})
				}
				cancel()
			}
		}(g)
	}
	time.Sleep(300 * time.Microsecond)
	// a handler is at work on the session's data when the session is terminated
	lwg.Add(1)
	go func() {
		defer lwg.Done()
		ctx, cancel := context.WithTimeout(context.Background(), time.Second)
		defer cancel()
		req := &mcp.CallToolRequest{}
		req.Params.Name = "sess"
		req.Params.Arguments = map[string]interface{}{"nonce": "at-termination", "size": 1, "lat": 6}
		cl.CallTool(ctx, req)
	}()
	time.Sleep(400 * time.Microsecond)
	if sc, ok := cl.(mcp.SessionClient); ok && c.Mode.Stateful() {
		ctx, cancel := context.WithTimeout(context.Background(), time.Second)
		sc.TerminateSession(ctx)
		cancel()
	}
	time.Sleep(300 * time.Microsecond)
	cl.Close()
	time.Sleep(300 * time.Microsecond)
	close(lstop)
	lwg.Wait()
	return nil
}

func TestC20Client(t *testing.T) {
	RunProp(t, Prop[C20Case]{ID: "C20", Gen: genC20, Exec: execC20,
		NT: func(c C20Case) (bool, []string) { return c.Callers >= 2, []string{"mode=" + c.Mode.String()} }})
}

// ---------------------------------------------------------------------------
// several library clients answer server-issued roots/list requests at the same time

type C20RootsCase struct {
	Mode    Mode `json:"mode"` // ModeSJ, ModeSS or ModeLegacy
	Clients int  `json:"clients"`
	Calls   int  `json:"calls"`
	Mutate  bool `json:"mutate,omitempty"` // the application adds and removes a root on each provider while roots/list requests are answered
}

func execC20Roots(c C20RootsCase) *Failure {
	w := NewWorld(c.Mode, RegSpec{}, WorldOpt{})
	defer w.Close()
	type lister interface {
		ListRoots(ctx context.Context) (*mcp.ListRootsResult, error)
	}
	RegistrarOf(serverOf(w)).RegisterTool(mcp.NewTool("roots"), func(ctx context.Context, req *mcp.CallToolRequest) (*mcp.CallToolResult, error) {
		l, ok := mcp.GetServerFromContext(ctx).(lister)
		if !ok {
			return mcp.NewTextResult("err:no server"), nil
		}
		rctx, cancel := context.WithTimeout(ctx, 3*time.Second)
		defer cancel()
		res, err := l.ListRoots(rctx)
		if err != nil {
			return mcp.NewTextResult("err:" + err.Error()), nil
		}
		out := "roots:"
		for _, r := range res.Roots {
			out += r.URI + ","
		}
		return mcp.NewTextResult(out), nil
	})
	var clients []*libClient
	var providers []*mcp.DefaultRootsProvider
	for i := 0; i < c.Clients; i++ {
		lc, err := w.ConnectLib(false, nil)
		if err != nil {
			return Failf("C20/connect", "%v", err)
		}
		defer lc.Close()
		prov := mcp.NewDefaultRootsProvider(mcp.Root{URI: fmt.Sprintf("file:///client-%d", i), Name: "r"})
		lc.C.SetRootsProvider(prov)
		providers = append(providers, prov)
		clients = append(clients, lc)
	}
	stopMut := make(chan struct{})
	var mutWG sync.WaitGroup
	if c.Mutate {
		for _, prov := range providers {
			mutWG.Add(1)
			go func(prov *mcp.DefaultRootsProvider) {
				defer mutWG.Done()
				for k := 0; ; k++ {
					select {
					case <-stopMut:
						return
					default:
					}
					prov.AddRoot(fmt.Sprintf("/m%d", k), "m")
					_ = prov.GetRoots()
					prov.RemoveRoot(fmt.Sprintf("/m%d", k))
					time.Sleep(20 * time.Microsecond)
				}
			}(prov)
		}
	}
	defer func() { close(stopMut); mutWG.Wait() }()
	if w.Srv != nil {
		waitRegistered(w.Srv, c.Clients)
	}
	var wg sync.WaitGroup
	var mu sync.Mutex
	var bad []string
	for i, lc := range clients {
		wg.Add(1)
		go func(i int, lc *libClient) {
			defer wg.Done()
			for k := 0; k < c.Calls; k++ {
				ctx, cancel := context.WithTimeout(context.Background(), 5*time.Second)
				req := &mcp.CallToolRequest{}
				req.Params.Name = "roots"
				res, err := lc.C.CallTool(ctx, req)
				cancel()
				got := ""
				if err != nil {
					got = "error:" + err.Error()
				} else if len(res.Content) == 1 {
					got = res.Content[0].(mcp.TextContent).Text
				}
				base := fmt.Sprintf("roots:file:///client-%d,", i)
				okAnswer := got == base
				if c.Mutate && strings.HasPrefix(got, base) {
					// at most the one root being added and removed may follow, and never the base root again
					rest := strings.TrimPrefix(got, base)
					okAnswer = rest == "" || (strings.Count(rest, ",") == 1 && strings.Contains(rest, "/m"))
				}
				if !okAnswer {
					mu.Lock()
					bad = append(bad, fmt.Sprintf("client %d call %d: %s", i, k, got))
					mu.Unlock()
				}
			}
		}(i, lc)
	}
	wg.Wait()
	if len(bad) > 0 {
		f := Failf("C20/roots-under-load", "%s with %d clients answering roots/list concurrently: %v", c.Mode, c.Clients, bad[:1])
		f.Timing = true
		return f
	}
	return nil
}

func TestC20Roots(t *testing.T) {
	RunProp(t, Prop[C20RootsCase]{ID: "C20",
		Gen: func(t *rapid.T) C20RootsCase {
			return C20RootsCase{Mode: rapid.SampledFrom([]Mode{ModeSJ, ModeSS, ModeLegacy}).Draw(t, "mode"), Clients: rapid.IntRange(2, 5).Draw(t, "clients"), Calls: rapid.IntRange(1, 8).Draw(t, "calls"), Mutate: rapid.Bool().Draw(t, "mutate")}
		},
		Exec: execC20Roots,
		NT:   func(c C20RootsCase) (bool, []string) { return c.Clients >= 2, []string{"mode=" + c.Mode.String()} }})
}

// ---------------------------------------------------------------------------
// a session's listening stream is replaced again and again while the server keeps sending to the session

type C20ReconnCase struct {
	Senders    int  `json:"senders"`    // goroutines sending to the session in a loop (addressed notifications, broadcasts, server requests)
	Reconnects int  `json:"reconnects"` // GETs opened for the same session one after the other
	LastID     bool `json:"lastid"`     // the reconnecting GETs carry a Last-Event-ID header
	GapUs      int  `json:"gapus"`
}

func execC20Reconn(c C20ReconnCase) *Failure {
	w := NewWorld(ModeSJ, RegSpec{}, WorldOpt{})
	defer w.Close()
	conn, err := w.Connect()
	if err != nil {
		return Failf("C20/connect", "%v", err)
	}
	h := w.Srv.Handler()
	hdr := map[string]string{"Accept": "text/event-stream", "Mcp-Session-Id": conn.SessionID}
	cur := StartLive(h, "GET", "http://verif/mcp", hdr, nil, nil)
	if !cur.WaitFlushedHeader(2 * time.Second) {
		return TimingFailf("C20/connect", "the listening stream did not open")
	}
	stop := make(chan struct{})
	var wg sync.WaitGroup
	for g := 0; g < c.Senders; g++ {
		wg.Add(1)
		go func(g int) {
			defer wg.Done()
			for i := 0; ; i++ {
				select {
				case <-stop:
					return
				default:
				}
				switch (g + i) % 4 {
				case 0, 1:
					w.Srv.SendNotification(conn.SessionID, "notifications/verif", map[string]interface{}{"i": i})
				case 2:
					w.Srv.BroadcastNotification("notifications/verif-b", map[string]interface{}{"i": i})
				case 3:
					ctx, cancel := context.WithTimeout(context.Background(), 200*time.Microsecond)
					w.Srv.SendRequest(ctx, conn.SessionID, &mcp.JSONRPCRequest{JSONRPC: "2.0", Request: mcp.Request{Method: "verif/ask"}})
					cancel()
				}
			}
		}(g)
	}
	var olds []*LiveResp
	for r := 0; r < c.Reconnects; r++ {
		h2 := map[string]string{"Accept": "text/event-stream", "Mcp-Session-Id": conn.SessionID}
		if c.LastID {
			h2[http.CanonicalHeaderKey("Last-Event-ID")] = fmt.Sprintf("evt-%d", r)
		}
		next := StartLive(h, "GET", "http://verif/mcp", h2, nil, nil)
		next.WaitFlushedHeader(2 * time.Second)
		olds = append(olds, cur)
		cur = next
		if c.GapUs > 0 {
			time.Sleep(time.Duration(c.GapUs) * time.Microsecond)
		}
	}
	close(stop)
	wg.Wait()
	cur.PeerGone()
	for _, o := range olds {
		o.PeerGone()
	}
	return nil
}

func TestC20Reconnect(t *testing.T) {
	RunProp(t, Prop[C20ReconnCase]{ID: "C20",
		Gen: func(t *rapid.T) C20ReconnCase {
			return C20ReconnCase{Senders: rapid.IntRange(1, 4).Draw(t, "senders"), Reconnects: rapid.IntRange(3, 40).Draw(t, "reconnects"), LastID: rapid.Bool().Draw(t, "lastid"), GapUs: rapid.SampledFrom([]int{0, 50, 300}).Draw(t, "gap")}
		},
		Exec: execC20Reconn,
		NT:   func(c C20ReconnCase) (bool, []string) { return true, []string{fmt.Sprintf("senders=%d", c.Senders)} }})
}
