package harness

// Leak and spin detectors.

import (
	"fmt"
	"os"
	"runtime"
	"sort"
	"strings"
	"syscall"
	"time"
)

const libPath = "trpc.group/trpc-go/trpc-mcp-go"

// LibGoroutines returns the goroutines that run library code or were created by
// it, keyed by a line-number-free signature (top library function + creation
// site). The per-server session sweeper (it has no shutdown API) is excluded.
func LibGoroutines() map[string]int {
	buf := make([]byte, 1<<20)
	for {
		n := runtime.Stack(buf, true)
		if n < len(buf) {
			buf = buf[:n]
			break
		}
		buf = make([]byte, 2*len(buf))
	}
	out := map[string]int{}
	for _, g := range strings.Split(string(buf), "\n\n") {
		if !strings.Contains(g, libPath) {
			continue
		}
		if strings.Contains(g, "cleanupExpiredSessions") {
			continue
		}
		lines := strings.Split(g, "\n")
		top, created := "", ""
		for _, l := range lines {
			if strings.HasPrefix(l, "\t") {
				continue
			}
			if strings.HasPrefix(l, "created by ") {
				created = strings.TrimPrefix(l, "created by ")
				if i := strings.Index(created, " in goroutine"); i >= 0 {
					created = created[:i]
				}
				continue
			}
			if top == "" && strings.Contains(l, libPath) {
				top = l
				if i := strings.LastIndex(top, "("); i >= 0 {
					top = top[:i]
				}
			}
		}
		// goroutines running harness test code that merely calls into the library synchronously are not leaks of the library
		if !strings.Contains(created, libPath) && top == "" {
			continue
		}
		if strings.Contains(created, "verifharness") && !strings.Contains(g, libPath+".") {
			continue
		}
		out[strings.TrimPrefix(top, libPath)+" <- "+strings.TrimPrefix(created, libPath)]++
	}
	return out
}

// GoroutineDiff lists signatures whose count grew from before to after.
func GoroutineDiff(before, after map[string]int) []string {
	var d []string
	for k, v := range after {
		if v > before[k] {
			d = append(d, fmt.Sprintf("%s (+%d)", k, v-before[k]))
		}
	}
	sort.Strings(d)
	return d
}

// WaitNoLeak polls until no library goroutine beyond the baseline remains or the bound passes.
func WaitNoLeak(before map[string]int, bound time.Duration) []string {
	deadline := time.Now().Add(bound)
	for {
		d := GoroutineDiff(before, LibGoroutines())
		if len(d) == 0 || time.Now().After(deadline) {
			return d
		}
		time.Sleep(5 * time.Millisecond)
	}
}

// FDCount returns the number of open file descriptors of this process.
func FDCount() int {
	ents, err := os.ReadDir("/proc/self/fd")
	if err != nil {
		return -1
	}
	return len(ents)
}

// CPUTime returns the process's user+system CPU time.
func CPUTime() time.Duration {
	var ru syscall.Rusage
	if err := syscall.Getrusage(syscall.RUSAGE_SELF, &ru); err != nil {
		return 0
	}
	return time.Duration(ru.Utime.Nano() + ru.Stime.Nano())
}
