package harness

import (
	"context"
	"encoding/json"
	"fmt"
	"runtime"
	"sort"
	"strings"
	"sync"
	"sync/atomic"
	"testing"
	"time"

	"pgregory.net/rapid"
	mcp "trpc.group/trpc-go/trpc-mcp-go"
)

// C12: registries stay consistent while tools, prompts and resources change under load.

type C12Op struct {
	Op   string `json:"op"` // regtool unreg listtools call regprompt listprompts getprompt regres listres readres regnotif
	Name int    `json:"name"`
}

type C12Case struct {
	Mode    Mode      `json:"mode"`
	Workers [][]C12Op `json:"workers"`           // one op list per goroutine
	Pre     []C12Op   `json:"pre"`               // executed sequentially before the concurrent phase
	Style   int       `json:"style,omitempty"`   // spelling of names and URIs: index into c12NamePools / c12URIPools
	Ballast int       `json:"ballast,omitempty"` // entries registered in every registry before anything else (they widen the windows inside list requests)
}

var c12Names = []string{"n0", "n1", "n2", "n3"}

// names and URIs are opaque strings to the registries: spellings a URL parser or a case-folding map would alter
var c12NamePools = [][]string{
	{"n0", "n1", "n2", "n3"},
	{"n 0", "ñ1", "N2", "n2"},
	{"a/b", "a%2Fb", "x.y#z", "{t}"},
}
var c12URIPools = [][]string{
	{"file:///n0", "file:///n1", "file:///n2", "file:///n3"},
	{"FILE:///Dir/n 0", "file:///ñ1", "file:///a|b{c}", "file:///n3#"},
	{"file:///a%20b", "file:///a b", "custom://Host/x?q=1&r=%7B", "urn:x:Y"},
}

func (c C12Case) names() []string { return c12NamePools[c.Style%len(c12NamePools)] }
func (c C12Case) uris() []string  { return c12URIPools[c.Style%len(c12URIPools)] }

func genC12Ops(t *rapid.T, n int, label string) []C12Op {
	var ops []C12Op
	for i := 0; i < n; i++ {
		ops = append(ops, C12Op{
			Op:   rapid.SampledFrom([]string{"regtool", "regtool", "unreg", "listtools", "listtools", "call", "call", "regprompt", "listprompts", "getprompt", "regres", "listres", "readres", "regnotif", "regresnil", "listres"}).Draw(t, label+"op"),
			Name: rapid.IntRange(0, len(c12Names)-1).Draw(t, label+"name"),
		})
	}
	return ops
}

func genC12(t *rapid.T) C12Case {
	c := C12Case{Mode: rapid.SampledFrom([]Mode{ModeSJ, ModeSJ, ModeLJ, ModeSS}).Draw(t, "mode")}
	c.Pre = genC12Ops(t, rapid.IntRange(0, 6).Draw(t, "npre"), "pre")
	nw := rapid.IntRange(2, 8).Draw(t, "nworkers")
	for w := 0; w < nw; w++ {
		c.Workers = append(c.Workers, genC12Ops(t, rapid.IntRange(1, 12).Draw(t, "nops"), "w"))
	}
	c.Style = rapid.SampledFrom([]int{0, 0, 1, 2}).Draw(t, "style")
	c.Ballast = rapid.SampledFrom([]int{0, 0, 0, 40, 300}).Draw(t, "ballast")
	return c
}

func c12IsWrite(op string) bool {
	return op == "regtool" || op == "unreg" || op == "regprompt" || op == "regres"
}

func c12Registry(op string) string {
	switch op {
	case "regtool", "unreg", "listtools", "call":
		return "tool"
	case "regprompt", "listprompts", "getprompt":
		return "prompt"
	case "regres", "listres", "readres", "regresnil":
		return "res"
	}
	return ""
}

func ntC12(c C12Case) (bool, []string) {
	// a read-type op in one goroutine and a write-type op on the same registry in another
	rw := map[string][2]map[int]bool{}
	for wi, ops := range c.Workers {
		for _, o := range ops {
			r := c12Registry(o.Op)
			if r == "" {
				continue
			}
			e := rw[r]
			if e[0] == nil {
				e = [2]map[int]bool{{}, {}}
			}
			if c12IsWrite(o.Op) {
				e[0][wi] = true
			} else {
				e[1][wi] = true
			}
			rw[r] = e
		}
	}
	nt := false
	for _, e := range rw {
		for w := range e[0] {
			for r := range e[1] {
				if w != r {
					nt = true
				}
			}
		}
	}
	return nt, []string{"mode=" + c.Mode.String(), fmt.Sprintf("workers=%d", len(c.Workers)), fmt.Sprintf("style=%d", c.Style), fmt.Sprintf("ballast=%d", c.Ballast)}
}

type c12Rec struct {
	op         C12Op
	start, end int64
	ver        int               // for register ops
	listed     map[string]string // list ops: name/uri -> description (version tag)
	order      []string          // list ops: order
	dup        string
	ballast    int               // list ops: ballast entries listed
	blocked    bool              // register ops: the registration call did not return
	stillOut   func() bool       // blocked ops: reports whether the call has still not returned
	props      map[string]string // tools/list: name -> the parameter names of the listed input schema
	ok         bool              // call/get/read succeeded
	text       string            // call/get/read payload
	code       int               // error code
	raw        string
}

// c12Literal: version tags of tools that were registered as a literal without a schema (their listed parameters are not judged).
var c12Literal sync.Map

func execC12(c C12Case) *Failure {
	c12Literal = sync.Map{}
	w := NewWorld(c.Mode, RegSpec{}, WorldOpt{})
	defer w.Close()
	conn, err := w.Connect()
	if err != nil {
		return Failf("C12/connect", "%v", err)
	}
	var clock atomic.Int64
	var verSeq atomic.Int64
	var mu sync.Mutex
	var recs []*c12Rec
	for i := 0; i < c.Ballast; i++ {
		bn := fmt.Sprintf("ballast-%03d", i)
		w.Srv.RegisterTool(mcp.NewTool(bn, mcp.WithDescription("ballast")), func(ctx context.Context, req *mcp.CallToolRequest) (*mcp.CallToolResult, error) {
			return mcp.NewTextResult("ballast"), nil
		})
		w.Srv.RegisterPrompt(&mcp.Prompt{Name: bn, Description: "ballast", Arguments: []mcp.PromptArgument{{Name: "a", Description: "b"}}}, func(ctx context.Context, req *mcp.GetPromptRequest) (*mcp.GetPromptResult, error) {
			return &mcp.GetPromptResult{}, nil
		})
		w.Srv.RegisterResource(&mcp.Resource{URI: "ballast://" + bn, Name: bn, Description: "ballast"}, func(ctx context.Context, req *mcp.ReadResourceRequest) (mcp.ResourceContents, error) {
			return mcp.TextResourceContents{URI: "ballast://" + bn, Text: "ballast"}, nil
		})
	}
	run := func(op C12Op, worker int) {
		r := &c12Rec{op: op}
		name := c.names()[op.Name]
		uri := c.uris()[op.Name]
		r.start = clock.Add(1)
		post := func(method string, params string) (map[string]interface{}, string) {
			id := fmt.Sprintf(`"w%d-%d"`, worker, clock.Add(1))
			exCh := make(chan Exchange, 1)
			go func() {
				exCh <- conn.Send([]byte(fmt.Sprintf(`{"jsonrpc":"2.0","id":%s,"method":%q,"params":%s}`, id, method, params)), id, Bound())
			}()
			var ex Exchange
			select {
			case ex = <-exCh:
			case <-time.After(Patience() + 2*time.Second):
				// the request handler did not return at all (a handler stuck on the registry it is being served from)
				r.blocked = true
				r.stillOut = func() bool { return len(exCh) == 0 }
				return nil, "the request did not return"
			}
			if len(ex.Frames) != 1 {
				return nil, fmt.Sprintf("status %d frames %d err %v", ex.Status, len(ex.Frames), ex.Err)
			}
			var m map[string]interface{}
			json.Unmarshal(ex.Frames[0], &m)
			return m, string(ex.Frames[0])
		}
		list := func(method, key, idField string) {
			m, raw := post(method, `{}`)
			r.raw = raw
			res, _ := m["result"].(map[string]interface{})
			items, ok := res[key].([]interface{})
			if !ok {
				return
			}
			r.ok = true
			r.listed = map[string]string{}
			for _, it := range items {
				im, _ := it.(map[string]interface{})
				n, _ := im[idField].(string)
				d, _ := im["description"].(string)
				if strings.HasPrefix(n, "ballast-") || strings.HasPrefix(n, "ballast://") {
					if d == "ballast" {
						r.ballast++
					}
					continue
				}
				if strings.HasPrefix(n, "inner-") || strings.HasPrefix(n, "inner://") {
					continue // registered by a handler while it was serving a request
				}
				if _, dup := r.listed[n]; dup {
					r.dup = n
				}
				r.listed[n] = d + "|" + fmt.Sprint(im["name"])
				r.order = append(r.order, n)
				if sch, ok := im["inputSchema"].(map[string]interface{}); ok && key == "tools" {
					var props []string
					if pm, ok := sch["properties"].(map[string]interface{}); ok {
						for k := range pm {
							props = append(props, k)
						}
					}
					sort.Strings(props)
					if r.props == nil {
						r.props = map[string]string{}
					}
					r.props[n] = strings.Join(props, ",")
				}
			}
		}
		single := func(method, params string) {
			m, raw := post(method, params)
			r.raw = raw
			if res, ok := m["result"].(map[string]interface{}); ok {
				r.ok = true
				var bb strings.Builder
				enc := json.NewEncoder(&bb)
				enc.SetEscapeHTML(false)
				enc.Encode(res)
				r.text = bb.String()
			} else if e, ok := m["error"].(map[string]interface{}); ok {
				cf, _ := e["code"].(float64)
				r.code = int(cf)
			}
		}
		switch op.Op {
		case "regtool":
			r.ver = int(verSeq.Add(1))
			tag := fmt.Sprintf("%s:v%d", name, r.ver)
			// every version's descriptor is built from the same struct type plus one parameter of its own
			ver := r.ver
			tool := mcp.NewTool(name, mcp.WithDescription(tag), mcp.WithInputStruct[typedInner](), mcp.WithString(fmt.Sprintf("p%d", r.ver)))
			if ver%4 == 0 {
				// a descriptor written as a literal: no schema at all
				tool = &mcp.Tool{Name: name, Description: tag}
				c12Literal.Store(tag, true)
			}
			w.Srv.RegisterTool(tool, func(ctx context.Context, req *mcp.CallToolRequest) (*mcp.CallToolResult, error) {
				// handlers take a moment (their tool may be removed or replaced meanwhile); two in three answer with a JSON document as text
				time.Sleep(time.Duration(ver%4) * 150 * time.Microsecond)
				if ver%3 != 0 {
					return mcp.NewTextResult(fmt.Sprintf(`{"tag":"%s","n":%d}`, tag, ver)), nil
				}
				return mcp.NewTextResult(tag), nil
			})
		case "unreg":
			w.Srv.UnregisterTools(name)
		case "listtools":
			list("tools/list", "tools", "name")
		case "call":
			single("tools/call", fmt.Sprintf(`{"name":%q,"arguments":{}}`, name))
		case "regprompt":
			r.ver = int(verSeq.Add(1))
			tag := fmt.Sprintf("%s:v%d", name, r.ver)
			ver := r.ver
			regDone := make(chan struct{})
			go func() {
				defer close(regDone)
				w.Srv.RegisterPrompt(&mcp.Prompt{Name: name, Description: tag}, func(ctx context.Context, req *mcp.GetPromptRequest) (*mcp.GetPromptResult, error) {
					// handlers take a moment, and some register further entries while they serve (a catalogue that grows on demand)
					time.Sleep(time.Duration(ver%4) * 150 * time.Microsecond)
					if ver%3 == 0 {
						in := fmt.Sprintf("inner-%d", ver)
						w.Srv.RegisterPrompt(&mcp.Prompt{Name: in, Description: in}, func(ctx context.Context, req *mcp.GetPromptRequest) (*mcp.GetPromptResult, error) {
							return &mcp.GetPromptResult{}, nil
						})
					}
					return &mcp.GetPromptResult{Description: tag, Messages: []mcp.PromptMessage{{Role: mcp.RoleUser, Content: mcp.NewTextContent(tag)}}}, nil
				})
			}()
			select {
			case <-regDone:
			case <-time.After(Patience() + 2*time.Second):
				r.blocked = true
				r.stillOut = func() bool {
					select {
					case <-regDone:
						return false
					default:
						return true
					}
				}
			}
		case "listprompts":
			list("prompts/list", "prompts", "name")
		case "getprompt":
			single("prompts/get", fmt.Sprintf(`{"name":%q}`, name))
		case "regres":
			r.ver = int(verSeq.Add(1))
			tag := fmt.Sprintf("%s:v%d", uri, r.ver)
			ver := r.ver
			regDone := make(chan struct{})
			go func() {
				defer close(regDone)
				if ver%2 == 0 {
					w.Srv.RegisterResources(&mcp.Resource{URI: uri, Name: name, Description: tag}, func(ctx context.Context, req *mcp.ReadResourceRequest) ([]mcp.ResourceContents, error) {
						time.Sleep(time.Duration(ver%4) * 150 * time.Microsecond)
						return []mcp.ResourceContents{mcp.TextResourceContents{URI: uri, Text: tag}}, nil
					})
				} else {
					w.Srv.RegisterResource(&mcp.Resource{URI: uri, Name: name, Description: tag}, func(ctx context.Context, req *mcp.ReadResourceRequest) (mcp.ResourceContents, error) {
						time.Sleep(time.Duration(ver%4) * 150 * time.Microsecond)
						if ver%3 == 0 {
							in := fmt.Sprintf("inner://%d", ver)
							w.Srv.RegisterResource(&mcp.Resource{URI: in, Name: in, Description: in}, func(ctx context.Context, req *mcp.ReadResourceRequest) (mcp.ResourceContents, error) {
								return mcp.TextResourceContents{URI: in, Text: in}, nil
							})
						}
						return mcp.TextResourceContents{URI: uri, Text: tag}, nil
					})
				}
			}()
			select {
			case <-regDone:
			case <-time.After(Patience() + 2*time.Second):
				r.blocked = true
				r.stillOut = func() bool {
					select {
					case <-regDone:
						return false
					default:
						return true
					}
				}
			}
		case "regresnil":
			// a registration without a handler: whether it is refused or kept (as an entry that cannot be read) is the library's
			// choice; either way the registry stays well-formed
			r.ver = int(verSeq.Add(1))
			tag := fmt.Sprintf("%s:v%d", uri, r.ver)
			w.Srv.RegisterResource(&mcp.Resource{URI: uri, Name: name, Description: tag}, nil)
		case "listres":
			list("resources/list", "resources", "uri")
		case "readres":
			single("resources/read", fmt.Sprintf(`{"uri":%q}`, uri))
		case "regnotif":
			w.Srv.RegisterNotificationHandler("notifications/"+name, func(ctx context.Context, n *mcp.JSONRPCNotification) error { return nil })
		}
		r.end = clock.Add(1)
		mu.Lock()
		recs = append(recs, r)
		mu.Unlock()
	}
	for _, op := range c.Pre {
		run(op, 99)
	}
	var wg sync.WaitGroup
	for wi, ops := range c.Workers {
		wg.Add(1)
		go func(wi int, ops []C12Op) {
			defer wg.Done()
			for _, op := range ops {
				run(op, wi)
			}
		}(wi, ops)
	}
	wg.Wait()
	// quiescent: one list of every registry after everything has completed (a registration that has returned is visible
	// to every later list, whatever raced with it)
	for _, op := range []string{"listtools", "listprompts", "listres"} {
		run(C12Op{Op: op}, 98)
	}
	if f := judgeC12(c, recs); f != nil {
		return f
	}
	return c12HandlerSwap(c, w, conn)
}

// c12HandlerSwap: re-registering a name replaces its handler also when the descriptor did not change (the same pointer, or a
// fresh value equal to the old one): the next request is served by the new handler.
func c12HandlerSwap(c C12Case, w *World, conn *Conn) *Failure {
	ask := func(method, params string) string {
		id := fmt.Sprintf(`"swap-%s"`, method)
		ex := conn.Send([]byte(fmt.Sprintf(`{"jsonrpc":"2.0","id":%s,"method":%q,"params":%s}`, id, method, params)), id, Bound())
		if len(ex.Frames) == 0 {
			return fmt.Sprintf("no answer (status %d, %v)", ex.Status, ex.Err)
		}
		return string(ex.Frames[len(ex.Frames)-1])
	}
	for round, samePtr := range []bool{true, false} {
		gen := fmt.Sprintf("swap%d", round)
		pd := &mcp.Prompt{Name: gen, Description: "unchanged", Arguments: []mcp.PromptArgument{{Name: "a"}}}
		rd := &mcp.Resource{URI: "swap://" + gen, Name: gen, Description: "unchanged", MimeType: "text/plain"}
		for v := 1; v <= 3; v++ {
			mark := fmt.Sprintf("%s-handler-%d", gen, v)
			p2, r2 := pd, rd
			if !samePtr {
				cp, cr := *pd, *rd
				cp.Arguments = append([]mcp.PromptArgument(nil), pd.Arguments...)
				p2, r2 = &cp, &cr
			}
			w.Srv.RegisterPrompt(p2, func(ctx context.Context, req *mcp.GetPromptRequest) (*mcp.GetPromptResult, error) {
				return &mcp.GetPromptResult{Description: mark}, nil
			})
			w.Srv.RegisterResource(r2, func(ctx context.Context, req *mcp.ReadResourceRequest) (mcp.ResourceContents, error) {
				return mcp.TextResourceContents{URI: "swap://" + gen, Text: mark}, nil
			})
			w.Srv.RegisterTool(mcp.NewTool(gen, mcp.WithDescription("unchanged")), func(ctx context.Context, req *mcp.CallToolRequest) (*mcp.CallToolResult, error) {
				return mcp.NewTextResult(mark), nil
			})
			for _, q := range [][3]string{{"prompt", "prompts/get", fmt.Sprintf(`{"name":%q}`, gen)}, {"res", "resources/read", fmt.Sprintf(`{"uri":%q}`, "swap://"+gen)}, {"tool", "tools/call", fmt.Sprintf(`{"name":%q,"arguments":{}}`, gen)}} {
				if got := ask(q[1], q[2]); !strings.Contains(got, mark) {
					return Failf("C12/stale-handler/"+q[0], "%s: %q was registered %d times with an unchanged descriptor (same pointer: %v) and a new handler each time; %s after the last registration is answered %.200s, the handler registered last answers %q", c.Mode, gen, v, samePtr, q[1], got, mark)
				}
			}
		}
	}
	return nil
}

// judgeC12: interval reasoning over the recorded history.
func judgeC12(c C12Case, recs []*c12Rec) *Failure {
	key := func(o C12Op) string {
		if c12Registry(o.Op) == "res" {
			return c.uris()[o.Name]
		}
		return c.names()[o.Name]
	}
	type wr struct {
		reg        bool
		ver        int
		start, end int64
		maybe      bool // a registration the library may refuse (no handler): it may be listed, it need not be
	}
	writes := map[string][]wr{} // registry|key -> write ops
	for _, r := range recs {
		reg := c12Registry(r.op.Op)
		switch r.op.Op {
		case "regtool", "regprompt", "regres":
			writes[reg+"|"+key(r.op)] = append(writes[reg+"|"+key(r.op)], wr{true, r.ver, r.start, r.end, false})
		case "regresnil":
			writes[reg+"|"+key(r.op)] = append(writes[reg+"|"+key(r.op)], wr{true, r.ver, r.start, r.end, true})
		case "unreg":
			writes[reg+"|"+key(r.op)] = append(writes[reg+"|"+key(r.op)], wr{false, 0, r.start, r.end, false})
		}
	}
	// definitelyPresent during [s,e]: a registration completed before s and every removal completed before that registration began
	definitelyPresent := func(reg, k string, s, e int64) bool {
		for _, x := range writes[reg+"|"+k] {
			if !x.reg || x.end >= s || x.maybe {
				continue
			}
			ok := true
			for _, u := range writes[reg+"|"+k] {
				if !u.reg && u.end > x.start {
					ok = false
				}
			}
			if ok {
				return true
			}
		}
		return false
	}
	// possiblyPresent: some registration began before e
	possiblyPresent := func(reg, k string, e int64) bool {
		for _, x := range writes[reg+"|"+k] {
			if x.reg && x.start < e {
				return true
			}
		}
		return false
	}
	versionsOf := func(reg, k string, e int64) map[string]bool {
		out := map[string]bool{}
		for _, x := range writes[reg+"|"+k] {
			if x.reg && x.start < e {
				out[fmt.Sprintf("%s:v%d", k, x.ver)] = true
			}
		}
		return out
	}
	// supersededBefore: every registration that carried this version tag had completed, and a later one of the same key had
	// begun after it and completed, before instant s - the registry can no longer hold that version at s
	supersededBefore := func(reg, k, tag string, s int64) bool {
		any := false
		for _, x := range writes[reg+"|"+k] {
			if !x.reg || fmt.Sprintf("%s:v%d", k, x.ver) != tag {
				continue
			}
			any = true
			replaced := false
			for _, y := range writes[reg+"|"+k] {
				if y.reg && !y.maybe && y.start > x.end && y.end < s {
					replaced = true
				}
			}
			if !replaced {
				return false
			}
		}
		return any
	}
	hist := func() string {
		var b []string
		sort.Slice(recs, func(i, j int) bool { return recs[i].start < recs[j].start })
		for _, r := range recs {
			b = append(b, fmt.Sprintf("[%d-%d %s %s v%d]", r.start, r.end, r.op.Op, c.names()[r.op.Name], r.ver))
		}
		s := strings.Join(b, " ")
		if len(s) > 1500 {
			s = s[:1500] + "..."
		}
		return s
	}
	for _, r := range recs {
		if r.blocked && r.stillOut != nil && r.stillOut() {
			// not a matter of waiting long enough: the whole history has been worked off since and the call is still out
			return Failf("C12/registration-blocked", "%s: %s of %q never returned, not by the end of the case either (a registration waits for handlers in progress, or the registry is wedged)\nhistory: %s", c.Mode, r.op.Op, key(r.op), hist())
		}
		if r.blocked {
			return TimingFailf("C12/registration-blocked", "%s: %s of %q did not return (a registration waits for handlers in progress, or the registry is wedged)\nhistory: %s", c.Mode, r.op.Op, key(r.op), hist())
		}
	}
	for _, r := range recs {
		reg := c12Registry(r.op.Op)
		switch r.op.Op {
		case "listtools", "listprompts", "listres":
			if !r.ok {
				return TimingFailf("C12/list-failed/"+reg, "%s %s failed: %.200s", c.Mode, r.op.Op, r.raw)
			}
			if r.dup != "" {
				return Failf("C12/duplicate-entry/"+reg, "%s: %s lists %q twice: %v\nhistory: %s", c.Mode, r.op.Op, r.dup, r.order, hist())
			}
			known := map[string]bool{}
			for ni, n := range c.names() {
				if reg == "res" {
					known[c.uris()[ni]] = true
				} else {
					known[n] = true
				}
			}
			for _, k := range r.order {
				if !known[k] {
					return Failf("C12/phantom-entry/"+reg, "%s: %s [%d-%d] lists an entry %q that nobody registered: %v\nhistory: %s", c.Mode, r.op.Op, r.start, r.end, k, r.order, hist())
				}
			}
			if r.ballast != c.Ballast {
				return Failf("C12/missing-entry/"+reg, "%s: %s [%d-%d] shows %d of the %d entries registered before anything else\nhistory: %s", c.Mode, r.op.Op, r.start, r.end, r.ballast, c.Ballast, hist())
			}
			for ni, n := range c.names() {
				k := n
				if reg == "res" {
					k = c.uris()[ni]
				}
				desc, listed := r.listed[k]
				if definitelyPresent(reg, k, r.start, r.end) && !listed {
					return Failf("C12/missing-entry/"+reg, "%s: %s [%d-%d] omits %q although it was registered before and not removed since: listed %v\nhistory: %s", c.Mode, r.op.Op, r.start, r.end, k, r.order, hist())
				}
				if listed && !possiblyPresent(reg, k, r.end) {
					return Failf("C12/phantom-entry/"+reg, "%s: %s [%d-%d] lists %q, which was never registered before the list ended\nhistory: %s", c.Mode, r.op.Op, r.start, r.end, k, hist())
				}
				if listed {
					tag := desc[:strings.LastIndex(desc, "|")]
					if _, lit := c12Literal.Load(tag); reg == "tool" && r.props != nil && !lit {
						// the listed schema is the one this version was registered with: the struct's fields and its own parameter
						want := []string{"label", "tags", "p" + tag[strings.LastIndex(tag, ":v")+2:]}
						sort.Strings(want)
						if got := r.props[k]; got != strings.Join(want, ",") {
							return Failf("C12/torn-entry/"+reg, "%s: %s lists %q (descriptor %q) with parameters [%s], it was registered with [%s]\nhistory: %s", c.Mode, r.op.Op, k, tag, got, strings.Join(want, ","), hist())
						}
					}
					if supersededBefore(reg, k, tag, r.start) {
						return Failf("C12/stale-entry/"+reg, "%s: %s [%d-%d] lists %q with descriptor %q although a later registration of it had completed before the list began\nhistory: %s", c.Mode, r.op.Op, r.start, r.end, k, desc, hist())
					}
					if !versionsOf(reg, k, r.end)[tag] || !strings.HasSuffix(desc, "|"+n) {
						return Failf("C12/torn-entry/"+reg, "%s: %s lists %q with descriptor %q, which is none of the registered versions %v\nhistory: %s", c.Mode, r.op.Op, k, desc, sortedKeys(versionsOf(reg, k, r.end)), hist())
					}
				}
			}
			if reg == "res" {
				// registration order: first registrations that are ordered in time and never re-ordered
				first := map[string]wr{}
				for _, k := range c.uris() {
					for _, x := range writes["res|"+k] {
						if f, ok := first[k]; !ok || x.start < f.start {
							first[k] = x
						}
					}
				}
				for i := 0; i < len(r.order); i++ {
					for j := i + 1; j < len(r.order); j++ {
						a, b := first[r.order[i]], first[r.order[j]]
						// listed a before b although every registration of b completed before any of a began
						allBefore := true
						for _, xb := range writes["res|"+r.order[j]] {
							for _, xa := range writes["res|"+r.order[i]] {
								if !(xb.end < xa.start) {
									allBefore = false
								}
							}
						}
						if allBefore && len(writes["res|"+r.order[j]]) > 0 && len(writes["res|"+r.order[i]]) > 0 {
							_ = a
							_ = b
							return Failf("C12/resource-order", "%s: resources/list shows %v but %s was registered (completely) before %s\nhistory: %s", c.Mode, r.order, r.order[j], r.order[i], hist())
						}
					}
				}
			}
		case "call", "getprompt", "readres":
			k := key(r.op)
			handlerless := false
			for _, x := range writes[reg+"|"+k] {
				if x.maybe && x.start < r.end {
					handlerless = true
				}
			}
			if handlerless {
				continue // the entry may have no handler: what reading it does is not this property's business
			}
			if r.raw != "" && !r.ok && r.code == 0 {
				if strings.Contains(r.raw, "panic") {
					// a fact, however the schedule that led to it came about
					return Failf("C12/request-panics/"+reg, "%s: %s %q [%d-%d]: %.300s\nhistory: %s", c.Mode, r.op.Op, k, r.start, r.end, r.raw, hist())
				}
				return TimingFailf("C12/call-no-answer/"+reg, "%s: %s %q: %.200s", c.Mode, r.op.Op, k, r.raw)
			}
			if definitelyPresent(reg, k, r.start, r.end) {
				if !r.ok {
					return Failf("C12/registered-entry-not-found/"+reg, "%s: %s %q [%d-%d] failed with %d although the entry was registered throughout: %.200s\nhistory: %s", c.Mode, r.op.Op, k, r.start, r.end, r.code, r.raw, hist())
				}
			}
			if r.ok {
				found := false
				for tag := range versionsOf(reg, k, r.end) {
					if strings.Contains(r.text, tag+`"`) || strings.Contains(r.text, tag+`\"`) {
						found = true
					}
				}
				for tag := range versionsOf(reg, k, r.end) {
					if (strings.Contains(r.text, tag+`"`) || strings.Contains(r.text, tag+`\"`)) && supersededBefore(reg, k, tag, r.start) {
						return Failf("C12/stale-handler/"+reg, "%s: %s %q [%d-%d] was served by version %s although a later registration had completed before the request began\nhistory: %s", c.Mode, r.op.Op, k, r.start, r.end, tag, hist())
					}
				}
				if !found {
					return Failf("C12/foreign-handler/"+reg, "%s: %s %q returned %.200s, which no registered version of the entry produces (%v)\nhistory: %s", c.Mode, r.op.Op, k, r.text, sortedKeys(versionsOf(reg, k, r.end)), hist())
				}
			}
			if !possiblyPresent(reg, k, r.end) {
				if r.ok || (r.code != -32601 && r.code != -32602 && r.code != -32002) {
					return Failf("C12/never-registered-entry/"+reg, "%s: %s %q, never registered, answered ok=%v code=%d", c.Mode, r.op.Op, k, r.ok, r.code)
				}
			}
		}
	}
	return nil
}

func TestC12(t *testing.T) {
	RunProp(t, Prop[C12Case]{ID: "C12", Gen: genC12, Exec: execC12, NT: ntC12})
}

// ---------------------------------------------------------------------------
// notification handlers registered while client notifications arrive (all three server kinds)

type C12NotifCase struct {
	Mode       Mode `json:"mode"`            // ModeSJ, ModeLegacy or ModeStdio
	Registrars int  `json:"registrars"`      // goroutines registering handlers concurrently
	Regs       int  `json:"regs"`            // registrations per registrar (names cycle over a small pool, so names are re-registered)
	Senders    int  `json:"senders"`         // client connections sending notifications
	Notifs     int  `json:"notifs"`          // notifications per sender
	Twin       bool `json:"twin,omitempty"`  // a second server of the same kind lives in the process and gets handlers of its own registered at the same time
	Churn      int  `json:"churn,omitempty"` // a further goroutine registers and unregisters "notifications/churn" this many times while the senders also send that method
}

func unregisterNotif(server interface{}, method string) {
	switch s := server.(type) {
	case *mcp.Server:
		s.UnregisterNotificationHandler(method)
	case *mcp.SSEServer:
		s.UnregisterNotificationHandler(method)
	case *mcp.StdioServer:
		s.UnregisterNotificationHandler(method)
	}
}

func registerNotif(server interface{}, method string, h mcp.ServerNotificationHandler) {
	switch s := server.(type) {
	case *mcp.Server:
		s.RegisterNotificationHandler(method, h)
	case *mcp.SSEServer:
		s.RegisterNotificationHandler(method, h)
	case *mcp.StdioServer:
		s.RegisterNotificationHandler(method, h)
	}
}

func execC12Notif(c C12NotifCase) *Failure {
	w := NewWorld(c.Mode, RegSpec{}, WorldOpt{})
	defer w.Close()
	srv := serverOf(w)
	var stable atomic.Int64
	registerNotif(srv, "notifications/stable", func(ctx context.Context, n *mcp.JSONRPCNotification) error { stable.Add(1); return nil })
	senders := c.Senders
	if c.Mode == ModeStdio {
		senders = 1
	}
	var conns []*Conn
	for i := 0; i < senders; i++ {
		conn, err := w.Connect()
		if err != nil {
			return Failf("C12/connect", "%v", err)
		}
		defer conn.Close()
		conns = append(conns, conn)
	}
	var wg sync.WaitGroup
	var last sync.Map // name -> the sequence number of a handler registered for it
	var seq atomic.Int64
	var hits sync.Map // sequence number -> invoked
	var twinHits atomic.Int64
	if c.Twin {
		// registries are per server: what is registered on the twin is never run by (or visible on) this server
		tw := NewWorld(c.Mode, RegSpec{}, WorldOpt{})
		defer tw.Close()
		tsrv := serverOf(tw)
		for r := 0; r < c.Registrars; r++ {
			wg.Add(1)
			go func(r int) {
				defer wg.Done()
				for k := 0; k < c.Regs; k++ {
					registerNotif(tsrv, fmt.Sprintf("notifications/plug-%d", (r+k)%5), func(ctx context.Context, n *mcp.JSONRPCNotification) error { twinHits.Add(1); return nil })
					registerNotif(tsrv, "notifications/twin-only", func(ctx context.Context, n *mcp.JSONRPCNotification) error { twinHits.Add(1); return nil })
					registerNotif(tsrv, "notifications/stable", func(ctx context.Context, n *mcp.JSONRPCNotification) error { twinHits.Add(1); return nil })
				}
			}(r)
		}
	}
	for r := 0; r < c.Registrars; r++ {
		wg.Add(1)
		go func(r int) {
			defer wg.Done()
			for k := 0; k < c.Regs; k++ {
				name := fmt.Sprintf("notifications/plug-%d", (r+k)%5)
				id := seq.Add(1)
				registerNotif(srv, name, func(ctx context.Context, n *mcp.JSONRPCNotification) error { hits.Store(id, true); return nil })
				last.Store(fmt.Sprintf("%s#%d", name, r), id)
			}
		}(r)
	}
	var churnRuns atomic.Int64
	if c.Churn > 0 {
		wg.Add(1)
		go func() {
			defer wg.Done()
			for k := 0; k < c.Churn; k++ {
				registerNotif(srv, "notifications/churn", func(ctx context.Context, n *mcp.JSONRPCNotification) error { churnRuns.Add(1); return nil })
				if k%3 == 2 {
					runtime.Gosched()
				}
				unregisterNotif(srv, "notifications/churn")
			}
		}()
	}
	sendErrs := make([]string, senders)
	for i, conn := range conns {
		wg.Add(1)
		go func(i int, conn *Conn) {
			defer wg.Done()
			for k := 0; k < c.Notifs; k++ {
				if c.Churn > 0 {
					// whether a handler is registered at this instant is open; the notification is acknowledged either way
					cb := []byte(`{"jsonrpc":"2.0","method":"notifications/churn"}`)
					if c.Mode == ModeStdio {
						conn.in.Write(append(cb, '\n'))
					} else {
						conn.Send(cb, "", 0)
					}
				}
				body := []byte(fmt.Sprintf(`{"jsonrpc":"2.0","method":"notifications/stable","params":{"k":%d}}`, k))
				switch c.Mode {
				case ModeStdio:
					if _, err := conn.in.Write(append(body, '\n')); err != nil {
						sendErrs[i] = err.Error()
					}
				default:
					ex := conn.Send(body, "", 0)
					if ex.Err != nil || ex.Status >= 300 {
						sendErrs[i] = fmt.Sprintf("status %d err %v", ex.Status, ex.Err)
					}
				}
			}
		}(i, conn)
	}
	wg.Wait()
	where := fmt.Sprintf("%s: %d registrars x %d registrations while %d senders x %d notifications arrive", c.Mode, c.Registrars, c.Regs, senders, c.Notifs)
	for i, e := range sendErrs {
		if e != "" {
			return Failf("C12/notification-refused", "%s: sender %d: %s", where, i, e)
		}
	}
	want := int64(senders * c.Notifs)
	deadline := time.Now().Add(Patience())
	for stable.Load() < want && time.Now().Before(deadline) {
		time.Sleep(300 * time.Microsecond)
	}
	if got := stable.Load(); got != want {
		return TimingFailf("C12/notification-handler-runs", "%s: the handler that stayed registered throughout ran %d times for %d notifications", where, got, want)
	}
	if c.Twin {
		body := []byte(`{"jsonrpc":"2.0","method":"notifications/twin-only"}`)
		if c.Mode == ModeStdio {
			conns[0].in.Write(append(body, '\n'))
		} else {
			conns[0].Send(body, "", 0)
		}
		time.Sleep(3 * time.Millisecond)
		if n := twinHits.Load(); n > 0 {
			return Failf("C12/foreign-registry", "%s: %d notifications sent to this server ran handlers that were registered on another server of the process", where, n)
		}
	}
	// every name now has one of the handlers registered last by some registrar: one more notification reaches exactly such a one
	for p := 0; p < 5; p++ {
		name := fmt.Sprintf("notifications/plug-%d", p)
		cands := map[int64]bool{}
		last.Range(func(k, v interface{}) bool {
			if strings.HasPrefix(k.(string), name+"#") {
				cands[v.(int64)] = true
			}
			return true
		})
		if len(cands) == 0 {
			continue
		}
		body := []byte(fmt.Sprintf(`{"jsonrpc":"2.0","method":%q}`, name))
		if c.Mode == ModeStdio {
			conns[0].in.Write(append(body, '\n'))
		} else {
			conns[0].Send(body, "", 0)
		}
		ok := false
		deadline := time.Now().Add(Patience())
		for !ok && time.Now().Before(deadline) {
			for id := range cands {
				if _, hit := hits.Load(id); hit {
					ok = true
				}
			}
			if !ok {
				time.Sleep(300 * time.Microsecond)
			}
		}
		if !ok {
			return TimingFailf("C12/notification-handler-lost", "%s: a %s notification sent after the registrations reached none of the handlers registered last for it", where, name)
		}
	}
	// the table runs empty and is filled again: a handler registered after the last one was removed works like the first
	for _, m := range []string{"notifications/stable", "notifications/churn", "notifications/twin-only", "notifications/plug-0", "notifications/plug-1", "notifications/plug-2", "notifications/plug-3", "notifications/plug-4"} {
		unregisterNotif(srv, m)
	}
	var again atomic.Int64
	registerNotif(srv, "notifications/again", func(ctx context.Context, n *mcp.JSONRPCNotification) error { again.Add(1); return nil })
	body := []byte(`{"jsonrpc":"2.0","method":"notifications/again"}`)
	if c.Mode == ModeStdio {
		conns[0].in.Write(append(body, '\n'))
	} else {
		conns[0].Send(body, "", 0)
	}
	deadline = time.Now().Add(Patience())
	for again.Load() == 0 && time.Now().Before(deadline) {
		time.Sleep(300 * time.Microsecond)
	}
	if again.Load() != 1 {
		return TimingFailf("C12/notification-handler-lost", "%s: every handler was removed and one registered anew; its notification ran it %d times", where, again.Load())
	}
	return nil
}

func TestC12Notif(t *testing.T) {
	RunProp(t, Prop[C12NotifCase]{ID: "C12",
		Gen: func(t *rapid.T) C12NotifCase {
			return C12NotifCase{Mode: rapid.SampledFrom([]Mode{ModeSJ, ModeLegacy, ModeLegacy, ModeStdio}).Draw(t, "mode"),
				Registrars: rapid.IntRange(1, 6).Draw(t, "registrars"), Regs: rapid.IntRange(1, 40).Draw(t, "regs"),
				Senders: rapid.IntRange(1, 3).Draw(t, "senders"), Notifs: rapid.IntRange(1, 60).Draw(t, "notifs"), Twin: rapid.IntRange(0, 2).Draw(t, "twin") == 0,
				Churn: rapid.SampledFrom([]int{0, 50, 400, 2000}).Draw(t, "churn")}
		},
		Exec: execC12Notif,
		NT: func(c C12NotifCase) (bool, []string) {
			return c.Registrars >= 1 && c.Notifs >= 5, []string{"mode=" + c.Mode.String()}
		}})
}
