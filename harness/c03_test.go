package harness

import (
	"encoding/json"
	"fmt"
	"testing"

	"pgregory.net/rapid"
)

// C03Case: a server of some mode with a generated registration set receives a
// sequence of valid / structurally mutated requests.
type C03Case struct {
	Mode  Mode      `json:"mode"`
	Reg   RegSpec   `json:"reg"`
	Steps []ReqStep `json:"steps"`
	Path  string    `json:"path,omitempty"` // when set: the request goes to this (wrong) URL path
}

func methodsFor(mode Mode) []string {
	if mode == ModeStdio {
		return CommonMethods
	}
	return append(append([]string(nil), CommonMethods...), HTTPOnlyMethods...)
}

func c03Outcomes() []int {
	outs := []int{OutOK, OutOK, OutGoErr, OutIsError, OutCtxDeadline, OutCtxCanceled}
	if !Excluded("C03/nil-content") {
		outs = append(outs, OutNilContent)
	} else {
		CountExcluded("C03/nil-content")
	}
	if !Excluded("C03/unencodable-result") {
		outs = append(outs, OutUnencodable, OutUnencChan)
	} else {
		CountExcluded("C03/unencodable-result")
	}
	return outs
}

func genC03(t *rapid.T) C03Case {
	mode := Mode(rapid.IntRange(0, int(NumModes)-1).Draw(t, "mode"))
	c := C03Case{Mode: mode}
	c.Reg = GenRegSpec(t, c03Outcomes(), mode == ModeStdio)
	n := rapid.IntRange(1, 5).Draw(t, "nsteps")
	for i := 0; i < n; i++ {
		st := GenStep(t, methodsFor(mode), c.Reg, i, 70)
		if mode.Stateful() && rapid.IntRange(0, 9).Draw(t, "stale") == 0 {
			st.Sess = "stale"
		}
		c.Steps = append(c.Steps, st)
	}
	if mode.IsStreamable() && rapid.IntRange(0, 19).Draw(t, "wrongpath") == 0 {
		if Excluded("C03/wrong-path-2xx") {
			CountExcluded("C03/wrong-path-2xx")
		} else {
			c.Path = rapid.SampledFrom([]string{"/", "/mcp/", "/other", "/mcpx", "/MCP"}).Draw(t, "path")
		}
	}
	return c
}

// knownC03 maps a failure to the key of a known finding class, if it belongs to one.
func classifyC03(mode Mode, reg RegSpec, st ReqStep, f *Failure) *Failure {
	if f == nil {
		return nil
	}
	if ts := findTool(reg, st.Target); ts != nil && st.Method == "tools/call" {
		switch ts.Outcome {
		case OutNilContent:
			if f.Key == "C03/result-shape/tools/call" {
				f.Key = "C03/nil-content"
			}
		case OutUnencodable, OutUnencChan:
			f.Key = "C03/unencodable-result"
			f.Timing = false
		}
	}
	return f
}

func execC03(c C03Case) *Failure {
	w := NewWorld(c.Mode, c.Reg, WorldOpt{})
	defer w.Close()
	if c.Path != "" && c.Mode.IsStreamable() {
		for _, st := range c.Steps {
			h := map[string]string{"Content-Type": "application/json", "Accept": "application/json, text/event-stream"}
			ex := w.Direct("POST", c.Path, h, []byte(st.Raw))
			if ex.Status >= 200 && ex.Status < 300 {
				return Failf("C03/wrong-path-2xx", "%s: POST %s (server path /mcp) answered with HTTP %d, body %q", c.Mode, c.Path, ex.Status, ex.Body)
			}
		}
		return nil
	}
	conn, err := w.Connect()
	if err != nil {
		return Failf("C03/connect", "%s: handshake with reference peer failed: %v", c.Mode, err)
	}
	defer conn.Close()
	staleID := ""
	lateLenient := false
	for _, st := range c.Steps {
		if st.Sess == "stale" && c.Mode.Stateful() {
			if staleID == "" {
				// a second session that is initialised and then deleted
				c2, err := w.Connect()
				if err != nil {
					return Failf("C03/connect", "%s: second handshake failed: %v", c.Mode, err)
				}
				staleID = c2.SessionID
				if ex := w.Direct("DELETE", w.Path, map[string]string{"Mcp-Session-Id": staleID}, nil); ex.Status != 200 {
					return Failf("C03/delete", "%s: DELETE of a live session answered %d", c.Mode, ex.Status)
				}
			}
			ex := conn.SendWith([]byte(st.Raw), "", Bound(), map[string]string{"Mcp-Session-Id": staleID})
			if ex.Err != nil {
				return Failf("C03/no-answer/stale-session", "%s: %s sent under a deleted session id got no answer: %v", c.Mode, st.Raw, ex.Err)
			}
			for _, fr := range ex.Frames {
				if _, f := decodeFrame(fr, true); f != nil {
					return f
				}
			}
			if !isErrorAnswer(ex) {
				return Failf("C03/stale-session-served", "%s: %s sent under a deleted session id was answered with status %d %.100q", c.Mode, st.Raw, ex.Status, ex.Body)
			}
			continue
		}
		exp := ExpectFor(st, c.Reg)
		expectID := st.ID
		if exp.NoAnswer && !exp.AnyError {
			expectID = ""
		}
		if expectID == "null" {
			expectID = ""
		}
		bound := Bound()
		ex := conn.Send([]byte(st.Raw), expectID, bound)
		if lateLenient {
			// on a shared stream the answer to an earlier message with a retyped id (any answer is allowed there) may arrive only now
			ex.Frames = dropRetypedIDFrames(ex.Frames, st.ID)
		}
		if exp.Anything && st.Path == "/id" && (c.Mode == ModeStdio || c.Mode == ModeLegacy) {
			lateLenient = true
		}
		if f := classifyC03(c.Mode, c.Reg, st, JudgeC03(c.Mode, c.Reg, st, ex)); f != nil {
			return f
		}
	}
	return nil
}

func ntC03(c C03Case) (bool, []string) {
	nt := c.Path != ""
	labels := []string{"mode=" + c.Mode.String()}
	for _, st := range c.Steps {
		labels = append(labels, "mut="+st.Mut, "method="+st.Method)
		if st.Mut != "none" {
			nt = true
		}
		if ts := findTool(c.Reg, st.Target); ts != nil && st.Method == "tools/call" {
			labels = append(labels, fmt.Sprintf("outcome=%d", ts.Outcome))
			if ts.Outcome != OutOK {
				nt = true
			}
		}
	}
	return nt, labels
}

func TestC03(t *testing.T) {
	RunProp(t, Prop[C03Case]{ID: "C03", Gen: genC03, Exec: execC03, NT: ntC03})
}

// latticeCases enumerates method x field x {remove, retype to each other JSON type, duplicate,
// unknown key} x mode completely (a finite space; both tiers walk all of it).
func latticeCases() []C03Case {
	reg := RegSpec{
		Tools:     []ToolSpec{{Name: "alpha", Desc: "d", Outcome: OutOK}, {Name: "beta", Outcome: OutGoErr, ErrMsg: "boom-beta"}},
		Prompts:   []PromptSpec{{Name: "alpha", Desc: "p", Args: []string{"nonce"}}},
		Resources: []ResSpec{{URI: "file:///a.txt", Name: "r0", Mime: "text/plain"}},
	}
	var out []C03Case
	for m := Mode(0); m < NumModes; m++ {
		for _, method := range methodsFor(m) {
			target := ""
			switch method {
			case "tools/call", "prompts/get", "completion/complete":
				target = "alpha"
			case "resources/read", "resources/subscribe", "resources/unsubscribe":
				target = "file:///a.txt"
			}
			for _, id := range []*OJ{oInt(41), oStr("s-41")} {
				for _, st := range AllMutants(method, id, target, "nn") {
					out = append(out, C03Case{Mode: m, Reg: reg, Steps: []ReqStep{st}})
				}
			}
		}
	}
	return out
}

func TestC03Lattice(t *testing.T) {
	RunEnum(t, "C03", latticeCases(), execC03, ntC03)
}

// dropRetypedIDFrames removes frames whose id is neither a string nor an integer (and is not the current message's id).
func dropRetypedIDFrames(frames [][]byte, curID string) [][]byte {
	var out [][]byte
	for _, raw := range frames {
		var m struct {
			ID json.RawMessage `json:"id"`
		}
		if json.Unmarshal(raw, &m) == nil && len(m.ID) > 0 && string(m.ID) != curID {
			if c := m.ID[0]; c != '"' && c != '-' && (c < '0' || c > '9') {
				continue
			}
		}
		out = append(out, raw)
	}
	return out
}
