package harness

import (
	"context"
	"encoding/json"
	"fmt"
	"reflect"
	"sort"
	"strings"
	"testing"
	"time"

	"pgregory.net/rapid"
	mcp "trpc.group/trpc-go/trpc-mcp-go"
)

// C18: generated schemas describe what encoding/json really produces and accepts.

type C18Type struct {
	K      string   `json:"k"`
	Elem   *C18Type `json:"e,omitempty"`
	N      int      `json:"n,omitempty"`
	Struct int      `json:"s,omitempty"`
}

type C18Field struct {
	T          C18Type `json:"t"`
	JSONName   string  `json:"json,omitempty"` // "" = no name in the tag
	NoTag      bool    `json:"notag,omitempty"`
	Omit       bool    `json:"omit,omitempty"`
	Str        bool    `json:"str,omitempty"`
	Dash       bool    `json:"dash,omitempty"`
	Schema     string  `json:"schema,omitempty"` // jsonschema tag
	Embedded   bool    `json:"emb,omitempty"`
	Unexported bool    `json:"unexp,omitempty"`
}

type C18Case struct {
	Structs [][]C18Field `json:"structs"` // struct i may only use structs j < i
	Style   int          `json:"style"`   // 0 inline, 1 $defs, 2 nested $ref
	Seed    int          `json:"seed"`
}

var c18Prims = []string{"bool", "string", "int", "int8", "int16", "int32", "int64", "uint", "uint8", "uint16", "uint32", "uint64", "float32", "float64", "duration"}

var c18PrimTypes = map[string]reflect.Type{
	"bool": reflect.TypeOf(false), "string": reflect.TypeOf(""), "int": reflect.TypeOf(int(0)), "int8": reflect.TypeOf(int8(0)), "int16": reflect.TypeOf(int16(0)),
	"int32": reflect.TypeOf(int32(0)), "int64": reflect.TypeOf(int64(0)), "uint": reflect.TypeOf(uint(0)), "uint8": reflect.TypeOf(uint8(0)), "uint16": reflect.TypeOf(uint16(0)),
	"uint32": reflect.TypeOf(uint32(0)), "uint64": reflect.TypeOf(uint64(0)), "float32": reflect.TypeOf(float32(0)), "float64": reflect.TypeOf(float64(0)),
	"duration": reflect.TypeOf(time.Duration(0)), "time": reflect.TypeOf(time.Time{}), "iface": reflect.TypeOf((*interface{})(nil)).Elem(), "bytes": reflect.TypeOf([]byte(nil)),
}

func c18Allowed(class string) bool {
	if Excluded("C18/" + class + "/*") {
		CountExcluded("C18/" + class + "/*")
		return false
	}
	return true
}

func genC18Type(t *rapid.T, nStructs, depth int) C18Type {
	choices := []string{"prim", "prim", "prim", "slice", "map", "ptr"}
	if depth < 2 {
		choices = append(choices, "array", "mapint", "slice", "ptr")
	}
	if nStructs > 0 {
		choices = append(choices, "struct", "struct", "struct")
	}
	for _, special := range []string{"bytes", "iface", "time"} {
		choices = append(choices, special)
	}
	switch k := rapid.SampledFrom(choices).Draw(t, "kind"); k {
	case "prim":
		return C18Type{K: rapid.SampledFrom(c18Prims).Draw(t, "prim")}
	case "bytes", "iface", "time":
		if !c18Allowed(k) {
			return C18Type{K: "string"}
		}
		return C18Type{K: k}
	case "struct":
		return C18Type{K: "struct", Struct: rapid.IntRange(0, nStructs-1).Draw(t, "sidx")}
	case "array":
		e := genC18Type(t, nStructs, depth+1)
		return C18Type{K: "array", Elem: &e, N: rapid.IntRange(1, 3).Draw(t, "alen")}
	default:
		e := genC18Type(t, nStructs, depth+1)
		if k == "slice" && e.K == "uint8" && !c18Allowed("bytes") {
			e.K = "uint16" // []uint8 is []byte
		}
		return C18Type{K: k, Elem: &e}
	}
}

var c18Names = []string{"name", "value", "Count", "x", "a_b", "a-b", "a.b", "a b", "camelCase", "ünï", "名", "$ref", "type", "properties", "items", "n1", "_", "q?", "k:v", "(p)", "[i]", "{o}", "a+b", "e=mc2", "at@", "p|q", "h#", "semi;colon", "ex!", "less<", "amp&"}
var c18SpecialNames = []string{"a/b", "~t", "a~1b", "p%q", "%41", "/", "x/y/z", "~0"}

func genC18(t *rapid.T) C18Case {
	c := C18Case{Style: rapid.IntRange(0, 2).Draw(t, "style"), Seed: rapid.IntRange(0, 1<<16).Draw(t, "seed")}
	ns := rapid.IntRange(1, 5).Draw(t, "nstructs")
	used := map[string]bool{}
	for si := 0; si < ns; si++ {
		nf := rapid.IntRange(1, 5).Draw(t, "nfields")
		var fields []C18Field
		embeddedSeen := map[int]bool{}
		for fi := 0; fi < nf; fi++ {
			f := C18Field{T: genC18Type(t, si, 0)}
			opt := rapid.IntRange(0, 19).Draw(t, "fopt")
			switch {
			case opt == 16:
				f.NoTag = true
			case opt == 17:
				f.Dash = true
			case opt == 18:
				f.Unexported = true
			case opt == 19 && si > 0:
				// an embedded struct (only flat ones, each type at most once per parent: no JSON name collisions)
				idx := rapid.IntRange(0, si-1).Draw(t, "embidx")
				flat := true
				for _, ef := range c.Structs[idx] {
					if ef.Embedded {
						flat = false
					}
				}
				if flat && !embeddedSeen[idx] && c18Allowed("embedded") {
					embeddedSeen[idx] = true
					f.Embedded = true
					f.T = C18Type{K: "struct", Struct: idx}
					if rapid.Bool().Draw(t, "embptr") {
						e := f.T
						f.T = C18Type{K: "ptr", Elem: &e}
					}
				}
			}
			if !f.NoTag && !f.Dash && !f.Embedded && !f.Unexported {
				pool := c18Names
				if rapid.IntRange(0, 5).Draw(t, "special") == 5 && c18Allowed("ref-escaping") {
					pool = c18SpecialNames
				}
				name := rapid.SampledFrom(pool).Draw(t, "jsonname")
				for used[name] {
					name += "_"
				}
				used[name] = true
				f.JSONName = name
				f.Omit = rapid.IntRange(0, 2).Draw(t, "omit") == 2
				if rapid.IntRange(0, 9).Draw(t, "str") == 9 && c18Allowed("string-option") {
					switch f.T.K {
					case "int", "int32", "int64", "uint", "uint64", "float64", "bool", "string":
						f.Str = true
					}
				}
				f.Schema = genC18SchemaTag(t, f.T)
			}
			fields = append(fields, f)
		}
		// a field of the embedding struct may carry the JSON name of a promoted field: encoding/json lets the shallower
		// one win, whatever the declaration order
		for _, f := range append([]C18Field(nil), fields...) {
			if !f.Embedded || !rapid.Bool().Draw(t, "shadow") {
				continue
			}
			idx := f.T.Struct
			if f.T.K == "ptr" {
				idx = f.T.Elem.Struct
			}
			for _, ef := range c.Structs[idx] {
				if ef.JSONName == "" || ef.Dash || ef.NoTag || ef.Unexported || ef.Embedded {
					continue
				}
				other := "string"
				if ef.T.K == "string" {
					other = "int"
				}
				fields = append(fields, C18Field{T: C18Type{K: other}, JSONName: ef.JSONName})
				break
			}
		}
		c.Structs = append(c.Structs, fields)
	}
	return c
}

func genC18SchemaTag(t *rapid.T, ty C18Type) string {
	if rapid.IntRange(0, 2).Draw(t, "hastag") != 2 {
		return ""
	}
	var parts []string
	if rapid.Bool().Draw(t, "req") {
		parts = append(parts, "required")
	}
	if rapid.Bool().Draw(t, "desc") {
		parts = append(parts, "description="+rapid.SampledFrom([]string{"plain", "with, commas, inside", "a = b", "ünï: colon"}).Draw(t, "desctext"))
	}
	switch ty.K {
	case "string":
		switch rapid.IntRange(0, 2).Draw(t, "sopt") {
		case 0:
			parts = append(parts, "enum=abc", "enum=b")
		case 1:
			parts = append(parts, "minLength=1", "maxLength=5")
		}
	case "int", "int8", "int16", "int32", "int64", "uint", "uint8", "uint16", "uint32", "uint64", "float32", "float64":
		if rapid.Bool().Draw(t, "bounds") {
			parts = append(parts, "minimum=0", "maximum=100")
		}
		if rapid.Bool().Draw(t, "default") {
			parts = append(parts, "default=5")
		}
	case "slice":
		if rapid.Bool().Draw(t, "items") {
			parts = append(parts, "minItems=1", "maxItems=3")
		}
		if rapid.IntRange(0, 3).Draw(t, "unique") == 3 {
			parts = append(parts, "uniqueItems")
		}
	}
	if rapid.IntRange(0, 5).Draw(t, "unknowndirective") == 0 {
		// keywords the tag parser does not know (other vocabularies, typos): they constrain nothing; the field is still a field
		parts = append(parts, rapid.SampledFrom([]string{"multipleOf=5", "readOnly=true", "nullable=false", "desciption=typo", "x-order=3", "format=email", "deprecated"}).Draw(t, "unknown"))
	}
	if len(parts) > 0 && strings.HasPrefix(parts[0], "description=") && len(parts) > 1 {
		// keep the description last when it contains commas so the library's directive splitter is exercised both ways
		if rapid.Bool().Draw(t, "desclast") {
			parts = append(parts[1:], parts[0])
		}
	}
	return strings.Join(parts, ",")
}

// features lists the generator classes a case uses (part of the failure key).
func (c C18Case) features() []string {
	set := map[string]bool{}
	var walkT func(t C18Type)
	walkT = func(t C18Type) {
		switch t.K {
		case "bytes", "iface", "time":
			set[t.K] = true
		case "slice":
			if t.Elem != nil && t.Elem.K == "uint8" {
				set["bytes"] = true
			}
		}
		if t.Elem != nil {
			walkT(*t.Elem)
		}
	}
	for _, s := range c.Structs {
		for _, f := range s {
			walkT(f.T)
			if f.Embedded {
				set["embedded"] = true
			}
			if f.Str {
				set["string-option"] = true
			}
			if strings.ContainsAny(f.JSONName, "/~%") {
				set["ref-escaping"] = true
			}
		}
	}
	out := sortedKeys(set)
	if len(out) == 0 {
		out = []string{"plain"}
	}
	return out
}

func ntC18(c C18Case) (bool, []string) {
	nt := false
	labels := []string{fmt.Sprintf("style=%d", c.Style)}
	for _, s := range c.Structs {
		for _, f := range s {
			if f.T.K == "struct" || f.T.Elem != nil || f.Embedded || f.Omit || f.Str || f.Schema != "" || f.T.K == "bytes" || f.T.K == "iface" || f.T.K == "time" || f.T.K == "duration" {
				nt = true
			}
			labels = append(labels, "k="+f.T.K)
		}
	}
	for _, f := range c.features() {
		labels = append(labels, "feature="+f)
	}
	return nt, labels
}

// buildTypes realises the structs with reflect.StructOf.
func (c C18Case) buildTypes() (types []reflect.Type, err error) {
	defer func() {
		if r := recover(); r != nil {
			err = fmt.Errorf("reflect.StructOf: %v", r)
		}
	}()
	var rt func(t C18Type) reflect.Type
	rt = func(t C18Type) reflect.Type {
		switch t.K {
		case "struct":
			return types[t.Struct]
		case "slice":
			return reflect.SliceOf(rt(*t.Elem))
		case "array":
			return reflect.ArrayOf(t.N, rt(*t.Elem))
		case "map":
			return reflect.MapOf(reflect.TypeOf(""), rt(*t.Elem))
		case "mapint":
			return reflect.MapOf(reflect.TypeOf(int(0)), rt(*t.Elem))
		case "ptr":
			return reflect.PtrTo(rt(*t.Elem))
		}
		return c18PrimTypes[t.K]
	}
	for si, s := range c.Structs {
		var sf []reflect.StructField
		for fi, f := range s {
			fld := reflect.StructField{Name: fmt.Sprintf("F%d_%d", si, fi), Type: rt(f.T)}
			switch {
			case f.Unexported:
				fld.Name = fmt.Sprintf("f%d_%d", si, fi)
				fld.PkgPath = "verifharness"
			case f.Embedded:
				fld.Anonymous = true
			case f.Dash:
				fld.Tag = `json:"-"`
			case f.NoTag:
			default:
				tag := f.JSONName
				if f.Omit {
					tag += ",omitempty"
				}
				if f.Str {
					tag += ",string"
				}
				fld.Tag = reflect.StructTag(fmt.Sprintf(`json:%q`, tag))
				if f.Schema != "" {
					fld.Tag += reflect.StructTag(fmt.Sprintf(` jsonschema:%q`, f.Schema))
				}
			}
			sf = append(sf, fld)
		}
		types = append(types, reflect.StructOf(sf))
	}
	return types, nil
}

// populate builds a fully populated value of t (non-nil pointers, non-empty containers, primitives inside the tag constraints).
func populate(t reflect.Type, schemaTag string, seed *int, depth int) reflect.Value {
	*seed = (*seed*1103515245 + 12345) & 0x7fffffff
	s := *seed
	v := reflect.New(t).Elem()
	switch t {
	case c18PrimTypes["time"]:
		v.Set(reflect.ValueOf(time.Date(2024, 1+time.Month(s%12), 1+s%28, s%24, s%60, 0, 0, time.UTC)))
		return v
	case c18PrimTypes["bytes"]:
		v.SetBytes([]byte{byte(s), byte(s >> 8), 0xff})
		return v
	}
	switch t.Kind() {
	case reflect.Bool:
		v.SetBool(true)
	case reflect.String:
		switch {
		case strings.Contains(schemaTag, "enum="):
			v.SetString("abc")
		case strings.Contains(schemaTag, "maxLength="):
			v.SetString("abc")
		default:
			v.SetString(fmt.Sprintf("s%d-é\n", s%1000))
		}
	case reflect.Int, reflect.Int8, reflect.Int16, reflect.Int32, reflect.Int64:
		bits := uint(t.Bits())
		switch {
		case strings.Contains(schemaTag, "imum=") || strings.Contains(schemaTag, "multipleOf") || strings.Contains(schemaTag, "enum="):
			v.SetInt(int64(1 + s%100))
		case s%5 == 1:
			v.SetInt(int64(1)<<(bits-1) - 1) // the type's largest value
		case s%5 == 2:
			v.SetInt(-(int64(1) << (bits - 1))) // its smallest
		case s%5 == 3:
			v.SetInt(-int64(1 + s%100))
		default:
			v.SetInt(int64(1 + s%100))
		}
	case reflect.Uint, reflect.Uint8, reflect.Uint16, reflect.Uint32, reflect.Uint64:
		bits := uint(t.Bits())
		switch {
		case strings.Contains(schemaTag, "imum=") || strings.Contains(schemaTag, "multipleOf") || strings.Contains(schemaTag, "enum="):
			v.SetUint(uint64(1 + s%100))
		case s%5 == 1:
			v.SetUint(^uint64(0) >> (64 - bits)) // the type's largest value
		case s%5 == 2:
			v.SetUint(uint64(1)<<(bits-1) + uint64(s%100)) // in the upper half of its range
		default:
			v.SetUint(uint64(1 + s%100)) // never zero: the field-name oracle wants every omitempty field emitted
		}
	case reflect.Float32, reflect.Float64:
		v.SetFloat(float64(1+s%100) / 2)
	case reflect.Slice:
		n := 2
		if strings.Contains(schemaTag, "uniqueItems") {
			n = 1
		}
		sl := reflect.MakeSlice(t, n, n)
		for i := 0; i < n; i++ {
			sl.Index(i).Set(populate(t.Elem(), "", seed, depth+1))
		}
		v.Set(sl)
	case reflect.Array:
		for i := 0; i < t.Len(); i++ {
			v.Index(i).Set(populate(t.Elem(), "", seed, depth+1))
		}
	case reflect.Map:
		m := reflect.MakeMap(t)
		k := reflect.New(t.Key()).Elem()
		if t.Key().Kind() == reflect.String {
			k.SetString(fmt.Sprintf("key/%d~", s%10))
		} else {
			k.SetInt(int64(s % 10))
		}
		m.SetMapIndex(k, populate(t.Elem(), "", seed, depth+1))
		v.Set(m)
	case reflect.Ptr:
		p := reflect.New(t.Elem())
		p.Elem().Set(populate(t.Elem(), schemaTag, seed, depth+1))
		v.Set(p)
	case reflect.Interface:
		var x interface{}
		switch s % 5 {
		case 0:
			x = "text"
		case 1:
			x = 12.5
		case 2:
			x = map[string]interface{}{"k": "v"}
		case 3:
			x = []interface{}{1.0, "two"}
		default:
			x = true
		}
		v.Set(reflect.ValueOf(x))
	case reflect.Struct:
		for i := 0; i < t.NumField(); i++ {
			f := t.Field(i)
			if !f.IsExported() {
				continue
			}
			v.Field(i).Set(populate(f.Type, f.Tag.Get("jsonschema"), seed, depth+1))
		}
	}
	return v
}

// schemaNode resolves $ref / anyOf-with-null wrappers.
func schemaNode(doc *SchemaDoc, n interface{}, hops int) (map[string]interface{}, error) {
	m, ok := n.(map[string]interface{})
	if !ok {
		return nil, fmt.Errorf("schema node is %T", n)
	}
	if hops > 50 {
		return nil, fmt.Errorf("$ref chain does not terminate")
	}
	if ref, ok := m["$ref"].(string); ok {
		t, err := doc.ResolvePointer(ref)
		if err != nil {
			return nil, err
		}
		return schemaNode(doc, t, hops+1)
	}
	if any, ok := m["anyOf"].([]interface{}); ok && m["properties"] == nil {
		for _, br := range any {
			if bm, ok := br.(map[string]interface{}); ok && bm["type"] != "null" {
				return schemaNode(doc, bm, hops+1)
			}
		}
	}
	return m, nil
}

// compareKeySets walks value and schema in parallel: wherever the schema lists properties,
// they must be exactly the keys encoding/json emitted.
func compareKeySets(doc *SchemaDoc, val interface{}, node interface{}, path string, depth int, exact bool) error {
	if depth > 40 {
		return nil
	}
	sn, err := schemaNode(doc, node, 0)
	if err != nil {
		return fmt.Errorf("%s: %v", path, err)
	}
	switch v := val.(type) {
	case map[string]interface{}:
		props, hasProps := sn["properties"].(map[string]interface{})
		if hasProps {
			got := sortedKeys(props)
			want := sortedKeys(v)
			if exact {
				if strings.Join(got, "\x00") != strings.Join(want, "\x00") {
					return fmt.Errorf("%s: schema names properties %q, encoding/json emits %q", path, got, want)
				}
			} else {
				for _, k := range want {
					if _, ok := props[k]; !ok {
						return fmt.Errorf("%s: encoding/json emits %q, which the schema (properties %q) does not name", path, k, got)
					}
				}
			}
			for _, k := range want {
				if err := compareKeySets(doc, v[k], props[k], path+"."+k, depth+1, exact); err != nil {
					return err
				}
			}
			return nil
		}
		if ap, ok := sn["additionalProperties"].(map[string]interface{}); ok {
			for _, k := range sortedKeys(v) {
				if err := compareKeySets(doc, v[k], ap, path+"{"+k+"}", depth+1, exact); err != nil {
					return err
				}
			}
		}
	case []interface{}:
		if it, ok := sn["items"]; ok {
			for i, e := range v {
				if err := compareKeySets(doc, e, it, fmt.Sprintf("%s[%d]", path, i), depth+1, exact); err != nil {
					return err
				}
			}
		}
	}
	return nil
}

// checkSchemaFor runs the four C18 oracles for one type / style / value.
func checkSchemaFor(t reflect.Type, style int, val reflect.Value, keyPrefix string, exact bool) *Failure {
	type res struct {
		b   []byte
		err error
		pan interface{}
	}
	ch := make(chan res, 1)
	go func() {
		defer func() {
			if r := recover(); r != nil {
				ch <- res{pan: r}
			}
		}()
		s := mcp.VerifSchemaForType(t, style)
		b, err := json.Marshal(s)
		ch <- res{b: b, err: err}
	}()
	var r res
	select {
	case r = <-ch:
	case <-time.After(20 * time.Second):
		return TimingFailf(keyPrefix+"/no-termination", "schema generation for %v (style %d) did not terminate within 20s", t, style)
	}
	if r.pan != nil {
		return Failf(keyPrefix+"/panic", "schema generation for %v (style %d) panicked: %v", t, style, r.pan)
	}
	if r.err != nil {
		return Failf(keyPrefix+"/not-json", "schema for %v (style %d) cannot be encoded: %v", t, style, r.err)
	}
	doc, err := ParseSchema(r.b)
	if err != nil {
		return Failf(keyPrefix+"/not-json", "schema for %v is not JSON: %v", t, err)
	}
	for _, ref := range doc.AllRefs() {
		if _, err := doc.ResolvePointer(ref); err != nil {
			return Failf(keyPrefix+"/dangling-ref", "style %d type %v: %v\nschema: %.1500s", style, t, err, r.b)
		}
	}
	vb, err := json.Marshal(val.Interface())
	if err != nil {
		return nil // not encodable: outside the statement
	}
	inst, _ := DecodeJSON(vb)
	if err := compareKeySets(doc, inst, doc.Root, "$", 0, exact); err != nil {
		return Failf(keyPrefix+"/field-names", "style %d type %v: %v\nvalue:  %.600s\nschema: %.1500s", style, t, err, vb, r.b)
	}
	if err := doc.Validate(inst); err != nil {
		if style == 0 && strings.Contains(string(r.b), "epth limit") && strings.Count(err.Error(), ".") >= 5 {
			// the inline style cuts recursion off after a fixed depth and describes everything below as "type: object"
			keyPrefix = "C18/inline-depth-limit"
		}
		return Failf(keyPrefix+"/instance-rejected", "style %d type %v: the schema rejects the JSON encoding of a fully populated value: %v\nvalue:  %.600s\nschema: %.1500s", style, t, err, vb, r.b)
	}
	return nil
}

func execC18(c C18Case) *Failure {
	types, err := c.buildTypes()
	if err != nil {
		Inconclusive()
		return nil // the generator produced something reflect cannot build: not a library matter
	}
	root := types[len(types)-1]
	seed := c.Seed
	val := populate(root, "", &seed, 0)
	prefix := "C18/" + strings.Join(c.features(), "+")
	if f := checkSchemaFor(root, c.Style, val, prefix, true); f != nil {
		return f
	}
	return nil
}

func TestC18(t *testing.T) {
	RunProp(t, Prop[C18Case]{ID: "C18", Gen: genC18, Exec: execC18, NT: ntC18})
}

// ---------------------------------------------------------------------------
// corpus of recursive compile-time types

type recList struct {
	V    int      `json:"v"`
	Next *recList `json:"next,omitempty"`
}
type recTree struct {
	Name string    `json:"name"`
	Kids []recTree `json:"kids,omitempty"`
}
type recMap struct {
	Label string            `json:"label"`
	M     map[string]recMap `json:"m,omitempty"`
}
type mutA struct {
	ID int   `json:"id"`
	B  *mutB `json:"b,omitempty"`
}
type mutB struct {
	As []mutA `json:"as,omitempty"`
	X  string `json:"x"`
}
type recPtrSlice struct {
	Kids []*recPtrSlice `json:"kids,omitempty"`
	N    float64        `json:"n"`
}
type sharedLeaf struct {
	P int    `json:"p"`
	Q string `json:"q"`
}
type deepL3 struct {
	Shared sharedLeaf `json:"shared"`
	Sib    int        `json:"sib"`
	Sib2   string     `json:"sib2"`
}
type deepL2 struct {
	L3  deepL3 `json:"l3"`
	Tag string `json:"tag"`
}
type deepL1 struct {
	L2 deepL2 `json:"l2"`
}
type deepRoot struct {
	L1    deepL1       `json:"l1"`
	Again sharedLeaf   `json:"again"`
	More  []sharedLeaf `json:"more"`
	Opt   *sharedLeaf  `json:"opt,omitempty"`
}
type recViaOmitPtr struct {
	Self  *recViaOmitPtr            `json:"self,omitempty"`
	Other map[string]*recViaOmitPtr `json:"other,omitempty"`
	Leaf  sharedLeaf                `json:"leaf"`
}

type ptrA struct {
	N int   `json:"n"`
	B *ptrB `json:"b,omitempty"`
}
type ptrB struct {
	S string `json:"s"`
	A *ptrA  `json:"a,omitempty"`
}
type tri1 struct {
	Next *tri2 `json:"next,omitempty"`
	V    int   `json:"v"`
}
type tri2 struct {
	Next *tri3  `json:"next,omitempty"`
	W    string `json:"w"`
}
type tri3 struct {
	Next *tri1   `json:"next,omitempty"`
	X    float64 `json:"x"`
}
type selfTwice struct {
	L *selfTwice `json:"l,omitempty"`
	R *selfTwice `json:"r,omitempty"`
	K string     `json:"k"`
}
type mapPtrA struct {
	M map[string]*mapPtrB `json:"m,omitempty"`
	I int                 `json:"i"`
}
type mapPtrB struct {
	A    *mapPtrA   `json:"a,omitempty"`
	Leaf sharedLeaf `json:"leaf"`
}
type slicePtrA struct {
	Bs []*slicePtrB `json:"bs,omitempty"`
	T  string       `json:"t"`
}
type slicePtrB struct {
	A *slicePtrA `json:"a,omitempty"`
	U int        `json:"u"`
}
type twoCycles struct {
	List *recList   `json:"list,omitempty"`
	Pair *ptrA      `json:"pair,omitempty"`
	Me   *twoCycles `json:"me,omitempty"`
	Z    int        `json:"z"`
}

type C18CorpusCase struct {
	Type  int `json:"type"`
	Style int `json:"style"`
	Depth int `json:"depth"`
}

var c18Corpus = []reflect.Type{
	reflect.TypeOf(recList{}), reflect.TypeOf(recTree{}), reflect.TypeOf(recMap{}), reflect.TypeOf(mutA{}), reflect.TypeOf(mutB{}),
	reflect.TypeOf(recPtrSlice{}), reflect.TypeOf(deepRoot{}), reflect.TypeOf(recViaOmitPtr{}),
	reflect.TypeOf(ptrA{}), reflect.TypeOf(ptrB{}), reflect.TypeOf(tri1{}), reflect.TypeOf(tri3{}), reflect.TypeOf(selfTwice{}),
	reflect.TypeOf(mapPtrA{}), reflect.TypeOf(mapPtrB{}), reflect.TypeOf(slicePtrA{}), reflect.TypeOf(twoCycles{}),
}

// populateRec fills a recursive value down to the given depth; below it pointers stay nil and containers empty (all omitempty in the corpus).
func populateRec(t reflect.Type, depth int, seed *int) reflect.Value {
	*seed++
	v := reflect.New(t).Elem()
	switch t.Kind() {
	case reflect.String:
		v.SetString(fmt.Sprintf("s%d", *seed))
	case reflect.Int:
		v.SetInt(int64(*seed))
	case reflect.Float64:
		v.SetFloat(float64(*seed) / 4)
	case reflect.Ptr:
		if depth > 0 {
			p := reflect.New(t.Elem())
			p.Elem().Set(populateRec(t.Elem(), depth-1, seed))
			v.Set(p)
		}
	case reflect.Slice:
		if depth > 0 && !(t.Elem().Kind() == reflect.Ptr && depth == 1) {
			sl := reflect.MakeSlice(t, 2, 2)
			sl.Index(0).Set(populateRec(t.Elem(), depth-1, seed))
			sl.Index(1).Set(populateRec(t.Elem(), depth-1, seed))
			v.Set(sl)
		}
	case reflect.Map:
		if depth > 0 && !(t.Elem().Kind() == reflect.Ptr && depth == 1) {
			m := reflect.MakeMap(t)
			m.SetMapIndex(reflect.ValueOf(fmt.Sprintf("k%d", *seed)), populateRec(t.Elem(), depth-1, seed))
			v.Set(m)
		}
	case reflect.Struct:
		for i := 0; i < t.NumField(); i++ {
			f := t.Field(i)
			d := depth
			if !strings.Contains(f.Tag.Get("json"), "omitempty") && (f.Type.Kind() == reflect.Slice || f.Type.Kind() == reflect.Map || f.Type.Kind() == reflect.Ptr) && d == 0 {
				d = 1 // non-omitempty containers are always populated ("fully populated value")
			}
			v.Field(i).Set(populateRec(f.Type, d, seed))
		}
	}
	return v
}

func execC18Corpus(c C18CorpusCase) *Failure {
	t := c18Corpus[c.Type]
	seed := 0
	val := populateRec(t, c.Depth, &seed)
	if c.Depth < 1 {
		c.Depth = 1
	}
	if f := checkSchemaFor(t, c.Style, val, "C18/corpus/"+t.Name(), false); f != nil {
		return f
	}
	// the root's property names are exactly the type's JSON field names
	var want []string
	for i := 0; i < t.NumField(); i++ {
		name := strings.Split(t.Field(i).Tag.Get("json"), ",")[0]
		if name == "" {
			name = t.Field(i).Name
		}
		want = append(want, name)
	}
	sort.Strings(want)
	b, _ := json.Marshal(mcp.VerifSchemaForType(t, c.Style))
	doc, _ := ParseSchema(b)
	root, err := schemaNode(doc, doc.Root, 0)
	if err != nil {
		return Failf("C18/corpus/"+t.Name()+"/dangling-ref", "%v", err)
	}
	props, _ := root["properties"].(map[string]interface{})
	if got := sortedKeys(props); strings.Join(got, "\x00") != strings.Join(want, "\x00") {
		return Failf("C18/corpus/"+t.Name()+"/field-names", "style %d type %v: schema names %q, the type's JSON fields are %q", c.Style, t, got, want)
	}
	return nil
}

func TestC18Corpus(t *testing.T) {
	var cases []C18CorpusCase
	for ti := range c18Corpus {
		for style := 0; style < 3; style++ {
			for _, d := range []int{1, 2, 3, 5, 8} {
				if style == 0 && d > 3 && Excluded("C18/inline-depth-limit/*") {
					CountExcluded("C18/inline-depth-limit/*")
					continue
				}
				cases = append(cases, C18CorpusCase{Type: ti, Style: style, Depth: d})
			}
		}
	}
	RunEnum(t, "C18", cases, execC18Corpus, func(c C18CorpusCase) (bool, []string) {
		return true, []string{"corpus=" + c18Corpus[c.Type].Name(), fmt.Sprintf("style=%d", c.Style)}
	})
}

// ---------------------------------------------------------------------------
// typed binding and tools/list fidelity

type typedInner struct {
	Label string   `json:"label"`
	Tags  []string `json:"tags,omitempty"`
}
type typedInput struct {
	Query  string             `json:"query" jsonschema:"default=q0"`
	Limit  int                `json:"limit,omitempty" jsonschema:"default=25"`
	Big    int64              `json:"big,omitempty"`
	Ratio  float64            `json:"ratio,omitempty" jsonschema:"default=0.75"`
	Flag   *bool              `json:"flag,omitempty" jsonschema:"default=true"`
	Tags   []string           `json:"tags,omitempty"`
	Labels map[string]string  `json:"labels,omitempty"`
	Filter *typedInner        `json:"filter,omitempty" jsonschema:"description=an optional filter"`
	Nested typedInner         `json:"nested" jsonschema:"description=the nested one, again of the inner type"`
	Scores map[string]float64 `json:"scores,omitempty"`
	Matrix [][]int            `json:"matrix,omitempty"`
}
type typedOutput struct {
	Echo string `json:"echo"`
}

// typedFlat: scalars only, some of them with the ,string option (encoding/json then reads them from inside a JSON string)
type typedFlat struct {
	Label string  `json:"label,string"`
	Name  string  `json:"name"`
	Count int     `json:"count,string"`
	On    bool    `json:"on,omitempty"`
	Price float64 `json:"price"`
	ID    int64   `json:"id,string,omitempty"`
	Note  *string `json:"note,omitempty"`
}

type C18TypedCase struct {
	Mode  Mode     `json:"mode"`
	Calls []string `json:"calls"`          // the arguments object of each call, as JSON text
	Flat  bool     `json:"flat,omitempty"` // the tool's input is typedFlat
}

func genFlatArgs(t *rapid.T) string {
	m := map[string]interface{}{}
	if rapid.Bool().Draw(t, "label") {
		// the wire form of a ,string string field is the JSON encoding of the text, inside a JSON string
		b, _ := json.Marshal(rapid.SampledFrom([]string{"abc", "", "with \"quotes\"", "ünï"}).Draw(t, "lab"))
		m["label"] = string(b)
	}
	if rapid.Bool().Draw(t, "name") {
		m["name"] = rapid.SampledFrom([]string{"n", "", "\"quoted\""}).Draw(t, "nm")
	}
	if rapid.IntRange(0, 2).Draw(t, "count") == 0 {
		m["count"] = fmt.Sprint(rapid.SampledFrom([]int{0, 7, -3}).Draw(t, "cnt"))
	}
	if rapid.Bool().Draw(t, "on") {
		m["on"] = rapid.Bool().Draw(t, "onv")
	}
	if rapid.Bool().Draw(t, "price") {
		m["price"] = rapid.SampledFrom([]float64{0.5, 3, -1e9}).Draw(t, "pr")
	}
	if rapid.IntRange(0, 3).Draw(t, "id") == 0 {
		m["id"] = fmt.Sprint(rapid.SampledFrom([]int64{1, 1 << 60}).Draw(t, "idv"))
	}
	if rapid.IntRange(0, 3).Draw(t, "note") == 0 {
		m["note"] = "a note"
	}
	b, _ := json.Marshal(m)
	return string(b)
}

func genTypedArgs(t *rapid.T) string {
	m := map[string]interface{}{}
	if rapid.Bool().Draw(t, "query") {
		m["query"] = rapid.SampledFrom([]string{"q", "", "ünï", "second"}).Draw(t, "q")
	}
	if rapid.Bool().Draw(t, "limit") {
		m["limit"] = rapid.SampledFrom([]int{0, 1, 25, -7}).Draw(t, "l")
	}
	if rapid.Bool().Draw(t, "big") {
		m["big"] = rapid.SampledFrom([]int64{1<<53 - 1, -(1 << 53), 1 << 40, 9007199254740992}).Draw(t, "b")
	}
	if rapid.Bool().Draw(t, "ratio") {
		m["ratio"] = rapid.SampledFrom([]float64{0.5, -1e10, 3}).Draw(t, "r")
	}
	if rapid.Bool().Draw(t, "flag") {
		m["flag"] = rapid.Bool().Draw(t, "f")
	}
	if rapid.Bool().Draw(t, "tags") {
		m["tags"] = rapid.SliceOfN(rapid.SampledFrom([]string{"a", "b", "c"}), 0, 3).Draw(t, "tg")
	}
	if rapid.Bool().Draw(t, "labels") {
		m["labels"] = map[string]string{rapid.SampledFrom([]string{"k1", "k2", "k3"}).Draw(t, "lk"): "v"}
	}
	if rapid.Bool().Draw(t, "filter") {
		f := map[string]interface{}{}
		if rapid.Bool().Draw(t, "flabel") {
			f["label"] = "L"
		}
		if rapid.Bool().Draw(t, "ftags") {
			f["tags"] = []string{"t"}
		}
		m["filter"] = f
	}
	if rapid.Bool().Draw(t, "nested") {
		m["nested"] = map[string]interface{}{"label": rapid.SampledFrom([]string{"n1", "n2"}).Draw(t, "nl")}
	}
	if rapid.Bool().Draw(t, "scores") {
		m["scores"] = map[string]float64{rapid.SampledFrom([]string{"s1", "s2"}).Draw(t, "sk"): 1.5}
	}
	if rapid.Bool().Draw(t, "matrix") {
		m["matrix"] = [][]int{{1, 2}, {3}}
	}
	b, _ := json.Marshal(m)
	return string(b)
}

func genC18Typed(t *rapid.T) C18TypedCase {
	c := C18TypedCase{Mode: Mode(rapid.SampledFrom([]int{0, 1, 2, 5, 6}).Draw(t, "mode"))}
	c.Flat = rapid.IntRange(0, 2).Draw(t, "flat") == 0
	n := rapid.IntRange(1, 5).Draw(t, "ncalls")
	for i := 0; i < n; i++ {
		if c.Flat {
			c.Calls = append(c.Calls, genFlatArgs(t))
		} else {
			c.Calls = append(c.Calls, genTypedArgs(t))
		}
	}
	return c
}

func execC18Typed(c C18TypedCase) *Failure {
	if c.Flat {
		return execTyped[typedFlat](c)
	}
	return execTyped[typedInput](c)
}

func execTyped[T any](c C18TypedCase) *Failure {
	w := NewWorld(c.Mode, RegSpec{}, WorldOpt{})
	defer w.Close()
	var got []T
	handler := mcp.NewTypedToolHandler(func(ctx context.Context, req *mcp.CallToolRequest, in T) (typedOutput, error) {
		got = append(got, in)
		return typedOutput{Echo: "e"}, nil
	})
	var srv interface{}
	switch {
	case w.Srv != nil:
		srv = w.Srv
	case w.SSE != nil:
		srv = w.SSE
	default:
		srv = w.Stdio
	}
	tool := mcp.NewTool("typed", mcp.WithInputStruct[T](), mcp.WithOutputStruct[typedOutput]())
	RegistrarOf(srv).RegisterTool(tool, handler)
	conn, err := w.Connect()
	if err != nil {
		return Failf("C18/typed/connect", "%v", err)
	}
	defer conn.Close()
	for i, args := range c.Calls {
		id := fmt.Sprintf("%d", i+1)
		before := len(got)
		ex := conn.Send([]byte(fmt.Sprintf(`{"jsonrpc":"2.0","id":%s,"method":"tools/call","params":{"name":"typed","arguments":%s}}`, id, args)), id, Bound()*4)
		if len(ex.Frames) != 1 || len(got) != before+1 {
			return TimingFailf("C18/typed/no-call", "%s call %d with %s: frames %d, handler ran %d times", c.Mode, i, args, len(ex.Frames), len(got)-before)
		}
		var want T
		if err := json.Unmarshal([]byte(args), &want); err != nil {
			continue
		}
		if !reflect.DeepEqual(got[before], want) {
			gb, _ := json.Marshal(got[before])
			wb, _ := json.Marshal(want)
			return Failf("C18/typed/binding", "%s call %d: arguments %s were bound as %s, a fresh decode gives %s (earlier calls: %v)", c.Mode, i, args, gb, wb, c.Calls[:i])
		}
	}
	// tools/list: the schema on the wire is the registered one
	ex := conn.Send([]byte(`{"jsonrpc":"2.0","id":"l","method":"tools/list"}`), `"l"`, Bound()*4)
	if len(ex.Frames) == 1 {
		var m struct {
			Result struct {
				Tools []struct {
					InputSchema  json.RawMessage `json:"inputSchema"`
					OutputSchema json.RawMessage `json:"outputSchema"`
				} `json:"tools"`
			} `json:"result"`
		}
		json.Unmarshal(ex.Frames[0], &m)
		if len(m.Result.Tools) == 1 {
			for _, pair := range [][2]interface{}{{m.Result.Tools[0].InputSchema, tool.InputSchema}, {m.Result.Tools[0].OutputSchema, tool.OutputSchema}} {
				wire, _ := DecodeJSON(pair[0].(json.RawMessage))
				rb, _ := json.Marshal(pair[1])
				regd, _ := DecodeJSON(rb)
				if !jsonEqual(wire, regd) {
					return Failf("C18/typed/list-schema", "%s: tools/list carries schema %s, registered %s", c.Mode, pair[0], rb)
				}
			}
		}
	}
	return nil
}

func TestC18Typed(t *testing.T) {
	RunProp(t, Prop[C18TypedCase]{ID: "C18", Gen: genC18Typed, Exec: execC18Typed,
		NT: func(c C18TypedCase) (bool, []string) { return len(c.Calls) >= 2, []string{"mode=" + c.Mode.String()} }})
}

var _ = sort.Strings
