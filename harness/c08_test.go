package harness

import (
	"context"
	"errors"
	"fmt"
	"io"
	"net"
	"net/http"
	"os"
	"path/filepath"
	"strconv"
	"strings"
	"sync"
	"sync/atomic"
	"syscall"
	"testing"
	"time"

	"pgregory.net/rapid"
	mcp "trpc.group/trpc-go/trpc-mcp-go"
)

// C08: every client call ends when its connection or context ends; nothing leaks.

type C08Case struct {
	Client  string `json:"client"`           // streamable-json streamable-sse legacy stdio
	Fault   string `json:"fault"`            // none refuse close reset truncate stall exit0 exit3 kill9 http404 http500 http503 (the hit call is answered with that status and a body) noendpoint (legacy: the stream never announces its endpoint)
	CutPct  int    `json:"cutpct"`           // where inside the response the fault lands: 0..100 (% of its bytes); -1 = before any byte (transport level)
	Pending int    `json:"pending"`          // calls pending when the fault lands
	Ctx     string `json:"ctx"`              // none cancel deadline
	Helper  bool   `json:"helper,omitempty"` // stdio: the server process has a helper of its own that inherits its stdout / stderr and outlives it
	Retry   bool   `json:"retry,omitempty"`  // HTTP clients: created WithRetry (30 s backoff): the pending call is between two attempts when its context ends
	Target  string `json:"target"`           // which exchange is hit: call (a tools/call answer) or stream (the legacy event stream / streamable listening stream itself)
}

var c08Faults = map[string][]string{
	"streamable-json": {"none", "refuse", "close", "reset", "truncate", "stall", "http404", "http500", "http503"},
	"streamable-sse":  {"none", "refuse", "close", "reset", "truncate", "stall", "http404", "http500", "http503"},
	"legacy":          {"none", "refuse", "close", "reset", "truncate", "stall", "http404", "http500", "noendpoint", "stallposts"},
	"stdio":           {"none", "close", "stall", "exit0", "exit3", "kill9"},
}

func genC08(t *rapid.T) C08Case {
	c := C08Case{Client: rapid.SampledFrom([]string{"streamable-json", "streamable-sse", "legacy", "stdio"}).Draw(t, "client")}
	c.Fault = rapid.SampledFrom(c08Faults[c.Client]).Draw(t, "fault")
	c.CutPct = rapid.SampledFrom([]int{-1, 0, 1, 10, 50, 90, 99, 100}).Draw(t, "cut")
	if rapid.IntRange(0, 2).Draw(t, "randcut") == 0 {
		c.CutPct = rapid.IntRange(0, 100).Draw(t, "cutpct")
	}
	c.Pending = rapid.IntRange(1, 8).Draw(t, "pending")
	c.Ctx = rapid.SampledFrom([]string{"none", "none", "cancel", "deadline"}).Draw(t, "ctx")
	if (c.Fault == "stall" || c.Fault == "stallposts") && c.Ctx == "none" {
		c.Ctx = "deadline" // a stall is only required to end when the caller set a limit
	}
	if c.Client == "stdio" && (c.Fault == "kill9" || c.Fault == "exit0" || c.Fault == "exit3") {
		c.Helper = rapid.Bool().Draw(t, "helper")
	}
	if c.Client != "stdio" && (c.Fault == "close" || c.Fault == "reset" || c.Fault == "refuse" || c.Fault == "http503" || c.Fault == "http500") && rapid.IntRange(0, 2).Draw(t, "retry") == 0 {
		c.Retry = true
		if c.Ctx == "none" {
			c.Ctx = rapid.SampledFrom([]string{"cancel", "deadline"}).Draw(t, "retryctx")
		}
	}
	return c
}

func c08Enumerated() []C08Case {
	var out []C08Case
	for _, cl := range []string{"streamable-json", "streamable-sse", "legacy", "stdio"} {
		for _, f := range c08Faults[cl] {
			for _, cut := range []int{-1, 0, 1, 50, 99, 100} {
				for _, cx := range []string{"none", "cancel", "deadline"} {
					if (f == "stall" || f == "stallposts") && cx == "none" {
						continue
					}
					if f == "none" && cut != 100 {
						continue
					}
					if f == "refuse" && cut != -1 {
						continue
					}
					if (strings.HasPrefix(f, "http") || f == "noendpoint" || f == "stallposts") && cut != 100 {
						continue
					}
					for _, p := range []int{1, 3} {
						out = append(out, C08Case{Client: cl, Fault: f, CutPct: cut, Pending: p, Ctx: cx})
					}
					if cl == "stdio" && (f == "kill9" || f == "exit0") && cut == 50 {
						out = append(out, C08Case{Client: cl, Fault: f, CutPct: cut, Pending: 2, Ctx: cx, Helper: true})
					}
				}
			}
		}
	}
	return out
}

func ntC08(c C08Case) (bool, []string) {
	inside := c.Fault != "none" && c.CutPct > 0 && c.CutPct < 100
	return inside || (c.Fault != "none" && c.Ctx != "none"), []string{"client=" + c.Client, "fault=" + c.Fault, "ctx=" + c.Ctx}
}

func c08Excluded(c C08Case) bool {
	if c.Client == "streamable-sse" && Excluded("C08/post-sse-body-not-closed") {
		// the class is about every POST answered as an event stream: keep it out by serving that client JSON answers
		return true
	}
	return false
}

func execC08(c C08Case) *Failure {
	if strings.HasPrefix(c.Fault, "http") || c.Fault == "noendpoint" || c.Fault == "stallposts" {
		// these faults have no position inside an answer (the enumeration lists them once, at 100): without this a cut of -1
		// ("before the request reaches the server") would silently turn them into a refused connection
		c.CutPct = 100
	}
	if c08Excluded(c) {
		CountExcluded("C08/post-sse-body-not-closed")
		c.Client = "streamable-json"
	}
	where := fmt.Sprintf("%s fault=%s at %d%% pending=%d ctx=%s retry=%v helper=%v", c.Client, c.Fault, c.CutPct, c.Pending, c.Ctx, c.Retry, c.Helper)
	goBefore := LibGoroutines()
	fdBefore := FDCount()
	var armed atomic.Bool
	var hit atomic.Int64
	validLen := len(RenderAnswer(FakeAction{}, "tools/call", []byte("12"), []byte(`{"arguments":{"a":1}}`)))
	cutOf := func(total int) int {
		if c.CutPct < 0 {
			return 0
		}
		return total * c.CutPct / 100
	}
	var cl mcp.Connector
	var br *Bridge
	var fake *FakeServer
	childPID := 0
	switch c.Client {
	case "stdio":
		dir, _ := os.MkdirTemp("", "c08")
		defer os.RemoveAll(dir)
		plan := map[string][]FakeAction{}
		if c.Fault != "none" {
			// the first tools/call the child sees is hit; the others stay unanswered (they are pending when the fault lands)
			acts := []FakeAction{{Kind: "fault", Raw: "{{valid}}", Cut: cutOf(validLen + 1), Then: c.Fault}}
			for i := 0; i < 16; i++ {
				acts = append(acts, FakeAction{Kind: "silent"})
			}
			plan["request:tools/call"] = acts
		}
		cs := ChildSpec{Role: "fake", Log: filepath.Join(dir, "log"), Plan: plan}
		if c.Helper {
			cs.Helper = 15
		}
		cfg := mcp.StdioTransportConfig{ServerParams: ChildCommand(cs), Timeout: LongWait()}
		sc, err := mcp.NewStdioClient(cfg, mcp.Implementation{Name: "c", Version: "1"}, mcp.WithStdioLogger(nopLogger{}))
		if err != nil {
			return Failf("C08/new-client", "%v", err)
		}
		cl = sc
		defer func() {
			if childPID > 0 {
				syscall.Kill(childPID, syscall.SIGKILL)
			}
		}()
	default:
		fake = &FakeServer{Legacy: c.Client == "legacy", Stateful: c.Client != "legacy"}
		fake.Plan = func(method, kind string, nth int) FakeAction {
			if method != "tools/call" || !armed.Load() {
				return FakeAction{}
			}
			if c.Fault == "none" {
				return FakeAction{}
			}
			if c.Fault == "stallposts" {
				// the calls are acknowledged and never answered; from then on the server leaves every further POST hanging
				return FakeAction{Kind: "silent"}
			}
			if strings.HasPrefix(c.Fault, "http") {
				// every pending call is answered with the error status and a body the client has no use for
				st, _ := strconv.Atoi(strings.TrimPrefix(c.Fault, "http"))
				return FakeAction{Kind: "http", Status: st}
			}
			if hit.Add(1) == 1 && c.CutPct >= 0 && c.Fault != "refuse" {
				raw, ct := "{{valid}}", "application/json"
				total := validLen
				if c.Client == "streamable-sse" {
					raw, ct = "id: e1\ndata: {{valid}}\n\n", "text/event-stream"
					total = validLen + len("id: e1\ndata: \n\n")
				} else if c.Client == "legacy" {
					total = validLen + len("event: message\ndata: \n\n")
				}
				return FakeAction{Kind: "fault", Raw: raw, CT: ct, Cut: cutOf(total), Then: c.Fault}
			}
			// the other pending calls are never answered: they must end with the connection / the caller's context
			if c.Client == "legacy" {
				return FakeAction{Kind: "silent"}
			}
			return FakeAction{Kind: "fault", Raw: "", CT: "application/json", Cut: 0, Then: "stall"}
		}
		br = &Bridge{H: fake}
		br.Fault = func(r *SeenReq) error {
			if r.RPC == "tools/call" && armed.Load() && (c.Fault == "refuse" || (c.CutPct < 0 && c.Fault != "none" && c.Fault != "stall")) && hit.Add(1) >= 1 {
				switch c.Fault {
				case "reset":
					return &net.OpError{Op: "read", Net: "tcp", Err: os.NewSyscallError("read", syscall.ECONNRESET)}
				case "close", "truncate":
					return io.EOF
				}
				return &net.OpError{Op: "dial", Net: "tcp", Err: os.NewSyscallError("connect", syscall.ECONNREFUSED)}
			}
			return nil
		}
		opts := []mcp.ClientOption{mcp.WithHTTPReqHandler(br), mcp.WithClientLogger(nopLogger{})}
		if c.Retry {
			opts = append(opts, mcp.WithRetry(mcp.RetryConfig{MaxRetries: 3, InitialBackoff: 30 * time.Second, BackoffFactor: 1, MaxBackoff: 30 * time.Second}))
		}
		var hc *mcp.Client
		var err error
		if c.Client == "legacy" {
			hc, err = mcp.NewSSEClient("http://c08.invalid/sse", mcp.Implementation{Name: "c", Version: "1"}, opts...)
		} else {
			hc, err = mcp.NewClient("http://c08.invalid/mcp", mcp.Implementation{Name: "c", Version: "1"}, opts...)
		}
		if err != nil {
			return Failf("C08/new-client", "%v", err)
		}
		cl = hc
	}
	closed := false
	defer func() {
		if !closed {
			cl.Close()
		}
	}()
	if c.Fault == "noendpoint" {
		// the handshake itself is the pending call: it must end with its context, and Close must release the stream
		fake.NoEndpoint = true
		limit := Bound() * 2
		ictx, icancel := context.WithCancel(context.Background())
		switch c.Ctx {
		case "deadline":
			ictx, icancel = context.WithTimeout(context.Background(), limit)
		case "cancel":
			time.AfterFunc(limit, icancel)
		}
		idone := make(chan error, 1)
		t0 := time.Now()
		go func() { _, err := cl.Initialize(ictx, &mcp.InitializeRequest{}); idone <- err }()
		if c.Ctx != "none" {
			select {
			case err := <-idone:
				if err == nil {
					icancel()
					return Failf("C08/partial-result/"+c.Client, "%s: Initialize succeeded although the server never announced an endpoint", where)
				}
			case <-time.After(limit + Patience()):
				icancel()
				return TimingFailf("C08/call-does-not-end/"+c.Client+"/"+c.Fault, "%s: Initialize is still blocked %v after its context ended (started %v ago)", where, Patience(), time.Since(t0).Round(time.Millisecond))
			}
		} else {
			time.Sleep(50 * time.Millisecond)
		}
		icancel()
		cdone := make(chan error, 1)
		go func() { cdone <- cl.Close() }()
		closed = true
		select {
		case <-cdone:
		case <-time.After(8 * time.Second):
			return TimingFailf("C08/close-hangs/"+c.Client, "%s: Close did not return within 8 s", where)
		}
		if c.Ctx == "none" {
			select {
			case <-idone:
			case <-time.After(Patience()):
				return TimingFailf("C08/call-survives-close/"+c.Client, "%s: Initialize is still blocked after Close", where)
			}
		}
		return c08Released(c, where, cl, br, 0, goBefore, fdBefore)
	}
	ictx, icancel := context.WithTimeout(context.Background(), 5*time.Second)
	_, err := cl.Initialize(ictx, &mcp.InitializeRequest{})
	icancel()
	if err != nil {
		return Failf("C08/handshake", "%s: %v", where, err)
	}
	if pc, ok := cl.(mcp.ProcessClient); ok {
		childPID = pc.GetProcessID()
	}
	// pending calls
	type res struct {
		text string
		err  error
		took time.Duration
	}
	armed.Store(true)
	results := make([]res, c.Pending)
	var wg sync.WaitGroup
	limit := Bound() * 2
	var cancels []context.CancelFunc
	start := time.Now()
	for i := 0; i < c.Pending; i++ {
		ctx, cancel := context.WithCancel(context.Background())
		switch c.Ctx {
		case "deadline":
			ctx, cancel = context.WithTimeout(context.Background(), limit)
		}
		cancels = append(cancels, cancel)
		wg.Add(1)
		go func(i int, ctx context.Context) {
			defer wg.Done()
			t0 := time.Now()
			t, err := callEcho(ctx, cl)
			results[i] = res{t, err, time.Since(t0)}
		}(i, ctx)
	}
	if c.Fault == "stallposts" && fake != nil {
		base := fake.Accepted.Load()
		deadline := time.Now().Add(limit / 2)
		for fake.Accepted.Load() < base+int64(c.Pending) && time.Now().Before(deadline) {
			time.Sleep(200 * time.Microsecond)
		}
		fake.StallPosts.Store(true)
		defer fake.StallPosts.Store(false)
	}
	if c.Ctx == "cancel" {
		time.AfterFunc(limit, func() {
			for _, cf := range cancels {
				cf()
			}
		})
	}
	defer func() {
		for _, cf := range cancels {
			cf()
		}
	}()
	// when must everything have ended? connection faults end calls at once; stalls / silent peers end with the caller's context
	done := make(chan struct{})
	go func() { wg.Wait(); close(done) }()
	httpFault := strings.HasPrefix(c.Fault, "http")
	connectionEnds := c.Fault == "close" || c.Fault == "reset" || c.Fault == "truncate" || c.Fault == "exit0" || c.Fault == "exit3" || c.Fault == "kill9" || c.Fault == "refuse"
	wait := limit + Patience()
	if c.Ctx == "none" && !connectionEnds && c.Fault != "none" && !httpFault {
		wait = 100 * time.Millisecond // nothing obliges these calls to end; they are released by Close below
	}
	ended := false
	select {
	case <-done:
		ended = true
	case <-time.After(wait):
	}
	expectEnd := c.Fault == "none" || httpFault || c.Ctx != "none" || (connectionEnds && (c.Client == "stdio" || c.Client == "legacy" || c.Pending == 1))
	if !ended && expectEnd {
		var stuck []int
		for i := range results {
			if results[i].err == nil && results[i].text == "" {
				stuck = append(stuck, i)
			}
		}
		key := "C08/call-does-not-end/" + c.Client + "/" + c.Fault
		return TimingFailf(key, "%s: %d of %d pending calls are still blocked %v after the fault / the end of their context (started %v ago)", where, len(stuck), c.Pending, wait, time.Since(start).Round(time.Millisecond))
	}
	// Close releases whatever is still pending, and returns
	cdone := make(chan error, 1)
	go func() { cdone <- cl.Close() }()
	closed = true
	select {
	case <-cdone:
	case <-time.After(8 * time.Second):
		return TimingFailf("C08/close-hangs/"+c.Client, "%s: Close did not return within 8 s", where)
	}
	for _, cf := range cancels {
		cf()
	}
	select {
	case <-done:
	case <-time.After(Patience()):
		return TimingFailf("C08/call-survives-close/"+c.Client, "%s: pending calls are still blocked after Close and cancellation of their contexts", where)
	}
	// never a wrong or partial result
	for i, r := range results {
		if httpFault && r.err == nil {
			return Failf("C08/partial-result/"+c.Client, "%s: pending call %d answered with HTTP %s returned %q without error", where, i, strings.TrimPrefix(c.Fault, "http"), r.text)
		}
		if r.err == nil && r.text != c07ValidText {
			return Failf("C08/partial-result/"+c.Client, "%s: pending call %d returned %q without error", where, i, r.text)
		}
		if r.err != nil && c.Ctx == "cancel" && !connectionEnds && !httpFault && !errors.Is(r.err, context.Canceled) && !strings.Contains(r.err.Error(), "context canceled") && !strings.Contains(r.err.Error(), "closed") && c.Fault != "none" {
			return Failf("C08/cancel-error/"+c.Client, "%s: a cancelled call returned %v", where, r.err)
		}
	}
	if f := c08Released(c, where, cl, br, childPID, goBefore, fdBefore); f != nil {
		return f
	}
	childPID = 0
	return nil
}

// c08Released checks what must be gone after Close: pending tables, response bodies, the child, goroutines, descriptors.
func c08Released(c C08Case, where string, cl mcp.Connector, br *Bridge, childPID int, goBefore map[string]int, fdBefore int) *Failure {
	// released: pending tables, response bodies, goroutines, descriptors, the child
	if n := mcp.VerifPendingClientRequests(cl); n > 0 {
		return Failf("C08/pending-entries-left/"+c.Client, "%s: %d requests are still registered as pending after Close", where, n)
	}
	if br != nil {
		deadline := time.Now().Add(Patience())
		for br.OpenBodies() > 0 && time.Now().Before(deadline) {
			time.Sleep(time.Millisecond)
		}
		if n := br.OpenBodies(); n > 0 {
			key := "C08/response-body-not-closed/" + c.Client
			if c.Client == "streamable-sse" {
				key = "C08/post-sse-body-not-closed"
			}
			return TimingFailf(key, "%s: %d HTTP response bodies were never closed by the client (connections stay open)", where, n)
		}
	}
	if childPID > 0 {
		deadline := time.Now().Add(Patience())
		for syscall.Kill(childPID, 0) == nil && time.Now().Before(deadline) {
			time.Sleep(2 * time.Millisecond)
		}
		if syscall.Kill(childPID, 0) == nil {
			return TimingFailf("C08/child-left-running", "%s: the child process %d is still alive after Close", where, childPID)
		}
	}
	if d := WaitNoLeak(goBefore, Patience()); len(d) > 0 {
		return TimingFailf("C08/goroutine-leak/"+c.Client+"/"+strings.SplitN(d[0], " (", 2)[0], "%s: library goroutines left after Close: %v", where, d)
	}
	deadline := time.Now().Add(Patience())
	for FDCount() > fdBefore && time.Now().Before(deadline) {
		time.Sleep(2 * time.Millisecond)
	}
	if n := FDCount(); n > fdBefore {
		return TimingFailf("C08/fd-leak/"+c.Client, "%s: %d file descriptors open, %d before the case", where, n, fdBefore)
	}
	return nil
}

func TestC08(t *testing.T) {
	RunProp(t, Prop[C08Case]{ID: "C08", Gen: genC08, Exec: execC08, NT: ntC08})
}

// TestC08Enum: every fault kind x position class x transport x context mode.
func TestC08Enum(t *testing.T) {
	RunEnum(t, "C08", c08Enumerated(), execC08, ntC08)
}

// ---------------------------------------------------------------------------
// server side: once the peer's connections are gone, what the server held for them is released

type C08SrvCase struct {
	Legacy  bool `json:"legacy"`
	Streams int  `json:"streams"` // listening streams / legacy sessions opened and then abandoned
	Calls   int  `json:"calls"`   // tool calls in progress (blocked in the handler) when their peer leaves
	Reopen  bool `json:"reopen"`  // Streamable: every session's stream is replaced once before the peers leave
	// CtxFunc: the server's HTTP context function: 0 none, 1 derives from the context it is given, 2 returns a context of its own
	// (values on a fresh background context) - what a context function returns carries values, the connection's life is the request's
	CtxFunc int `json:"ctxfunc,omitempty"`
}

type c08CtxKey struct{}

func c08CtxFunc(kind int) func(ctx context.Context, r *http.Request) context.Context {
	return func(ctx context.Context, r *http.Request) context.Context {
		if kind == 2 {
			return context.WithValue(context.Background(), c08CtxKey{}, r.Header.Get("X-Who"))
		}
		return context.WithValue(ctx, c08CtxKey{}, r.Header.Get("X-Who"))
	}
}

func execC08Srv(c C08SrvCase) *Failure {
	before := LibGoroutines()
	mode := ModeSS
	if c.Legacy {
		mode = ModeLegacy
	}
	var wo WorldOpt
	if c.CtxFunc > 0 {
		wo.ServerOpts = append(wo.ServerOpts, mcp.WithHTTPContextFunc(c08CtxFunc(c.CtxFunc)))
		wo.SSEOpts = append(wo.SSEOpts, mcp.WithSSEContextFunc(c08CtxFunc(c.CtxFunc)))
	}
	w := NewWorld(mode, RegSpec{}, wo)
	defer w.Close()
	var inHandler, released atomic.Int64
	RegistrarOf(serverOf(w)).RegisterTool(mcp.NewTool("block"), func(ctx context.Context, req *mcp.CallToolRequest) (*mcp.CallToolResult, error) {
		inHandler.Add(1)
		select {
		case <-ctx.Done():
			released.Add(1)
			return nil, ctx.Err()
		case <-time.After(20 * time.Second):
			return mcp.NewTextResult("timeout"), nil
		}
	})
	if c.CtxFunc == 2 {
		// a handler that waits on a context the application itself cut loose from the request is the application's business:
		// only the library's own stream handlers are judged under such a context function
		c.Calls = 0
	}
	var h = w.handlerOf()
	var lives []*LiveResp
	where := fmt.Sprintf("legacy=%v streams=%d calls=%d reopen=%v ctxfunc=%d", c.Legacy, c.Streams, c.Calls, c.Reopen, c.CtxFunc)
	for i := 0; i < c.Streams; i++ {
		if c.Legacy {
			lr := StartLive(h, "GET", "http://verif/sse", map[string]string{"Accept": "text/event-stream"}, nil, nil)
			lr.WaitEvents(1, Patience())
			lives = append(lives, lr)
			continue
		}
		ex := w.Direct("POST", "/mcp", map[string]string{"Content-Type": "application/json", "Accept": "application/json"}, InitRequest("0", "2025-03-26"))
		sid := ex.Header.Get("Mcp-Session-Id")
		n := 1
		if c.Reopen {
			n = 2
		}
		for k := 0; k < n; k++ {
			lr := StartLive(h, "GET", "http://verif/mcp", map[string]string{"Accept": "text/event-stream", "Mcp-Session-Id": sid}, nil, nil)
			lr.WaitFlushedHeader(Patience())
			lives = append(lives, lr)
		}
		for k := 0; k < c.Calls; k++ {
			lr := StartLive(h, "POST", "http://verif/mcp", map[string]string{"Content-Type": "application/json", "Accept": "application/json, text/event-stream", "Mcp-Session-Id": sid},
				[]byte(fmt.Sprintf(`{"jsonrpc":"2.0","id":%d,"method":"tools/call","params":{"name":"block","arguments":{}}}`, k+1)), nil)
			lives = append(lives, lr)
		}
	}
	want := c.Streams
	deadline := time.Now().Add(Patience())
	for mcp.VerifStreamCount(serverOf(w)) < want && time.Now().Before(deadline) {
		time.Sleep(200 * time.Microsecond)
	}
	if !c.Legacy {
		for inHandler.Load() < int64(c.Streams*c.Calls) && time.Now().Before(deadline) {
			time.Sleep(200 * time.Microsecond)
		}
	}
	// every peer goes away
	for _, lr := range lives {
		lr.PeerGone()
	}
	for _, lr := range lives {
		if !lr.WaitReturned(Patience()) {
			return TimingFailf("C08/server/handler-outlives-peer", "%s: a handler is still running after its peer's connection was gone", where)
		}
	}
	deadline = time.Now().Add(Patience())
	for mcp.VerifStreamCount(serverOf(w)) != 0 && time.Now().Before(deadline) {
		time.Sleep(time.Millisecond)
	}
	if n := mcp.VerifStreamCount(serverOf(w)); n != 0 {
		return TimingFailf("C08/server/stream-entries-left", "%s: %d stream / session entries are still registered after every peer has gone", where, n)
	}
	if !c.Legacy && c.CtxFunc != 2 && released.Load() != int64(c.Streams*c.Calls) {
		return TimingFailf("C08/server/handler-context-not-cancelled", "%s: %d of %d handlers in progress saw their context end", where, released.Load(), c.Streams*c.Calls)
	}
	if d := WaitNoLeak(before, Patience()); len(d) > 0 {
		return TimingFailf("C08/server/goroutine-leak/"+strings.SplitN(d[0], " (", 2)[0], "%s: library goroutines left after every peer has gone: %v", where, d)
	}
	return nil
}

func TestC08Server(t *testing.T) {
	RunProp(t, Prop[C08SrvCase]{ID: "C08",
		Gen: func(t *rapid.T) C08SrvCase {
			return C08SrvCase{Legacy: rapid.Bool().Draw(t, "legacy"), Streams: rapid.IntRange(1, 6).Draw(t, "streams"), Calls: rapid.IntRange(0, 3).Draw(t, "calls"), Reopen: rapid.Bool().Draw(t, "reopen"), CtxFunc: rapid.IntRange(0, 2).Draw(t, "ctxfunc")}
		},
		Exec: execC08Srv,
		NT: func(c C08SrvCase) (bool, []string) {
			return c.Streams >= 2 || c.Calls > 0, []string{fmt.Sprintf("legacy=%v", c.Legacy)}
		}})
}
