package harness

// A small JSON-Schema validator (the subset the spec files and the library's
// schema generators use). It is the harness's own oracle, cross-checked
// against python jsonschema by ./check selftest.

import (
	"encoding/json"
	"fmt"
	"math"
	"net/url"
	"reflect"
	"sort"
	"strconv"
	"strings"
	"unicode/utf8"
)

// SchemaDoc is a parsed schema document (needed to resolve local $ref).
type SchemaDoc struct {
	Root interface{}
}

// ParseSchema decodes a schema document.
func ParseSchema(b []byte) (*SchemaDoc, error) {
	var v interface{}
	dec := json.NewDecoder(strings.NewReader(string(b)))
	dec.UseNumber()
	if err := dec.Decode(&v); err != nil {
		return nil, err
	}
	return &SchemaDoc{Root: v}, nil
}

// ResolvePointer resolves "#", "#/a/b", with ~0 ~1 and percent-decoding.
func (d *SchemaDoc) ResolvePointer(ref string) (interface{}, error) {
	if !strings.HasPrefix(ref, "#") {
		return nil, fmt.Errorf("non-local $ref %q", ref)
	}
	frag := ref[1:]
	if un, err := url.PathUnescape(frag); err == nil {
		frag = un
	}
	if frag == "" {
		return d.Root, nil
	}
	if !strings.HasPrefix(frag, "/") {
		return nil, fmt.Errorf("$ref %q is not a JSON pointer", ref)
	}
	cur := d.Root
	for _, tok := range strings.Split(frag[1:], "/") {
		tok = strings.ReplaceAll(strings.ReplaceAll(tok, "~1", "/"), "~0", "~")
		switch c := cur.(type) {
		case map[string]interface{}:
			nx, ok := c[tok]
			if !ok {
				return nil, fmt.Errorf("$ref %q: no member %q", ref, tok)
			}
			cur = nx
		case []interface{}:
			i, err := strconv.Atoi(tok)
			if err != nil || i < 0 || i >= len(c) {
				return nil, fmt.Errorf("$ref %q: bad index %q", ref, tok)
			}
			cur = c[i]
		default:
			return nil, fmt.Errorf("$ref %q: cannot descend into %T at %q", ref, cur, tok)
		}
	}
	return cur, nil
}

// AllRefs lists every "$ref" string value found in schema positions of the document.
func (d *SchemaDoc) AllRefs() []string {
	var out []string
	var walk func(v interface{})
	walk = func(v interface{}) {
		switch c := v.(type) {
		case map[string]interface{}:
			keys := make([]string, 0, len(c))
			for k := range c {
				keys = append(keys, k)
			}
			sort.Strings(keys)
			for _, k := range keys {
				if k == "$ref" {
					if s, ok := c[k].(string); ok {
						out = append(out, s)
						continue
					}
				}
				if k == "default" || k == "enum" || k == "const" || k == "example" {
					continue
				}
				walk(c[k])
			}
		case []interface{}:
			for _, e := range c {
				walk(e)
			}
		}
	}
	walk(d.Root)
	return out
}

// Validate checks instance (decoded with UseNumber or plain) against the schema at the document root.
func (d *SchemaDoc) Validate(instance interface{}) error {
	return d.validate(d.Root, instance, "$", 0)
}

// ValidateAt validates against the sub-schema the pointer designates.
func (d *SchemaDoc) ValidateAt(ref string, instance interface{}) error {
	s, err := d.ResolvePointer(ref)
	if err != nil {
		return err
	}
	return d.validate(s, instance, "$", 0)
}

func jsonType(v interface{}) string {
	switch n := v.(type) {
	case nil:
		return "null"
	case bool:
		return "boolean"
	case string:
		return "string"
	case json.Number:
		if f, err := n.Float64(); err == nil && f == math.Trunc(f) && !math.IsInf(f, 0) {
			return "integer"
		}
		return "number"
	case float64:
		if n == math.Trunc(n) && !math.IsInf(n, 0) {
			return "integer"
		}
		return "number"
	case int, int64:
		return "integer"
	case []interface{}:
		return "array"
	case map[string]interface{}:
		return "object"
	}
	return "unknown"
}

func typeMatches(want, have string) bool {
	if want == have {
		return true
	}
	return want == "number" && have == "integer"
}

func num(v interface{}) (float64, bool) {
	switch n := v.(type) {
	case json.Number:
		f, err := n.Float64()
		return f, err == nil
	case float64:
		return n, true
	case int:
		return float64(n), true
	case int64:
		return float64(n), true
	}
	return 0, false
}

func canon(v interface{}) interface{} {
	switch c := v.(type) {
	case json.Number:
		f, _ := c.Float64()
		return f
	case int:
		return float64(c)
	case int64:
		return float64(c)
	case []interface{}:
		o := make([]interface{}, len(c))
		for i := range c {
			o[i] = canon(c[i])
		}
		return o
	case map[string]interface{}:
		o := map[string]interface{}{}
		for k, e := range c {
			o[k] = canon(e)
		}
		return o
	}
	return v
}

func jsonEqual(a, b interface{}) bool { return reflect.DeepEqual(canon(a), canon(b)) }

func (d *SchemaDoc) validate(schema, inst interface{}, path string, depth int) error {
	if depth > 200 {
		return fmt.Errorf("%s: schema recursion too deep", path)
	}
	switch s := schema.(type) {
	case bool:
		if !s {
			return fmt.Errorf("%s: schema false", path)
		}
		return nil
	case map[string]interface{}:
		return d.validateObj(s, inst, path, depth)
	}
	return fmt.Errorf("%s: schema is %T, not an object or boolean", path, schema)
}

func (d *SchemaDoc) validateObj(s map[string]interface{}, inst interface{}, path string, depth int) error {
	if ref, ok := s["$ref"].(string); ok {
		target, err := d.ResolvePointer(ref)
		if err != nil {
			return fmt.Errorf("%s: %v", path, err)
		}
		if err := d.validate(target, inst, path, depth+1); err != nil {
			return err
		}
	}
	have := jsonType(inst)
	if t, ok := s["type"]; ok {
		okType := false
		switch tt := t.(type) {
		case string:
			okType = typeMatches(tt, have)
		case []interface{}:
			for _, e := range tt {
				if es, ok := e.(string); ok && typeMatches(es, have) {
					okType = true
				}
			}
		}
		if !okType {
			return fmt.Errorf("%s: type %s, schema wants %v", path, have, t)
		}
	}
	if c, ok := s["const"]; ok && !jsonEqual(c, inst) {
		return fmt.Errorf("%s: not the const value", path)
	}
	if en, ok := s["enum"].([]interface{}); ok {
		found := false
		for _, e := range en {
			if jsonEqual(e, inst) {
				found = true
			}
		}
		if !found {
			return fmt.Errorf("%s: value not in enum %v", path, en)
		}
	}
	for _, kw := range []string{"allOf", "anyOf", "oneOf"} {
		arr, ok := s[kw].([]interface{})
		if !ok {
			continue
		}
		okCount := 0
		var firstErr error
		for _, sub := range arr {
			if err := d.validate(sub, inst, path, depth+1); err == nil {
				okCount++
			} else if firstErr == nil {
				firstErr = err
			}
		}
		switch kw {
		case "allOf":
			if okCount != len(arr) {
				return fmt.Errorf("%s: allOf: %v", path, firstErr)
			}
		case "anyOf":
			if okCount == 0 {
				return fmt.Errorf("%s: anyOf: no branch matches (%v)", path, firstErr)
			}
		case "oneOf":
			if okCount != 1 {
				return fmt.Errorf("%s: oneOf: %d branches match (%v)", path, okCount, firstErr)
			}
		}
	}
	if n, ok := s["not"]; ok {
		if err := d.validate(n, inst, path, depth+1); err == nil {
			return fmt.Errorf("%s: matches 'not' schema", path)
		}
	}
	switch v := inst.(type) {
	case map[string]interface{}:
		props, _ := s["properties"].(map[string]interface{})
		if req, ok := s["required"].([]interface{}); ok {
			for _, r := range req {
				if rs, ok := r.(string); ok {
					if _, present := v[rs]; !present {
						return fmt.Errorf("%s: required member %q missing", path, rs)
					}
				}
			}
		}
		keys := make([]string, 0, len(v))
		for k := range v {
			keys = append(keys, k)
		}
		sort.Strings(keys)
		for _, k := range keys {
			if ps, ok := props[k]; ok {
				if err := d.validate(ps, v[k], path+"."+k, depth+1); err != nil {
					return err
				}
				continue
			}
			if ap, ok := s["additionalProperties"]; ok {
				if err := d.validate(ap, v[k], path+"."+k, depth+1); err != nil {
					if b, isB := ap.(bool); isB && !b {
						return fmt.Errorf("%s: additional member %q not allowed", path, k)
					}
					return err
				}
			}
		}
		if mp, ok := num(s["minProperties"]); ok && float64(len(v)) < mp {
			return fmt.Errorf("%s: fewer than %v members", path, mp)
		}
		if mp, ok := num(s["maxProperties"]); ok && float64(len(v)) > mp {
			return fmt.Errorf("%s: more than %v members", path, mp)
		}
	case []interface{}:
		if it, ok := s["items"]; ok {
			for i, e := range v {
				if err := d.validate(it, e, fmt.Sprintf("%s[%d]", path, i), depth+1); err != nil {
					return err
				}
			}
		}
		if m, ok := num(s["minItems"]); ok && float64(len(v)) < m {
			return fmt.Errorf("%s: fewer than %v items", path, m)
		}
		if m, ok := num(s["maxItems"]); ok && float64(len(v)) > m {
			return fmt.Errorf("%s: more than %v items", path, m)
		}
		if u, ok := s["uniqueItems"].(bool); ok && u {
			for i := range v {
				for j := i + 1; j < len(v); j++ {
					if jsonEqual(v[i], v[j]) {
						return fmt.Errorf("%s: items %d and %d are equal", path, i, j)
					}
				}
			}
		}
	case string:
		n := float64(utf8.RuneCountInString(v))
		if m, ok := num(s["minLength"]); ok && n < m {
			return fmt.Errorf("%s: shorter than %v", path, m)
		}
		if m, ok := num(s["maxLength"]); ok && n > m {
			return fmt.Errorf("%s: longer than %v", path, m)
		}
	}
	if f, ok := num(inst); ok {
		if _, isStr := inst.(string); !isStr {
			if m, ok := num(s["minimum"]); ok && f < m {
				return fmt.Errorf("%s: %v below minimum %v", path, f, m)
			}
			if m, ok := num(s["maximum"]); ok && f > m {
				return fmt.Errorf("%s: %v above maximum %v", path, f, m)
			}
			if m, ok := num(s["exclusiveMinimum"]); ok && f <= m {
				return fmt.Errorf("%s: %v not above exclusiveMinimum %v", path, f, m)
			}
			if m, ok := num(s["exclusiveMaximum"]); ok && f >= m {
				return fmt.Errorf("%s: %v not below exclusiveMaximum %v", path, f, m)
			}
		}
	}
	return nil
}

// DecodeJSON decodes one JSON value keeping numbers exact; trailing data is an error.
func DecodeJSON(b []byte) (interface{}, error) {
	dec := json.NewDecoder(strings.NewReader(string(b)))
	dec.UseNumber()
	var v interface{}
	if err := dec.Decode(&v); err != nil {
		return nil, err
	}
	var extra interface{}
	if err := dec.Decode(&extra); err == nil {
		return nil, fmt.Errorf("trailing data after JSON value")
	}
	return v, nil
}
