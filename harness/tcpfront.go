//go:build verif

package harness

import (
	"fmt"
	"io"
	"net"
	"net/http"
	"sync"
	"time"
)

// One real TCP listener per test process, shared by every case that wants the library's default HTTP path
// (its own http.Client over loopback TCP). A listener per case costs one ephemeral port per case for the
// sixty seconds its closed connections linger in TIME_WAIT; tens of thousands of cases per minute then
// leave the machine without ports ("bind: address already in use"), which is the harness's fault and
// nobody's defect. Each virtual server gets a loopback address of its own (127.x.y.z, all of 127/8 is
// local) on the shared port, so that requests are routed by the address they were sent to and a straggler
// of an earlier case can never reach a later case's handler.
type tcpFront struct {
	port  int
	srv   *http.Server
	mu    sync.Mutex
	seq   int
	hosts map[string]*TCPServer // by local IP
}

// TCPServer is one virtual server on the shared listener (the subset of httptest.Server the harness uses).
type TCPServer struct {
	URL   string
	ip    string
	h     http.Handler
	f     *tcpFront
	conns map[net.Conn]http.ConnState
	gone  bool
}

var (
	frontOnce sync.Once
	front     *tcpFront
)

// ServeTCP serves h on real loopback TCP.
func ServeTCP(h http.Handler) *TCPServer {
	frontOnce.Do(func() {
		ln, err := net.Listen("tcp4", "0.0.0.0:0")
		if err != nil {
			panic(resourceError{err})
		}
		f := &tcpFront{port: ln.Addr().(*net.TCPAddr).Port, hosts: map[string]*TCPServer{}}
		f.srv = &http.Server{Handler: http.HandlerFunc(f.route), ErrorLog: newStdLogger(io.Discard), ConnState: f.connState}
		go f.srv.Serve(ln)
		front = f
	})
	f := front
	f.mu.Lock()
	defer f.mu.Unlock()
	f.seq++
	n := f.seq
	ip := fmt.Sprintf("127.%d.%d.%d", 1+(n>>16)%126, (n>>8)&0xff, n&0xff)
	s := &TCPServer{URL: fmt.Sprintf("http://%s:%d", ip, f.port), ip: ip, h: h, f: f, conns: map[net.Conn]http.ConnState{}}
	f.hosts[ip] = s
	return s
}

// resourceError marks a failure of the machine (no ports, no descriptors), not of the code under test.
type resourceError struct{ err error }

func (r resourceError) Error() string { return "verif-resource-exhausted: " + r.err.Error() }

func localIP(c net.Conn) string {
	if a, ok := c.LocalAddr().(*net.TCPAddr); ok {
		return a.IP.String()
	}
	return ""
}

func (f *tcpFront) connState(c net.Conn, st http.ConnState) {
	ip := localIP(c)
	f.mu.Lock()
	s := f.hosts[ip]
	if s != nil {
		if st == http.StateClosed || st == http.StateHijacked {
			delete(s.conns, c)
		} else {
			s.conns[c] = st
		}
	}
	f.mu.Unlock()
	if s == nil && st == http.StateNew {
		c.Close() // nobody lives at this address (any more)
	}
}

func (f *tcpFront) route(w http.ResponseWriter, r *http.Request) {
	ip := ""
	if a, ok := r.Context().Value(http.LocalAddrContextKey).(*net.TCPAddr); ok {
		ip = a.IP.String()
	}
	f.mu.Lock()
	s := f.hosts[ip]
	f.mu.Unlock()
	if s == nil {
		if hj, ok := w.(http.Hijacker); ok {
			if c, _, err := hj.Hijack(); err == nil {
				c.Close()
				return
			}
		}
		http.Error(w, "gone", http.StatusServiceUnavailable)
		return
	}
	s.h.ServeHTTP(w, r)
}

// CloseClientConnections closes every connection to this virtual server.
func (s *TCPServer) CloseClientConnections() {
	s.f.mu.Lock()
	var cs []net.Conn
	for c := range s.conns {
		cs = append(cs, c)
	}
	s.f.mu.Unlock()
	for _, c := range cs {
		c.Close()
	}
}

// Close retires the virtual server the way httptest.Server.Close does: idle connections are closed at
// once, requests in flight get up to five seconds to finish, then everything left is closed.
func (s *TCPServer) Close() {
	s.f.mu.Lock()
	if s.gone {
		s.f.mu.Unlock()
		return
	}
	s.gone = true
	s.f.mu.Unlock()
	deadline := time.Now().Add(5 * time.Second)
	for {
		busy := 0
		var idle []net.Conn
		s.f.mu.Lock()
		for c, st := range s.conns {
			if st == http.StateIdle || st == http.StateNew {
				idle = append(idle, c)
			} else {
				busy++
			}
		}
		s.f.mu.Unlock()
		for _, c := range idle {
			c.Close()
		}
		if busy == 0 || time.Now().After(deadline) {
			break
		}
		time.Sleep(2 * time.Millisecond)
	}
	s.CloseClientConnections()
	s.f.mu.Lock()
	delete(s.f.hosts, s.ip)
	s.f.mu.Unlock()
}
