package harness

import (
	"context"
	"encoding/json"
	"fmt"
	"math"
	"runtime"
	"strings"
	"sync"
	"sync/atomic"
	"testing"
	"time"

	"pgregory.net/rapid"
	mcp "trpc.group/trpc-go/trpc-mcp-go"
)

// C10: in-call notifications arrive complete, in order and before the result.

type C10Notif struct {
	Kind   string          `json:"kind"` // progress log custom raw
	Method string          `json:"method,omitempty"`
	Params json.RawMessage `json:"params,omitempty"` // custom / raw: a JSON object
	Meta   json.RawMessage `json:"meta,omitempty"`
	// MetaForm: how the handler spells _meta: 0 map[string]interface{}, 1 mcp.Meta, 2 a struct value,
	// 3 (raw only) a hand-built Notification carrying _meta among its additional fields
	MetaForm int `json:"metaform,omitempty"`
	Pad      int `json:"pad,omitempty"`
	Txt      int `json:"txt,omitempty"`   // index into c10Texts: awkward text in front of the padding of progress / log messages and custom parameters
	Delay    int `json:"delay,omitempty"` // 0 none, 1 Gosched, k>=2: k*50us
}

type C10Call struct {
	Notifs []C10Notif `json:"notifs"`
	Fail   bool       `json:"fail,omitempty"` // the handler returns an error after emitting (the notifications were emitted all the same; the stream ends with an error answer)
}

type C10Case struct {
	Mode     Mode      `json:"mode"`     // a Streamable mode; JSON-response modes drop the notifications
	Calls    []C10Call `json:"calls"`    // executed concurrently on one client
	Handlers []string  `json:"handlers"` // methods the client registers a handler for
	Real     bool      `json:"real"`
	HErrs    []bool    `json:"herrs"`             // cycled: the client's handler returns an error for this notification (must not disturb delivery)
	Abandon  int       `json:"abandon,omitempty"` // calls of other peers that left in the middle of their event stream, before the calls above start
	// Late: this many further handlers (methods late/0 .. late/n-1) are registered by another goroutine while the calls above are in
	// flight; afterwards one more call emits notifications for some of them: a handler whose registration has returned
	// receives the notifications of every later call, whatever was in flight while it was registered.
	Late int `json:"late,omitempty"`
	// Lives: before the calls the client is closed and initialized again this many times (handlers are registered after the last
	// handshake): a client's later lives deliver like its first
	Lives int `json:"lives,omitempty"`
	// NoSession: the server is created WithoutSession() (sessions disabled) while answers to POST stay event streams
	NoSession bool `json:"nosession,omitempty"`
	// Reenter: every third notification makes its handler change the client's registrations from inside (a handler of another
	// method is registered and removed again, as a one-shot handler would do)
	Reenter bool `json:"reenter,omitempty"`
	// KillSess: once every call is inside its handler the session is terminated (a raw DELETE); the handlers emit after that. What
	// a handler emits reaches its caller for as long as the handler runs, whatever has become of the session meanwhile
	KillSess bool `json:"killsess,omitempty"`
}

// texts a message may hold: control characters, DEL, quotes and backslashes, line separators, an unprintable astral rune, bytes
// that are not UTF-8 (encoding/json replaces those by U+FFFD: the expectation does the same)
var c10Texts = []string{"", "bell\a tab\t vt\v nul\x00 esc\x1b", "del\x7f c1\u0085", `quote" back\slash </script> &amp;`, "ls\u2028ps\u2029", "tag\U000E0001 pua\U0010FFFD", "bad\xff\xfeutf8 \xc0\xaf", "%d %s %%", "emoji \U0001F600 ünï"}

func c10Text(n C10Notif) string {
	// what encoding/json makes of the text: every byte that is not part of a UTF-8 sequence becomes one U+FFFD
	var b strings.Builder
	for _, r := range c10Texts[n.Txt%len(c10Texts)] {
		b.WriteRune(r) // ranging over a string yields U+FFFD once per invalid byte
	}
	return b.String() + strings.Repeat("z", n.Pad)
}

var c10Methods = []string{"notifications/progress", "notifications/message", "notifications/custom-a", "custom/b", "x"}

func genC10(t *rapid.T) C10Case {
	c := C10Case{Mode: rapid.SampledFrom([]Mode{ModeSS, ModeSS, ModeSS, ModeLS, ModeSJ, ModeLJ}).Draw(t, "mode"), Real: rapid.IntRange(0, 9).Draw(t, "real") == 0}
	nc := rapid.IntRange(1, 4).Draw(t, "ncalls")
	for i := 0; i < nc; i++ {
		var call C10Call
		n := rapid.IntRange(0, 12).Draw(t, "nnotifs")
		if rapid.IntRange(0, 7).Draw(t, "burst") == 0 {
			n = rapid.IntRange(13, 50).Draw(t, "manynotifs")
		}
		for j := 0; j < n; j++ {
			nf := C10Notif{Kind: rapid.SampledFrom([]string{"progress", "log", "custom", "custom", "raw", "custom", "raw", "bad"}).Draw(t, "kind"), Delay: rapid.SampledFrom([]int{0, 0, 0, 1, 2, 5}).Draw(t, "delay")}
			if nf.Kind == "custom" || nf.Kind == "raw" {
				nf.Method = rapid.SampledFrom(c10Methods).Draw(t, "method")
				tree := map[string]interface{}{}
				nk := rapid.IntRange(0, 3).Draw(t, "nkeys")
				for k := 0; k < nk; k++ {
					tree[rapid.SampledFrom([]string{"a", "b", "data", "ünï", "progress"}).Draw(t, "pkey")] = genJSONTree(t, 2)
				}
				nf.Params, _ = json.Marshal(tree)
				if rapid.IntRange(0, 2).Draw(t, "meta") == 0 {
					mt := map[string]interface{}{}
					if rapid.Bool().Draw(t, "metanonempty") {
						mt["progressToken"] = genJSONTree(t, 3)
					}
					nf.Meta, _ = json.Marshal(mt)
					nf.MetaForm = rapid.IntRange(0, 3).Draw(t, "metaform")
				}
			}
			if rapid.IntRange(0, 9).Draw(t, "big") == 0 {
				nf.Pad = rapid.SampledFrom([]int{5000, 70000, 200000}).Draw(t, "pad")
			}
			if rapid.IntRange(0, 3).Draw(t, "txt?") == 0 {
				nf.Txt = rapid.IntRange(1, len(c10Texts)-1).Draw(t, "txt")
			}
			call.Notifs = append(call.Notifs, nf)
		}
		call.Fail = rapid.IntRange(0, 5).Draw(t, "callfails") == 0
		c.Calls = append(c.Calls, call)
	}
	c.NoSession = c.Mode == ModeSS && rapid.IntRange(0, 3).Draw(t, "nosession") == 0
	c.Reenter = rapid.IntRange(0, 3).Draw(t, "reenter") == 0
	c.KillSess = c.Mode == ModeSS && !c.NoSession && rapid.IntRange(0, 3).Draw(t, "killsess") == 0
	if rapid.IntRange(0, 4).Draw(t, "lives") == 0 {
		c.Lives = rapid.IntRange(1, 2).Draw(t, "nlives")
	}
	for _, m := range c10Methods {
		if rapid.IntRange(0, 2).Draw(t, "handler") != 0 {
			c.Handlers = append(c.Handlers, m)
		}
	}
	if rapid.IntRange(0, 3).Draw(t, "abandon") == 0 {
		c.Abandon = rapid.IntRange(1, 6).Draw(t, "nabandon")
	}
	if rapid.IntRange(0, 2).Draw(t, "late") == 0 {
		c.Late = rapid.SampledFrom([]int{3, 40, 150, 400}).Draw(t, "nlate")
	}
	nh := rapid.IntRange(1, 4).Draw(t, "nherrs")
	for i := 0; i < nh; i++ {
		c.HErrs = append(c.HErrs, rapid.IntRange(0, 3).Draw(t, "herr") == 3)
	}
	return c
}

const c10LateCall = 99999

// c10LateIdx: which of the late handlers the final call addresses (first, last and a few between).
func c10LateIdx(n int) []int {
	var out []int
	for _, k := range []int{0, 1, n / 3, n / 2, n - 2, n - 1} {
		if k >= 0 && k < n && (len(out) == 0 || out[len(out)-1] < k) {
			out = append(out, k)
		}
	}
	return out
}

func ntC10(c C10Case) (bool, []string) {
	nt := false
	for _, call := range c.Calls {
		zero := 0
		for _, n := range call.Notifs {
			if n.Delay == 0 {
				zero++
			}
		}
		if len(call.Notifs) >= 2 && zero >= 2 {
			nt = true
		}
	}
	return nt, []string{"mode=" + c.Mode.String(), fmt.Sprintf("calls=%d", len(c.Calls))}
}

func (n C10Notif) method() string {
	switch n.Kind {
	case "progress":
		return "notifications/progress"
	case "log":
		return "notifications/message"
	}
	return n.Method
}

type c10Seen struct {
	seq    int64
	method string
	params map[string]interface{}
	meta   map[string]interface{}
}

func execC10(c C10Case) *Failure {
	if c.KillSess {
		c.Late = 0 // there is no session left for a later call
	}
	var wo WorldOpt
	if c.NoSession {
		wo.ServerOpts = append(wo.ServerOpts, mcp.WithoutSession())
		c.Abandon = 0 // the abandoned-call prelude uses reference sessions
	}
	w := NewWorld(c.Mode, RegSpec{}, wo)
	defer w.Close()
	var emitErrs sync.Map
	var entered atomic.Int64
	killed := make(chan struct{})
	w.Srv.RegisterTool(mcp.NewTool("emit", mcp.WithNumber("call")), func(ctx context.Context, req *mcp.CallToolRequest) (*mcp.CallToolResult, error) {
		ci := int(req.Params.Arguments["call"].(float64))
		sender, ok := mcp.GetNotificationSender(ctx)
		if !ok {
			return nil, fmt.Errorf("no notification sender in context")
		}
		if c.KillSess && ci >= 0 && ci < len(c.Calls) {
			entered.Add(1)
			select {
			case <-killed:
			case <-time.After(3 * time.Second):
			}
		}
		if ci == c10LateCall {
			for _, k := range c10LateIdx(c.Late) {
				if err := sender.SendCustomNotification(fmt.Sprintf("late/%d", k), map[string]interface{}{"tag": fmt.Sprintf("late-%d", k)}); err != nil {
					emitErrs.Store(fmt.Sprintf("late-%d", k), err)
				}
			}
			return mcp.NewTextResult("done-late"), nil
		}
		if ci >= len(c.Calls) {
			// the call of a peer that leaves mid-stream: the handler keeps emitting and does not look at the errors
			for j := 0; j < 8; j++ {
				sender.SendCustomNotification(c10Methods[j%len(c10Methods)], map[string]interface{}{"tag": fmt.Sprintf("c%dn%d", ci, j), "pad": strings.Repeat("a", 300)})
				sender.SendProgress(float64(j), fmt.Sprintf("c%dn%d|", ci, j))
				time.Sleep(150 * time.Microsecond)
			}
			return mcp.NewTextResult("abandoned"), nil
		}
		for j, n := range c.Calls[ci].Notifs {
			switch {
			case n.Delay == 1:
				runtime.Gosched()
			case n.Delay >= 2:
				time.Sleep(time.Duration(n.Delay) * 50 * time.Microsecond)
			}
			tag := fmt.Sprintf("c%dn%d", ci, j)
			pad := c10Texts[n.Txt%len(c10Texts)] + strings.Repeat("z", n.Pad)
			var err error
			switch n.Kind {
			case "bad":
				// a notification that cannot be encoded (a progress ratio with a zero total, a parameter holding a channel): the
				// sender may refuse it; the handler ignores that and goes on. It is not part of the emitted sequence.
				if j%2 == 0 {
					sender.SendProgress(math.NaN(), tag)
				} else {
					sender.SendCustomNotification("notifications/custom-a", map[string]interface{}{"tag": tag, "ch": make(chan int)})
				}
				continue
			case "progress":
				err = sender.SendProgress(float64(j)+0.5, tag+"|"+pad)
			case "log":
				err = sender.SendLogMessage("info", tag+"|"+pad)
			default:
				params := map[string]interface{}{}
				json.Unmarshal(n.Params, &params)
				params["tag"] = tag
				if n.Pad > 0 || n.Txt > 0 {
					params["pad"] = pad
				}
				handBuilt := false
				if len(n.Meta) > 0 {
					var mt map[string]interface{}
					json.Unmarshal(n.Meta, &mt)
					switch n.MetaForm {
					case 1:
						params["_meta"] = mcp.Meta(mt)
					case 2:
						if tok, has := mt["progressToken"]; has {
							params["_meta"] = struct {
								ProgressToken interface{} `json:"progressToken"`
							}{tok}
						} else {
							params["_meta"] = struct{}{}
						}
					case 3:
						params["_meta"] = mt
						handBuilt = n.Kind == "raw"
					default:
						params["_meta"] = mt
					}
				}
				switch {
				case n.Kind == "custom":
					err = sender.SendCustomNotification(n.Method, params)
				case handBuilt:
					err = sender.SendNotification(&mcp.Notification{Method: n.Method, Params: mcp.NotificationParams{AdditionalFields: params}})
				default:
					err = sender.SendNotification(mcp.NewNotification(n.Method, params))
				}
			}
			if err != nil {
				emitErrs.Store(tag, err)
			}
		}
		if c.Calls[ci].Fail {
			return nil, fmt.Errorf("failed-%d", ci)
		}
		return mcp.NewTextResult(fmt.Sprintf("done-%d", ci)), nil
	})
	for a := 0; a < c.Abandon; a++ {
		hdr := map[string]string{"Content-Type": "application/json", "Accept": "application/json, text/event-stream"}
		if c.Mode.Stateful() {
			ref, err := w.Connect()
			if err != nil {
				return Failf("C10/connect", "%v", err)
			}
			hdr["Mcp-Session-Id"] = ref.SessionID
		}
		body := fmt.Sprintf(`{"jsonrpc":"2.0","id":"ab%d","method":"tools/call","params":{"name":"emit","arguments":{"call":%d}}}`, a, len(c.Calls)+a)
		lr := StartLive(w.Srv.Handler(), "POST", "http://verif/mcp", hdr, []byte(body), nil)
		lr.WaitEvents(1, Bound())
		lr.PeerGone()
		if !lr.WaitReturned(Patience()) {
			return TimingFailf("C10/abandoned-call-stuck", "%s: the handler of a call whose peer left mid-stream did not return", c.Mode)
		}
	}
	lc, err := w.ConnectLib(c.Real, nil, mcp.WithClientGetSSEEnabled(false))
	if err != nil {
		return Failf("C10/connect", "%v", err)
	}
	defer lc.Close()
	for l := 0; l < c.Lives; l++ {
		lc.C.Close()
		ictx, icancel := context.WithTimeout(context.Background(), 10*time.Second)
		_, err := lc.C.Initialize(ictx, &mcp.InitializeRequest{})
		icancel()
		if err != nil {
			return Failf("C10/connect", "%s: Initialize after Close (life %d): %v", c.Mode, l+2, err)
		}
	}
	var seq atomic.Int64
	var mu sync.Mutex
	seen := map[int][]c10Seen{} // call index -> notifications recorded
	registered := map[string]bool{}
	var reenterStuck atomic.Bool
	for _, m := range c.Handlers {
		m := m
		registered[m] = true
		lc.C.RegisterNotificationHandler(m, func(n *mcp.JSONRPCNotification) error {
			s := c10Seen{seq: seq.Add(1), method: n.Method, params: n.Params.AdditionalFields, meta: n.Params.Meta}
			tag, _ := n.Params.AdditionalFields["tag"].(string)
			if tag == "" {
				tag, _ = n.Params.AdditionalFields["message"].(string)
			}
			if tag == "" {
				if d, ok := n.Params.AdditionalFields["data"].(map[string]interface{}); ok {
					tag, _ = d["message"].(string)
				}
			}
			var ci, j int
			if _, err := fmt.Sscanf(strings.SplitN(tag, "|", 2)[0], "c%dn%d", &ci, &j); err != nil {
				ci = -1
			}
			mu.Lock()
			seen[ci] = append(seen[ci], s)
			mu.Unlock()
			if c.Reenter && s.seq%3 == 0 {
				rdone := make(chan struct{})
				go func() {
					lc.C.RegisterNotificationHandler("reenter/one-shot", func(*mcp.JSONRPCNotification) error { return nil })
					lc.C.UnregisterNotificationHandler("reenter/one-shot")
					close(rdone)
				}()
				select {
				case <-rdone:
				case <-time.After(Patience()):
					reenterStuck.Store(true)
				}
			}
			if len(c.HErrs) > 0 && c.HErrs[int(s.seq)%len(c.HErrs)] {
				return fmt.Errorf("handler does not like %s", tag)
			}
			return nil
		})
	}
	type done struct {
		seq  int64
		text string
		err  error
	}
	results := make([]done, len(c.Calls))
	var wg sync.WaitGroup
	var lateMu sync.Mutex
	lateSeen := map[int]int{}
	var lateOrder []int
	if c.Late > 0 {
		wg.Add(1)
		go func() {
			defer wg.Done()
			for k := 0; k < c.Late; k++ {
				k := k
				lc.C.RegisterNotificationHandler(fmt.Sprintf("late/%d", k), func(n *mcp.JSONRPCNotification) error {
					lateMu.Lock()
					lateSeen[k]++
					lateOrder = append(lateOrder, k)
					lateMu.Unlock()
					return nil
				})
				if k%8 == 0 {
					runtime.Gosched()
				}
			}
		}()
	}
	for ci := range c.Calls {
		wg.Add(1)
		go func(ci int) {
			defer wg.Done()
			ctx, cancel := context.WithTimeout(context.Background(), 20*time.Second)
			defer cancel()
			req := &mcp.CallToolRequest{}
			req.Params.Name = "emit"
			req.Params.Arguments = map[string]interface{}{"call": ci}
			res, err := lc.C.CallTool(ctx, req)
			d := done{seq: seq.Add(1), err: err}
			if err != nil && c.Calls[ci].Fail && strings.Contains(err.Error(), fmt.Sprintf("failed-%d", ci)) {
				d.err, d.text = nil, fmt.Sprintf("done-%d", ci) // the handler's own error, delivered as such: the expected outcome of this call
			} else if err == nil && c.Calls[ci].Fail {
				d.err = fmt.Errorf("the call returned a result although its handler failed")
			}
			if err == nil && len(res.Content) == 1 {
				if tc, ok := res.Content[0].(mcp.TextContent); ok {
					d.text = tc.Text
				}
			}
			results[ci] = d
		}(ci)
	}
	if c.KillSess {
		deadline := time.Now().Add(2 * time.Second)
		for entered.Load() < int64(len(c.Calls)) && time.Now().Before(deadline) {
			time.Sleep(200 * time.Microsecond)
		}
		if sc, ok := lc.C.(mcp.SessionClient); ok && sc.GetSessionID() != "" {
			w.Direct("DELETE", "/mcp", map[string]string{"Mcp-Session-Id": sc.GetSessionID()}, nil)
		}
		close(killed)
	}
	wg.Wait()
	if reenterStuck.Load() {
		return TimingFailf("C10/handler-reentry-blocks", "%s: a notification handler registered and removed another handler on its client; those calls had not returned %v later (the dispatch holds a lock while it runs handlers?)", c.Mode, Patience())
	}
	sseMode := c.Mode.PostSSE()
	if c.Late > 0 {
		// every registration has returned: a later call's notifications reach those handlers
		ctx, cancel := context.WithTimeout(context.Background(), 20*time.Second)
		req := &mcp.CallToolRequest{}
		req.Params.Name = "emit"
		req.Params.Arguments = map[string]interface{}{"call": c10LateCall}
		res, err := lc.C.CallTool(ctx, req)
		cancel()
		if err != nil || len(res.Content) != 1 {
			f := Failf("C10/result-lost", "%s: the call made after %d handlers were registered during earlier calls failed: %v", c.Mode, c.Late, err)
			f.Timing = err != nil && isTimeoutText(err.Error())
			return f
		}
		if sseMode {
			lateMu.Lock()
			got := fmt.Sprint(lateOrder)
			lateMu.Unlock()
			if want := fmt.Sprint(c10LateIdx(c.Late)); got != want {
				return Failf("C10/late-handler-missed", "%s: %d handlers were registered while %d calls were in flight; a later call emitted notifications for handlers %s, delivered (in order): %s", c.Mode, c.Late, len(c.Calls), want, got)
			}
		}
	}
	var firstEmitErr error
	emitErrs.Range(func(k, v interface{}) bool { firstEmitErr = fmt.Errorf("%v: %v", k, v); return false })
	if firstEmitErr != nil {
		return Failf("C10/emit-error", "%s: the notification sender reported %v", c.Mode, firstEmitErr)
	}
	mu.Lock()
	defer mu.Unlock()
	for ci := range seen {
		if ci >= len(c.Calls) {
			return Failf("C10/foreign-notification", "%s: a handler received %s %.120v, emitted inside the call of another peer that had left (%d such calls)", c.Mode, seen[ci][0].method, seen[ci][0].params, c.Abandon)
		}
	}
	if len(seen[-1]) > 0 {
		return Failf("C10/unattributable-notification", "%s: a handler received %s %v, which no call emitted", c.Mode, seen[-1][0].method, seen[-1][0].params)
	}
	for ci, call := range c.Calls {
		where := fmt.Sprintf("%s%s call %d (%d notifications emitted, handler fails=%v, handlers %v, %d concurrent calls, client life %d)", c.Mode, map[bool]string{true: " with sessions disabled", false: ""}[c.NoSession], ci, len(call.Notifs), call.Fail, c.Handlers, len(c.Calls), c.Lives+1)
		if results[ci].err != nil {
			f := Failf("C10/result-lost", "%s: CallTool failed: %v", where, results[ci].err)
			f.Timing = isTimeoutText(results[ci].err.Error())
			return f
		}
		if results[ci].text != fmt.Sprintf("done-%d", ci) {
			return Failf("C10/result-wrong", "%s: result %q", where, results[ci].text)
		}
		var want []int
		if sseMode {
			for j, n := range call.Notifs {
				if registered[n.method()] && n.Kind != "bad" {
					want = append(want, j)
				}
			}
		}
		got := seen[ci]
		if len(got) != len(want) {
			key := "C10/notification-count"
			if !sseMode {
				key = "C10/notification-in-json-mode"
			}
			return Failf(key, "%s: handlers recorded %d notifications, expected %d (indices %v)", where, len(got), len(want), want)
		}
		for k, j := range want {
			n := call.Notifs[j]
			g := got[k]
			tag := fmt.Sprintf("c%dn%d", ci, j)
			if g.seq > results[ci].seq {
				return Failf("C10/notification-after-result", "%s: notification %s was handed to the handler after CallTool had returned", where, tag)
			}
			if g.method != n.method() {
				return Failf("C10/order-or-method", "%s: position %d holds a %q notification, emission order has %q (%s) there", where, k, g.method, n.method(), tag)
			}
			pad := c10Text(n)
			switch n.Kind {
			case "progress":
				if g.params["message"] != tag+"|"+pad || g.params["progress"] != float64(j)+0.5 {
					return Failf("C10/params", "%s: progress %s arrived as progress=%v message=%.60q", where, tag, g.params["progress"], g.params["message"])
				}
			case "log":
				d, _ := g.params["data"].(map[string]interface{})
				if g.params["level"] != "info" || d["message"] != tag+"|"+pad {
					return Failf("C10/params", "%s: log %s arrived as %.200v", where, tag, g.params)
				}
			default:
				wantP := map[string]interface{}{}
				json.Unmarshal(n.Params, &wantP)
				wantP["tag"] = tag
				if n.Pad > 0 || n.Txt > 0 {
					wantP["pad"] = pad
				}
				delete(wantP, "_meta")
				if d := firstDiff(canon(wantP), canon(g.params), "params"); d != "" {
					return Failf("C10/params", "%s: %s %s: emitted vs received: %s", where, n.method(), tag, d)
				}
				var wantM map[string]interface{}
				if len(n.Meta) > 0 {
					json.Unmarshal(n.Meta, &wantM)
				}
				gm := map[string]interface{}(g.meta)
				if len(wantM) == 0 && len(gm) == 0 {
					continue
				}
				if d := firstDiff(canon(wantM), canon(gm), "_meta"); d != "" {
					return Failf("C10/meta", "%s: %s %s: emitted vs received: %s", where, n.method(), tag, d)
				}
			}
		}
	}
	// event ids on one POST stream are pairwise distinct (reference peer)
	if sseMode && !c.NoSession {
		conn, err := w.Connect()
		if err != nil {
			return Failf("C10/connect", "%v", err)
		}
		for ci := range c.Calls {
			ex := conn.Send([]byte(fmt.Sprintf(`{"jsonrpc":"2.0","id":%d,"method":"tools/call","params":{"name":"emit","arguments":{"call":%d}}}`, ci+1, ci)), fmt.Sprint(ci+1), Bound())
			ids := map[string]int{}
			for i, e := range ex.Events {
				if !e.HasID || e.ID == "" {
					return Failf("C10/event-without-id", "%s: event %d of the POST stream has no id", c.Mode, i)
				}
				// the parser carries the last id forward: only count events that set their own id
				ids[e.ID]++
			}
			for id, n := range ids {
				if n > 1 {
					return Failf("C10/duplicate-event-id", "%s: event id %q appears %d times on one POST stream of %d events (call %d)", c.Mode, id, n, len(ex.Events), ci)
				}
			}
			good := 0
			for _, n := range c.Calls[ci].Notifs {
				if n.Kind != "bad" {
					good++
				}
			}
			if len(ex.Events) != good+1 {
				return Failf("C10/raw-event-count", "%s: POST stream of call %d carries %d events, %d notifications + 1 result were emitted", c.Mode, ci, len(ex.Events), good)
			}
		}
	}
	return nil
}

func TestC10(t *testing.T) {
	RunProp(t, Prop[C10Case]{ID: "C10", Gen: genC10, Exec: execC10, NT: ntC10})
}
