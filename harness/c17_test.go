package harness

import (
	"context"
	"errors"
	"fmt"
	"io"
	"math"
	"math/big"
	"net"
	"net/http"
	"net/url"
	"os"
	"strconv"
	"strings"
	"sync"
	"sync/atomic"
	"syscall"
	"testing"
	"time"

	"pgregory.net/rapid"
	mcp "trpc.group/trpc-go/trpc-mcp-go"
)

// C17: retry — bounded attempts, only transient failures, capped backoff, prompt cancel.

type C17Cfg struct {
	MaxRetries int    `json:"max_retries"`
	InitialNS  int64  `json:"initial_ns"`
	Factor     string `json:"factor"` // decimal text, or "NaN", "+Inf", "-Inf"
	MaxNS      int64  `json:"max_ns"`
}

func (c C17Cfg) factor() float64 {
	switch c.Factor {
	case "NaN":
		return math.NaN()
	case "+Inf":
		return math.Inf(1)
	case "-Inf":
		return math.Inf(-1)
	}
	var f float64
	fmt.Sscanf(c.Factor, "%g", &f)
	return f
}

func (c C17Cfg) lib() mcp.VerifRetryConfig {
	return mcp.VerifRetryConfig{MaxRetries: c.MaxRetries, InitialBackoff: time.Duration(c.InitialNS), BackoffFactor: c.factor(), MaxBackoff: time.Duration(c.MaxNS)}
}

var (
	c17Retries  = []int{-5, -1, 0, 1, 2, 3, 9, 10, 11, 1000}
	c17Initials = []int64{-1, 0, 1, int64(time.Millisecond) - 1, int64(time.Millisecond), int64(500 * time.Millisecond), int64(30 * time.Second), int64(30*time.Second) + 1, int64(31 * time.Second), int64(10 * time.Minute), math.MaxInt64}
	c17Factors  = []string{"0", "0.5", "1", "1.0000001", "1.5", "2", "9.99", "10", "10.0001", "11", "1e300", "-3", "NaN", "+Inf", "-Inf"}
	c17Maxes    = []int64{-1, 0, 1, int64(time.Millisecond), int64(8 * time.Second), int64(30 * time.Second), int64(5 * time.Minute), int64(5*time.Minute) + 1, int64(time.Hour), math.MaxInt64}
)

func genC17Cfg(t *rapid.T) C17Cfg {
	return C17Cfg{
		MaxRetries: rapid.SampledFrom(c17Retries).Draw(t, "retries"),
		InitialNS:  rapid.SampledFrom(c17Initials).Draw(t, "initial"),
		Factor:     rapid.SampledFrom(c17Factors).Draw(t, "factor"),
		MaxNS:      rapid.SampledFrom(c17Maxes).Draw(t, "max"),
	}
}

// validateModel is the documented clamping: 0-10 retries, 1ms-30s initial, factor 1-10, max between initial and 5 minutes.
func validateModel(c mcp.VerifRetryConfig) mcp.VerifRetryConfig {
	v := c
	if v.MaxRetries < 0 {
		v.MaxRetries = 0
	} else if v.MaxRetries > 10 {
		v.MaxRetries = 10
	}
	if v.InitialBackoff < time.Millisecond {
		v.InitialBackoff = time.Millisecond
	} else if v.InitialBackoff > 30*time.Second {
		v.InitialBackoff = 30 * time.Second
	}
	return v
}

func checkValidated(in, v mcp.VerifRetryConfig) *Failure {
	m := validateModel(in)
	if v.MaxRetries != m.MaxRetries {
		return Failf("C17/validate/max-retries", "Validate(%+v).MaxRetries = %d, want %d", in, v.MaxRetries, m.MaxRetries)
	}
	if v.InitialBackoff != m.InitialBackoff {
		return Failf("C17/validate/initial", "Validate(%+v).InitialBackoff = %v, want %v", in, v.InitialBackoff, m.InitialBackoff)
	}
	if !(v.BackoffFactor >= 1 && v.BackoffFactor <= 10) {
		return Failf("C17/validate/factor", "Validate(%+v).BackoffFactor = %v, outside [1,10]", in, v.BackoffFactor)
	}
	if in.BackoffFactor >= 1 && in.BackoffFactor <= 10 && v.BackoffFactor != in.BackoffFactor {
		return Failf("C17/validate/factor", "Validate changed an in-range factor %v to %v", in.BackoffFactor, v.BackoffFactor)
	}
	if v.MaxBackoff < v.InitialBackoff || v.MaxBackoff > 5*time.Minute {
		return Failf("C17/validate/max", "Validate(%+v).MaxBackoff = %v, outside [%v, 5m]", in, v.MaxBackoff, v.InitialBackoff)
	}
	if in.MaxBackoff >= m.InitialBackoff && in.MaxBackoff <= 5*time.Minute && v.MaxBackoff != in.MaxBackoff {
		return Failf("C17/validate/max", "Validate changed an in-range MaxBackoff %v to %v", in.MaxBackoff, v.MaxBackoff)
	}
	again := mcp.VerifRetryValidate(v)
	if again.MaxRetries != v.MaxRetries || again.InitialBackoff != v.InitialBackoff || again.MaxBackoff != v.MaxBackoff ||
		!(again.BackoffFactor == v.BackoffFactor) {
		return Failf("C17/validate/not-idempotent", "Validate(%+v) = %+v but Validate of that = %+v", in, v, again)
	}
	return nil
}

// outcome kinds of one attempt
var c17Outcomes = []string{"ok", "rpc-error", "refused", "reset", "timeout", "eof", "wrapped-eof", "408", "409", "429", "500", "502", "503", "599", "400", "401", "403", "404", "405", "422", "other-net",
	// every assigned 5xx code on its own (a table that spells the codes out can lose one), and more of the 4xx range
	"501", "504", "505", "506", "507", "508", "509", "510", "511", "402", "406", "407", "410", "411", "412", "413", "414", "415", "416", "417", "418", "421", "423", "424", "425", "426", "428", "431", "451", "499"}

func transientOutcome(o string) (transient, named bool) {
	switch o {
	case "refused", "reset", "timeout", "eof", "wrapped-eof":
		return true, true
	case "ok", "rpc-error":
		return false, true
	}
	if st, err := strconv.Atoi(o); err == nil {
		// the statement: HTTP 408, 409, 429 and 5xx are transient, any other 4xx is not
		return st == 408 || st == 409 || st == 429 || (st >= 500 && st <= 599), st >= 400 && st <= 599
	}
	return false, false // unnamed kinds: unasserted
}

func netError(kind string) error {
	switch kind {
	case "refused":
		return &net.OpError{Op: "dial", Net: "tcp", Err: os.NewSyscallError("connect", syscall.ECONNREFUSED)}
	case "reset":
		return &net.OpError{Op: "read", Net: "tcp", Err: os.NewSyscallError("read", syscall.ECONNRESET)}
	case "timeout":
		return &net.OpError{Op: "read", Net: "tcp", Err: os.ErrDeadlineExceeded}
	case "eof":
		return io.EOF
	case "wrapped-eof":
		return &url.Error{Op: "Post", URL: "http://fake.invalid/mcp", Err: io.EOF}
	case "other-net":
		return &net.OpError{Op: "dial", Net: "tcp", Err: os.NewSyscallError("connect", syscall.EHOSTUNREACH)}
	}
	return nil
}

// expectedWait is min(Initial * Factor^(k-1), Max) computed exactly.
func expectedWait(v mcp.VerifRetryConfig, k int) time.Duration {
	f := new(big.Float).SetPrec(400).SetInt64(int64(v.InitialBackoff))
	fac := new(big.Float).SetPrec(400).SetFloat64(v.BackoffFactor)
	for i := 1; i < k; i++ {
		f.Mul(f, fac)
	}
	max := new(big.Float).SetPrec(400).SetInt64(int64(v.MaxBackoff))
	if f.Cmp(max) >= 0 {
		return v.MaxBackoff
	}
	n, _ := f.Int64()
	return time.Duration(n)
}

var backoffMu sync.Mutex

type C17DirectCase struct {
	Cfg      C17Cfg   `json:"cfg"`
	Script   []string `json:"script"`
	CancelAt int      `json:"cancel_at"` // -1 never; 2k = during attempt k; 2k+1 = inside the wait after attempt k
}

func c17Outcome(t *rapid.T) string {
	o := rapid.SampledFrom(c17Outcomes).Draw(t, "outcome")
	if o == "599" && Excluded("C17/5xx-above-511-not-retried") {
		CountExcluded("C17/5xx-above-511-not-retried")
		o = "503"
	}
	return o
}

func genC17Direct(t *rapid.T) C17DirectCase {
	c := C17DirectCase{Cfg: genC17Cfg(t), CancelAt: -1}
	v := validateModel(c.Cfg.lib())
	n := rapid.IntRange(1, v.MaxRetries+2).Draw(t, "scriptlen")
	for i := 0; i < n; i++ {
		c.Script = append(c.Script, c17Outcome(t))
	}
	if rapid.IntRange(0, 3).Draw(t, "cancel?") == 0 {
		c.CancelAt = rapid.IntRange(0, 2*n).Draw(t, "cancelat")
	}
	return c
}

func ntC17Direct(c C17DirectCase) (bool, []string) {
	nt := false
	for i, o := range c.Script {
		if tr, _ := transientOutcome(o); tr && i+1 < len(c.Script) {
			nt = true
		}
	}
	in := c.Cfg.lib()
	v := validateModel(in)
	if v.MaxRetries != in.MaxRetries || v.InitialBackoff != in.InitialBackoff || !(in.BackoffFactor >= 1 && in.BackoffFactor <= 10) || in.MaxBackoff < v.InitialBackoff || in.MaxBackoff > 5*time.Minute {
		nt = true
	}
	labels := []string{fmt.Sprintf("cancel=%v", c.CancelAt >= 0)}
	return nt, labels
}

func scriptError(o string) error {
	switch o {
	case "ok":
		return nil
	case "rpc-error":
		return errors.New("tool call error: scripted failure (code: -32000)")
	}
	if e := netError(o); e != nil {
		// the way the clients wrap transport errors
		return fmt.Errorf("%w: %v", mcp.ErrHTTPRequestFailed, e)
	}
	return fmt.Errorf("%w: status code %s", mcp.ErrHTTPRequestFailed, o)
}

func execC17Direct(c C17DirectCase) *Failure {
	in := c.Cfg.lib()
	v := mcp.VerifRetryValidate(in)
	if f := checkValidated(in, v); f != nil {
		return f
	}
	backoffMu.Lock()
	defer backoffMu.Unlock()
	ctx, cancel := context.WithCancel(context.Background())
	defer cancel()
	var waits []time.Duration
	attempts := 0
	cancelled := false
	mcp.VerifSetBackoffObserver(func(d time.Duration) bool {
		waits = append(waits, d)
		if c.CancelAt == 2*(attempts-1)+1 {
			cancel()
			cancelled = true
			return false // let the library's own wait observe the cancelled context
		}
		return true
	})
	defer mcp.VerifSetBackoffObserver(nil)
	op := func() error {
		i := attempts
		attempts++
		if c.CancelAt == 2*i {
			cancel()
			cancelled = true
		}
		if i >= len(c.Script) {
			return errors.New("HTTP request failed: status code 503")
		}
		return scriptError(c.Script[i])
	}
	done := make(chan error, 1)
	go func() { done <- mcp.VerifRetryExecute(ctx, op, &v, "verif") }()
	var err error
	select {
	case err = <-done:
	case <-time.After(20 * time.Second):
		cancel()
		return TimingFailf("C17/execute-hangs", "Execute(%+v, script %v, cancelAt %d) did not return within 20s (a real sleep of an unclamped backoff?)", v, c.Script, c.CancelAt)
	}
	where := fmt.Sprintf("cfg %+v (validated %+v) script %v cancelAt %d: attempts=%d waits=%v err=%v", in, v, c.Script, c.CancelAt, attempts, waits, err)
	if attempts > v.MaxRetries+1 {
		return Failf("C17/too-many-attempts", "%s", where)
	}
	// walk the script with the reference model
	want := 0
	for i := 0; i < len(c.Script)+20; i++ {
		want++
		if c.CancelAt == 2*i { // cancelled during attempt i: its outcome is still returned to Execute, but no further attempt may follow
			break
		}
		o := "503"
		if i < len(c.Script) {
			o = c.Script[i]
		}
		tr, named := transientOutcome(o)
		if !named {
			want = -1
			break
		}
		if !tr || want == v.MaxRetries+1 {
			break
		}
		if c.CancelAt == 2*i+1 {
			break
		}
	}
	if want >= 0 && attempts != want {
		key := "C17/missing-retry"
		if attempts > want {
			key = "C17/unexpected-retry"
		} else if attempts-1 < len(c.Script) && c.Script[attempts-1] == "599" {
			key = "C17/5xx-above-511-not-retried"
		}
		return Failf(key, "%s; the reference model makes %d attempts", where, want)
	}
	if cancelled && attempts <= v.MaxRetries && err == nil && want >= 0 {
		// cancellation during the final successful attempt may still return success: only failures must surface the context error
	}
	if cancelled && err != nil && !errors.Is(err, context.Canceled) {
		// if the last attempt failed non-transiently the operation error may be returned; only a cancelled *wait* or a cancelled pre-attempt check must yield ctx.Err()
		if c.CancelAt%2 == 1 {
			return Failf("C17/cancel-error", "%s; cancelling inside the wait must return the context's error", where)
		}
	}
	for k, d := range waits {
		if wd := expectedWait(v, k+1); d != wd {
			// float rounding of the library's multiplication is tolerated up to 1 part in 1e9
			diff := math.Abs(float64(d - wd))
			if diff > 1 && diff > float64(wd)*1e-9 {
				return Failf("C17/wrong-backoff", "%s; wait #%d is %v, want min(%v*%v^%d, %v) = %v", where, k+1, d, v.InitialBackoff, v.BackoffFactor, k, v.MaxBackoff, wd)
			}
		}
	}
	if want >= 0 && !cancelled && len(waits) != attempts-1 && !(len(waits) == attempts) {
		return Failf("C17/wait-count", "%s; %d waits for %d attempts", where, len(waits), attempts)
	}
	return nil
}

func TestC17Direct(t *testing.T) {
	RunProp(t, Prop[C17DirectCase]{ID: "C17", Gen: genC17Direct, Exec: execC17Direct, NT: ntC17Direct})
}

// ---------------------------------------------------------------------------
// real waits: between the end of a failed attempt and the start of the next one at least the computed backoff passes,
// however long the attempts themselves took (a lower bound only: timers never fire early, so load cannot break it)

type C17TimedCase struct {
	InitialMS int   `json:"initial_ms"`
	Factor    int   `json:"factor"`
	MaxMS     int   `json:"max_ms"`
	Retries   int   `json:"retries"`
	AttemptMS []int `json:"attempt_ms"` // how long attempt k takes before it fails transiently (cycled)
}

func execC17Timed(c C17TimedCase) *Failure {
	v := mcp.VerifRetryValidate(mcp.VerifRetryConfig{MaxRetries: c.Retries, InitialBackoff: time.Duration(c.InitialMS) * time.Millisecond, BackoffFactor: float64(c.Factor), MaxBackoff: time.Duration(c.MaxMS) * time.Millisecond})
	backoffMu.Lock()
	defer backoffMu.Unlock()
	var computed []time.Duration
	mcp.VerifSetBackoffObserver(func(d time.Duration) bool { computed = append(computed, d); return false })
	defer mcp.VerifSetBackoffObserver(nil)
	var starts, ends []time.Time
	op := func() error {
		k := len(starts)
		starts = append(starts, time.Now())
		if ms := c.AttemptMS[k%len(c.AttemptMS)]; ms > 0 {
			time.Sleep(time.Duration(ms) * time.Millisecond)
		}
		ends = append(ends, time.Now())
		return scriptError("503")
	}
	done := make(chan error, 1)
	go func() { done <- mcp.VerifRetryExecute(context.Background(), op, &v, "verif") }()
	select {
	case <-done:
	case <-time.After(60 * time.Second):
		return TimingFailf("C17/execute-hangs", "Execute(%+v) with real waits did not return within 60 s", v)
	}
	where := fmt.Sprintf("cfg %+v, attempts take %v ms", v, c.AttemptMS)
	if len(starts) != v.MaxRetries+1 {
		return Failf("C17/missing-retry", "%s: %d attempts, the reference model makes %d", where, len(starts), v.MaxRetries+1)
	}
	for k := 1; k < len(starts); k++ {
		want := expectedWait(v, k)
		if gap := starts[k].Sub(ends[k-1]); gap < want-200*time.Microsecond {
			return Failf("C17/wait-too-short", "%s: attempt %d started %v after attempt %d had failed, the wait there is min(%v*%v^%d, %v) = %v", where, k+1, gap, k, v.InitialBackoff, v.BackoffFactor, k-1, v.MaxBackoff, want)
		}
	}
	return nil
}

func TestC17Timed(t *testing.T) {
	RunProp(t, Prop[C17TimedCase]{ID: "C17",
		Gen: func(t *rapid.T) C17TimedCase {
			c := C17TimedCase{InitialMS: rapid.SampledFrom([]int{1, 2, 5, 10}).Draw(t, "initial"), Factor: rapid.SampledFrom([]int{1, 2, 3}).Draw(t, "factor"),
				MaxMS: rapid.SampledFrom([]int{5, 20, 40}).Draw(t, "max"), Retries: rapid.IntRange(1, 4).Draw(t, "retries")}
			n := rapid.IntRange(1, 4).Draw(t, "nattempt")
			for i := 0; i < n; i++ {
				c.AttemptMS = append(c.AttemptMS, rapid.SampledFrom([]int{0, 0, 1, 3, 12, 30, 60}).Draw(t, "attemptms"))
			}
			return c
		},
		Exec: execC17Timed,
		NT: func(c C17TimedCase) (bool, []string) {
			slow := false
			for _, ms := range c.AttemptMS {
				if ms > c.InitialMS {
					slow = true
				}
			}
			return slow, []string{fmt.Sprintf("retries=%d", c.Retries)}
		}})
}

// ---------------------------------------------------------------------------
// end to end: the Streamable and legacy SSE clients against scripted peers

type C17E2ECase struct {
	StreamFail int      `json:"streamfail,omitempty"` // legacy SSE: the first GETs of the event stream are answered 503
	Kind       int      `json:"kind"`                 // 0 streamable, 1 legacy SSE
	Retry      bool     `json:"retry"`
	Simple     bool     `json:"simple"` // WithSimpleRetry instead of WithRetry
	Cfg        C17Cfg   `json:"cfg"`
	Script     []string `json:"script"`
	Body       string   `json:"body"` // body text of scripted error statuses
	Call       string   `json:"call"`
	// Earlier: retry options given to the client before the one above (a later option replaces an earlier one; whatever
	// the combination, the configuration the client ends up with lies in the documented ranges)
	Earlier []C17Cfg `json:"earlier,omitempty"`
	// EarlierSimple[i]: Earlier[i] is given as WithSimpleRetry(MaxRetries) instead of WithRetry
	EarlierSimple []bool `json:"earlier_simple,omitempty"`
	// RetryAfter: error statuses carry this Retry-After header (the statement's wait is a function of the configuration alone)
	RetryAfter string `json:"retry_after,omitempty"`
	// JSONBody: error statuses are sent as application/json (the status still decides the class: the statement names the statuses)
	JSONBody bool `json:"json_body,omitempty"`
	// EndAt k >= 1: the caller's context ends when the k-th wait of the scripted call begins; EndHow says whether it is cancelled or its deadline passes
	// SessSuffix: the tail of the session id the Streamable peer issues (ids are opaque; some end in digits that look like a status)
	SessSuffix string `json:"sess_suffix,omitempty"`
	EndAt      int    `json:"end_at,omitempty"`
	EndHow     string `json:"end_how,omitempty"`
}

var c17Bodies = []string{"scripted status", "", "upstream said 500 Internal", "retry in 500 ms", "code 503", "error 429 ", "ok"}

// bodies sent as application/json: JSON-RPC error objects, a result object, other JSON
var c17JSONBodies = []string{`{"jsonrpc":"2.0","id":null,"error":{"code":-32000,"message":"busy"}}`, `{"jsonrpc":"2.0","id":1,"error":{"code":-32603,"message":"try again"}}`,
	`{"jsonrpc":"2.0","id":1,"result":{}}`, `{"error":"rate limited"}`, `[]`, `{"jsonrpc":"2.0","id":2,"error":{"code":-32002,"message":"Session not found"}}`}

// manualCtx is a caller's context whose end the harness decides: cancelled, or its deadline passed.
type manualCtx struct {
	context.Context
	done chan struct{}
	mu   sync.Mutex
	err  error
}

func newManualCtx() *manualCtx {
	return &manualCtx{Context: context.Background(), done: make(chan struct{})}
}
func (m *manualCtx) Done() <-chan struct{} { return m.done }
func (m *manualCtx) Err() error {
	m.mu.Lock()
	defer m.mu.Unlock()
	return m.err
}
func (m *manualCtx) Deadline() (time.Time, bool) { return time.Now().Add(time.Hour), true }
func (m *manualCtx) end(err error) {
	m.mu.Lock()
	if m.err == nil {
		m.err = err
		close(m.done)
	}
	m.mu.Unlock()
}

func genC17E2E(t *rapid.T) C17E2ECase {
	c := C17E2ECase{Kind: rapid.IntRange(0, 1).Draw(t, "kind"), Retry: rapid.IntRange(0, 4).Draw(t, "retry") != 0, Simple: rapid.IntRange(0, 3).Draw(t, "simple") == 0,
		Cfg: genC17Cfg(t), Call: rapid.SampledFrom([]string{"ListTools", "CallTool", "GetPrompt", "ReadResource"}).Draw(t, "call")}
	v := validateModel(c.Cfg.lib())
	n := rapid.IntRange(1, v.MaxRetries+2).Draw(t, "scriptlen")
	for i := 0; i < n; i++ {
		c.Script = append(c.Script, c17Outcome(t))
	}
	c.Body = rapid.SampledFrom(c17Bodies).Draw(t, "body")
	if c.Retry && rapid.IntRange(0, 2).Draw(t, "earlier?") == 0 {
		for i, n := 0, rapid.IntRange(1, 2).Draw(t, "nearlier"); i < n; i++ {
			c.Earlier = append(c.Earlier, genC17Cfg(t))
			c.EarlierSimple = append(c.EarlierSimple, rapid.Bool().Draw(t, "earliersimple"))
		}
	}
	c.RetryAfter = rapid.SampledFrom([]string{"", "", "2", "120", "0", "Wed, 21 Oct 2099 07:28:00 GMT", "soon"}).Draw(t, "retryafter")
	if c.Kind == 0 {
		c.SessSuffix = rapid.SampledFrom([]string{"", "", "503", "0429", "x-408", "abc500", "409"}).Draw(t, "sesssuffix")
	}
	if rapid.IntRange(0, 3).Draw(t, "jsonbody?") == 0 {
		c.JSONBody = true
		c.Body = rapid.SampledFrom(c17JSONBodies).Draw(t, "jsonbody")
	}
	if c.Retry {
		lead := 0
		for lead < len(c.Script) && lead < v.MaxRetries {
			if tr, named := transientOutcome(c.Script[lead]); !tr || !named {
				break
			}
			lead++
		}
		if c.Simple {
			lead = 0 // the ranges of WithSimpleRetry(n) are the library's defaults; the waits there are real
		}
		if lead > 0 && rapid.IntRange(0, 2).Draw(t, "end?") == 0 {
			c.EndAt = rapid.IntRange(1, lead).Draw(t, "endat")
			c.EndHow = rapid.SampledFrom([]string{"cancel", "deadline"}).Draw(t, "endhow")
		}
	}
	if c.Kind == 1 && rapid.IntRange(0, 3).Draw(t, "streamfail?") == 0 {
		c.StreamFail = rapid.IntRange(1, 3).Draw(t, "streamfail")
	}
	if c.Kind == 1 && c.Body != "scripted status" && c.Body != "" && c.Body != "ok" && Excluded("C17/sse-client-body-in-error-text") {
		CountExcluded("C17/sse-client-body-in-error-text")
		c.Body = "scripted status"
	}
	return c
}

func ntC17E2E(c C17E2ECase) (bool, []string) {
	nt := !c.Retry
	for i, o := range c.Script {
		if tr, _ := transientOutcome(o); tr && i+1 < len(c.Script) {
			nt = true
		}
	}
	return nt, []string{fmt.Sprintf("kind=%d retry=%v", c.Kind, c.Retry)}
}

func execC17E2E(c C17E2ECase) *Failure {
	backoffMu.Lock()
	defer backoffMu.Unlock()
	var mu sync.Mutex
	attempt := 0 // attempts of the scripted call seen by the peer / fault injector
	method := map[string]string{"ListTools": "tools/list", "CallTool": "tools/call", "GetPrompt": "prompts/get", "ReadResource": "resources/read"}[c.Call]
	outcomeAt := func(i int) string {
		if i < len(c.Script) {
			return c.Script[i]
		}
		return "503"
	}
	fake := &FakeServer{Legacy: c.Kind == 1, Stateful: c.Kind == 0, SessionSuffix: c.SessSuffix}
	fake.Plan = func(m, kind string, nth int) FakeAction {
		if m != method {
			return FakeAction{}
		}
		o := outcomeAt(nth)
		switch o {
		case "ok":
			return FakeAction{}
		case "rpc-error":
			return FakeAction{Kind: "rpc-error"}
		}
		var st int
		fmt.Sscanf(o, "%d", &st)
		return FakeAction{Kind: "http", Status: st}
	}
	// status bodies: wrap the fake to replace the default text
	sb := &statusBody{f: fake, body: c.Body, failGets: c.StreamFail, retryAfter: c.RetryAfter, json: c.JSONBody}
	br := &Bridge{H: sb}
	br.Fault = func(r *SeenReq) error {
		if r.RPC != method {
			return nil
		}
		mu.Lock()
		i := attempt
		attempt++
		mu.Unlock()
		if e := netError(outcomeAt(i)); e != nil {
			// keep the fake's per-method counter in step with the attempts
			fake.plan(method, "request")
			return &url.Error{Op: "Post", URL: "http://fake.invalid/mcp", Err: e}
		}
		return nil
	}
	opts := []mcp.ClientOption{mcp.WithHTTPReqHandler(br), mcp.WithClientLogger(nopLogger{}), mcp.WithClientGetSSEEnabled(false)}
	var v mcp.VerifRetryConfig
	for i, e := range c.Earlier {
		if i < len(c.EarlierSimple) && c.EarlierSimple[i] {
			opts = append(opts, mcp.WithSimpleRetry(e.MaxRetries))
		} else {
			opts = append(opts, mcp.WithRetry(mcp.RetryConfig{MaxRetries: e.MaxRetries, InitialBackoff: time.Duration(e.InitialNS), BackoffFactor: e.factor(), MaxBackoff: time.Duration(e.MaxNS)}))
		}
	}
	if c.Retry {
		if c.Simple {
			opts = append(opts, mcp.WithSimpleRetry(c.Cfg.MaxRetries))
			v = validateModel(mcp.VerifRetryConfig{MaxRetries: c.Cfg.MaxRetries})
		} else {
			opts = append(opts, mcp.WithRetry(mcp.RetryConfig{MaxRetries: c.Cfg.MaxRetries, InitialBackoff: time.Duration(c.Cfg.InitialNS), BackoffFactor: c.Cfg.factor(), MaxBackoff: time.Duration(c.Cfg.MaxNS)}))
			v = validateModel(c.Cfg.lib())
		}
	}
	var cl *mcp.Client
	var err error
	if c.Kind == 0 {
		cl, err = mcp.NewClient("http://fake.invalid/mcp", mcp.Implementation{Name: "c", Version: "1"}, opts...)
	} else {
		cl, err = mcp.NewSSEClient("http://fake.invalid/sse", mcp.Implementation{Name: "c", Version: "1"}, opts...)
	}
	if err != nil {
		return Failf("C17/new-client", "%v", err)
	}
	defer cl.Close()
	if c.Retry && !c.Simple {
		if got := mcp.VerifClientRetryConfig(cl); got == nil {
			return Failf("C17/retry-option-lost", "WithRetry left the client without a retry configuration")
		} else if f := checkValidated(c.Cfg.lib(), *got); f != nil {
			return f
		}
	}
	if c.Retry && c.Simple {
		// WithSimpleRetry(n): n clamped, the rest whatever the defaults are - inside the documented ranges, a fixed point of Validate
		got := mcp.VerifClientRetryConfig(cl)
		if got == nil {
			return Failf("C17/retry-option-lost", "WithSimpleRetry left the client without a retry configuration")
		}
		if want := validateModel(mcp.VerifRetryConfig{MaxRetries: c.Cfg.MaxRetries}).MaxRetries; got.MaxRetries != want {
			return Failf("C17/validate/max-retries", "retry options %v then WithSimpleRetry(%d): the client retries %d times, want %d", c.Earlier, c.Cfg.MaxRetries, got.MaxRetries, want)
		}
		if f := checkValidated(*got, mcp.VerifRetryValidate(*got)); f != nil {
			return f
		}
		if got.InitialBackoff < time.Millisecond || got.InitialBackoff > 30*time.Second || !(got.BackoffFactor >= 1 && got.BackoffFactor <= 10) || got.MaxBackoff < got.InitialBackoff || got.MaxBackoff > 5*time.Minute {
			return Failf("C17/validate/out-of-range", "retry options %v then WithSimpleRetry(%d): the client ends up with %+v, outside the documented ranges", c.Earlier, c.Cfg.MaxRetries, *got)
		}
	}
	var e2eWaits []time.Duration
	recordWaits := false
	callCtx := newManualCtx()
	defer callCtx.end(context.Canceled)
	mcp.VerifSetBackoffObserver(func(d time.Duration) bool {
		mu.Lock()
		n := 0
		if recordWaits {
			e2eWaits = append(e2eWaits, d)
			n = len(e2eWaits)
		}
		mu.Unlock()
		if c.EndAt > 0 && n == c.EndAt {
			// the caller's context ends inside this wait: the library performs its own wait and must notice
			if c.EndHow == "deadline" {
				callCtx.end(context.DeadlineExceeded)
			} else {
				callCtx.end(context.Canceled)
			}
			return false
		}
		return true
	})
	defer mcp.VerifSetBackoffObserver(nil)
	ctx, cancel := context.WithTimeout(context.Background(), 20*time.Second)
	defer cancel()
	if _, err := cl.Initialize(ctx, &mcp.InitializeRequest{}); err != nil {
		if c.StreamFail > 0 {
			gets := int(sb.gets.Load())
			wantGets := 1
			if c.Retry {
				wantGets = v.MaxRetries + 1
			}
			if c.Retry && c.StreamFail <= v.MaxRetries {
				return Failf("C17/missing-retry", "kind=1 retry cfg=%+v: the event stream was refused with 503 %d times, then accepted; Initialize failed after %d GETs: %v", v, c.StreamFail, gets, err)
			}
			if gets > wantGets {
				return Failf("C17/too-many-attempts", "kind=1 retry=%v cfg=%+v: %d GETs of the event stream for one Initialize", c.Retry, v, gets)
			}
			return nil
		}
		return Failf("C17/handshake", "%v", err)
	}
	if c.StreamFail > 0 {
		if !c.Retry {
			return Failf("C17/retry-without-option", "kind=1 without a retry option: Initialize succeeded although the first GET of the event stream was answered 503 (%d GETs)", sb.gets.Load())
		}
		if gets := int(sb.gets.Load()); gets != c.StreamFail+1 {
			return Failf("C17/unexpected-retry", "kind=1 retry cfg=%+v: %d GETs of the event stream, %d were refused", v, gets, c.StreamFail)
		}
	}
	mu.Lock()
	recordWaits = true
	mu.Unlock()
	var callErr error
	if c.EndAt > 0 {
		ended := make(chan error, 1)
		go func() { ended <- doCallCtx(callCtx, cl, c.Call) }()
		select {
		case callErr = <-ended:
		case <-time.After(20 * time.Second):
			return TimingFailf("C17/cancel-ignored", "kind=%d cfg=%+v script=%v: the caller's context ended (%s) when wait %d began; the call had not returned 20 s later", c.Kind, v, c.Script, c.EndHow, c.EndAt)
		}
	} else {
		callErr = doCall(cl, c.Call)
	}
	mu.Lock()
	got := attempt
	waitsSeen := append([]time.Duration(nil), e2eWaits...)
	mu.Unlock()
	if c.EndAt > 0 && len(waitsSeen) >= c.EndAt {
		w0 := fmt.Sprintf("kind=%d cfg=%+v script=%v: the caller's context ended (%s) when wait %d began", c.Kind, v, c.Script, c.EndHow, c.EndAt)
		if got > c.EndAt {
			return Failf("C17/attempt-after-cancel", "%s; the peer saw %d attempts (the sequence must end at once)", w0, got)
		}
		// the client wraps the sequence's error in text of its own (not always with %w): the context's error must at least be named
		if callErr == nil || !(errors.Is(callErr, callCtx.Err()) || strings.Contains(callErr.Error(), callCtx.Err().Error())) {
			return Failf("C17/cancel-error", "%s; the call returned %v, want the context's error %v", w0, callErr, callCtx.Err())
		}
		return nil
	}
	if c.Retry {
		// the k-th wait is InitialBackoff x Factor^(k-1) capped at MaxBackoff - whatever the failed answer says
		for k, d := range waitsSeen {
			if want := expectedWait(*mcp.VerifClientRetryConfig(cl), k+1); d != want {
				return Failf("C17/wait-value", "kind=%d retry cfg=%+v script=%v Retry-After=%q: wait %d before attempt %d is %v, the configuration gives %v", c.Kind, *mcp.VerifClientRetryConfig(cl), c.Script, c.RetryAfter, k+1, k+2, d, want)
			}
		}
	}
	where := fmt.Sprintf("kind=%d retry=%v(simple=%v) cfg=%+v script=%v body=%q: peer saw %d attempts of %s, call error: %v", c.Kind, c.Retry, c.Simple, v, c.Script, c.Body, got, method, callErr)
	if !c.Retry {
		if got != 1 {
			return Failf("C17/retry-without-option", "%s; without a retry option every request is sent exactly once", where)
		}
		return nil
	}
	if got > v.MaxRetries+1 {
		return Failf("C17/too-many-attempts", "%s", where)
	}
	want := 0
	for i := 0; ; i++ {
		want++
		tr, named := transientOutcome(outcomeAt(i))
		if !named {
			want = -1
			break
		}
		if !tr || want == v.MaxRetries+1 {
			break
		}
	}
	if want >= 0 && got != want {
		key := "C17/missing-retry"
		if got < want && outcomeAt(got-1) == "599" {
			key = "C17/5xx-above-511-not-retried"
		}
		if got > want {
			key = "C17/unexpected-retry"
			if c.Kind == 1 && c.Body != "scripted status" && c.Body != "" && c.Body != "ok" {
				key = "C17/sse-client-body-in-error-text"
			}
		}
		return Failf(key, "%s; the reference model makes %d attempts", where, want)
	}
	last := outcomeAt(got - 1)
	if last == "ok" && callErr != nil {
		return Failf("C17/success-reported-as-failure", "%s", where)
	}
	if last != "ok" && callErr == nil {
		return Failf("C17/failure-reported-as-success", "%s", where)
	}
	return nil
}

type statusBody struct {
	f          *FakeServer
	body       string
	failGets   int
	gets       atomic.Int64
	retryAfter string
	json       bool
}

func (s *statusBody) ServeHTTP(w http.ResponseWriter, r *http.Request) {
	if r.Method == http.MethodGet {
		if n := int(s.gets.Add(1)); n <= s.failGets {
			http.Error(w, "scripted status", http.StatusServiceUnavailable)
			return
		}
	}
	s.f.ServeHTTP(&bodyRewriter{ResponseWriter: w, body: s.body, retryAfter: s.retryAfter, json: s.json}, r)
}

// bodyRewriter replaces the body of error statuses by a scripted text.
type bodyRewriter struct {
	http.ResponseWriter
	body       string
	status     int
	done       bool
	retryAfter string
	json       bool
}

func (b *bodyRewriter) WriteHeader(code int) {
	b.status = code
	if code >= 400 && b.retryAfter != "" {
		b.Header().Set("Retry-After", b.retryAfter)
	}
	if code >= 400 && b.json {
		b.Header().Set("Content-Type", "application/json")
	}
	b.ResponseWriter.WriteHeader(code)
}

func (b *bodyRewriter) Write(p []byte) (int, error) {
	if b.status >= 400 {
		if !b.done {
			b.done = true
			io.WriteString(b.ResponseWriter, b.body)
		}
		return len(p), nil
	}
	return b.ResponseWriter.Write(p)
}

func (b *bodyRewriter) Flush() {
	if f, ok := b.ResponseWriter.(http.Flusher); ok {
		f.Flush()
	}
}

func TestC17E2E(t *testing.T) {
	RunProp(t, Prop[C17E2ECase]{ID: "C17", Gen: genC17E2E, Exec: execC17E2E, NT: ntC17E2E})
}

var _ = strings.Contains
