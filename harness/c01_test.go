package harness

import (
	"context"
	"encoding/json"
	"fmt"
	"math"
	"net"
	"net/http"
	"net/http/httptest"
	"runtime"
	"sort"
	"strings"
	"sync"
	"testing"
	"time"

	"pgregory.net/rapid"
	mcp "trpc.group/trpc-go/trpc-mcp-go"
)

// C01: every call gets exactly one answer, and it is its own.

type C01Case struct {
	Mode     Mode     `json:"mode"`
	Layer    string   `json:"layer"`   // "lib": the library's clients through the public API; "raw": reference peers choosing the ids
	Clients  int      `json:"clients"` // concurrent clients / sessions
	InFlight int      `json:"inflight"`
	Rounds   int      `json:"rounds"`
	Sizes    []int    `json:"sizes"`   // response padding per call (cycled)
	Latency  []int    `json:"latency"` // handler latency class per call (cycled): 0 none, 1 Gosched, 2..: k*100us
	IDs      []string `json:"ids"`     // raw layer: compact JSON ids (cycled, made unique per session with a suffix where needed)
	Real     bool     `json:"real"`
	Fails    []bool   `json:"fails"`            // per call (cycled): the handler fails with an error that embeds the request's nonce
	Lists    bool     `json:"lists,omitempty"`  // lib layer: every fourth in-flight slot is a tools/list or prompts/list instead of a call
	Unenc    []bool   `json:"unenc,omitempty"`  // per call (cycled): the handler returns a result that cannot be encoded (the call ends with an error, promptly)
	IDBase   int64    `json:"idbase,omitempty"` // lib layer: the client has already issued this many requests (its id counter starts here)
	Pads     []int    `json:"pads,omitempty"`   // per call (cycled): bytes of padding in the request's arguments (requests larger than a read buffer)
}

// counter positions of a long-lived client: around 10^6 (where %v starts to print a float64 with an exponent), 2^31, 2^32 and below 2^53
var c01IDBases = []int64{0, 0, 0, 999990, 999999, 1000000, 123456789, 1<<31 - 20, 1<<32 - 20, 99999999999999, 1<<53 - 2000}

var c01IDPool = []string{`1`, `"1"`, `0`, `""`, `-7`, `2147483648`, `9007199254740991`, `9007199254740992`, `"a"`, `"id-é"`, `"💥"`, `"x y"`, `"%d"`, `"1e3"`, `1000000`, `12345678`, `"null"`, `"true"`, `"a\ndata: x"`, `"x\r\ny"`, `"a\n\nb"`}

func genC01(t *rapid.T) C01Case {
	c := C01Case{Mode: Mode(rapid.IntRange(0, int(NumModes)-1).Draw(t, "mode")), Layer: rapid.SampledFrom([]string{"lib", "raw"}).Draw(t, "layer")}
	c.Clients = rapid.IntRange(1, 4).Draw(t, "clients")
	c.InFlight = rapid.IntRange(1, 32).Draw(t, "inflight")
	if rapid.IntRange(0, 14).Draw(t, "burst") == 14 {
		c.InFlight = rapid.SampledFrom([]int{120, 300}).Draw(t, "burstsize") // more answers outstanding than any internal queue holds
	}
	c.Rounds = rapid.IntRange(1, 3).Draw(t, "rounds")
	n := rapid.IntRange(1, 6).Draw(t, "nsizes")
	for i := 0; i < n; i++ {
		sz := rapid.SampledFrom([]int{0, 0, 10, 100, 5000, 70000, 150000}).Draw(t, "size")
		if c.InFlight > 32 && sz > 5000 {
			sz = 5000
		}
		c.Sizes = append(c.Sizes, sz)
	}
	n = rapid.IntRange(1, 5).Draw(t, "nlat")
	for i := 0; i < n; i++ {
		c.Latency = append(c.Latency, rapid.IntRange(0, 6).Draw(t, "lat"))
	}
	if rapid.IntRange(0, 2).Draw(t, "pads?") == 0 {
		n = rapid.IntRange(1, 4).Draw(t, "npads")
		for i := 0; i < n; i++ {
			pad := rapid.SampledFrom([]int{0, 3000, 4096, 9000, 70000, 300000}).Draw(t, "pad")
			if c.InFlight > 32 && pad > 9000 {
				pad = 9000
			}
			c.Pads = append(c.Pads, pad)
		}
	}
	n = rapid.IntRange(1, 8).Draw(t, "nids")
	for i := 0; i < n; i++ {
		c.IDs = append(c.IDs, rapid.SampledFrom(c01IDPool).Draw(t, "id"))
	}
	c.Real = rapid.IntRange(0, 9).Draw(t, "real") == 0
	n = rapid.IntRange(1, 5).Draw(t, "nfails")
	for i := 0; i < n; i++ {
		c.Fails = append(c.Fails, rapid.IntRange(0, 2).Draw(t, "fail") == 2)
	}
	c.Lists = rapid.Bool().Draw(t, "lists")
	n = rapid.IntRange(1, 5).Draw(t, "nunenc")
	for i := 0; i < n; i++ {
		c.Unenc = append(c.Unenc, rapid.IntRange(0, 5).Draw(t, "unenc") == 5)
	}
	c.IDBase = rapid.SampledFrom(c01IDBases).Draw(t, "idbase")
	if c.Mode == ModeStdio && c.Layer == "lib" {
		c.Clients = 1 // one child per client; keep the process count down
		if rapid.Bool().Draw(t, "stdioclients") {
			c.Clients = 2
		}
	}
	return c
}

func ntC01(c C01Case) (bool, []string) {
	l := []string{"mode=" + c.Mode.String(), "layer=" + c.Layer}
	if c.Layer == "lib" {
		l = append(l, fmt.Sprintf("idbase=%d", c.IDBase))
	}
	return c.InFlight >= 2 || c.Clients >= 2, l
}

// c01Answer: what a call with this nonce and size is answered with. Answers of 100 and 5000 bytes are padded with words the
// protocol itself uses (an answer is told from an error, a request or a notification by its members, not by its text).
func c01Answer(nonce string, size int) string {
	if size == 100 || size == 5000 {
		const words = `"error":{"code":-32603,"message":"x"} "method":"ping" "id":1 "result":null `
		return "f(" + nonce + ")|" + strings.Repeat(words, size/len(words)+1)[:size]
	}
	return "f(" + nonce + ")|" + strings.Repeat("p", size)
}

// c01Server registers the echo tool whose answer is computed from the request's own arguments.
func c01Register(w *World, r Registrar) {
	r.RegisterTool(mcp.NewTool("echo", mcp.WithString("nonce"), mcp.WithNumber("size"), mcp.WithNumber("lat"), mcp.WithString("pad")), func(ctx context.Context, req *mcp.CallToolRequest) (*mcp.CallToolResult, error) {
		n := w.InFly.Add(1)
		for {
			m := w.MaxFly.Load()
			if n <= m || w.MaxFly.CompareAndSwap(m, n) {
				break
			}
		}
		defer w.InFly.Add(-1)
		nonce, _ := req.Params.Arguments["nonce"].(string)
		size, _ := req.Params.Arguments["size"].(float64)
		lat, _ := req.Params.Arguments["lat"].(float64)
		w.count("echo:" + nonce)
		switch {
		case lat == 1:
			runtime.Gosched()
		case lat >= 2:
			// a handler that honours its context, as handlers should: nobody has a reason to end it (the peers stay connected)
			select {
			case <-time.After(time.Duration(lat) * 100 * time.Microsecond):
			case <-ctx.Done():
				return nil, fmt.Errorf("the context of call %s ended under its handler: %w", nonce, ctx.Err())
			}
			if ctx.Err() != nil {
				return nil, fmt.Errorf("the context of call %s ended under its handler: %w", nonce, ctx.Err())
			}
		}
		if fail, _ := req.Params.Arguments["fail"].(bool); fail {
			return nil, fmt.Errorf("failed:%s", c01Answer(nonce, int(size)))
		}
		if unenc, _ := req.Params.Arguments["unenc"].(bool); unenc {
			return &mcp.CallToolResult{Content: []mcp.Content{mcp.NewTextContent(c01Answer(nonce, int(size)))}, StructuredContent: map[string]interface{}{"v": math.NaN()}}, nil
		}
		res := mcp.NewTextResult(c01Answer(nonce, int(size)))
		if int(size) == 10 {
			// structured output whose members are named like the envelope's
			res.StructuredContent = map[string]interface{}{"error": nonce, "result": nil, "method": "x", "id": 1, "jsonrpc": "1.0"}
		}
		return res, nil
	})
	r.RegisterPrompt(&mcp.Prompt{Name: "echo", Arguments: []mcp.PromptArgument{{Name: "nonce"}, {Name: "size"}}}, func(ctx context.Context, req *mcp.GetPromptRequest) (*mcp.GetPromptResult, error) {
		nonce := req.Params.Arguments["nonce"]
		size := 0
		fmt.Sscanf(req.Params.Arguments["size"], "%d", &size)
		w.count("echo:" + nonce)
		return &mcp.GetPromptResult{Messages: []mcp.PromptMessage{{Role: mcp.RoleUser, Content: mcp.NewTextContent(c01Answer(nonce, size))}}}, nil
	})
	r.RegisterTool(mcp.NewTool("__counts"), func(ctx context.Context, req *mcp.CallToolRequest) (*mcp.CallToolResult, error) {
		w.callMu.Lock()
		b, _ := json.Marshal(w.Calls)
		w.callMu.Unlock()
		return mcp.NewTextResult(string(b)), nil
	})
}

func serverOf(w *World) interface{} {
	switch {
	case w.Srv != nil:
		return w.Srv
	case w.SSE != nil:
		return w.SSE
	}
	return w.Stdio
}

func execC01(c C01Case) *Failure {
	if c.Layer == "raw" {
		return execC01Raw(c)
	}
	return execC01Lib(c)
}

func execC01Lib(c C01Case) *Failure {
	w := NewWorld(c.Mode, RegSpec{}, WorldOpt{})
	defer w.Close()
	c01Register(w, RegistrarOf(serverOf(w)))
	var clients []*libClient
	for i := 0; i < c.Clients; i++ {
		lc, err := w.ConnectLib(c.Real, &ChildSpec{Role: "c01"})
		if err != nil {
			return Failf("C01/connect", "%s: %v", c.Mode, err)
		}
		defer lc.Close()
		if c.IDBase != 0 {
			mcp.VerifSetRequestCounter(lc.C, c.IDBase)
		}
		clients = append(clients, lc)
	}
	type result struct {
		nonce  string
		size   int
		text   string
		err    error
		n      int
		fail   bool
		list   bool
		unenc  bool
		noargs bool
	}
	var mu sync.Mutex
	var results []result
	seq := 0
	for round := 0; round < c.Rounds; round++ {
		var wg sync.WaitGroup
		for ci, lc := range clients {
			for k := 0; k < c.InFlight; k++ {
				seq++
				nonce := fmt.Sprintf("c%dr%dk%d", ci, round, k)
				size := c.Sizes[seq%len(c.Sizes)]
				lat := c.Latency[seq%len(c.Latency)]
				fail := len(c.Fails) > 0 && c.Fails[seq%len(c.Fails)]
				if fail && size > 5000 {
					size = 100
				}
				unenc := !fail && len(c.Unenc) > 0 && c.Unenc[seq%len(c.Unenc)]
				wg.Add(1)
				go func(lc *libClient) {
					defer wg.Done()
					ctx, cancel := context.WithTimeout(context.Background(), 15*time.Second)
					defer cancel()
					if c.Lists && k%4 == 3 {
						// requests of another kind in flight next to the calls: the list is the server's, never a call's answer
						r := result{nonce: nonce, list: true}
						var names []string
						if (k/4)%2 == 0 {
							lres, err := lc.C.ListTools(ctx, &mcp.ListToolsRequest{})
							r.err = err
							if err == nil {
								for _, t := range lres.Tools {
									names = append(names, t.Name)
								}
							}
							r.size = 2
						} else {
							lres, err := lc.C.ListPrompts(ctx, &mcp.ListPromptsRequest{})
							r.err = err
							if err == nil {
								for _, p := range lres.Prompts {
									names = append(names, p.Name)
								}
							}
							r.size = 1
						}
						sort.Strings(names)
						r.text = strings.Join(names, ",")
						mu.Lock()
						results = append(results, r)
						mu.Unlock()
						return
					}
					if !fail && !unenc && len(nonce)%3 == 0 {
						// the same property through prompts/get
						preq := &mcp.GetPromptRequest{}
						preq.Params.Name = "echo"
						preq.Params.Arguments = map[string]string{"nonce": nonce, "size": fmt.Sprint(size)}
						pres, err := lc.C.GetPrompt(ctx, preq)
						r := result{nonce: nonce, size: size, err: err}
						if err == nil && len(pres.Messages) == 1 {
							r.n = 1
							if tc, ok := pres.Messages[0].Content.(mcp.TextContent); ok {
								r.text = tc.Text
							}
						}
						mu.Lock()
						results = append(results, r)
						mu.Unlock()
						return
					}
					req := &mcp.CallToolRequest{}
					req.Params.Name = "echo"
					req.Params.Arguments = map[string]interface{}{"nonce": nonce, "size": size, "lat": lat, "fail": fail, "unenc": unenc}
					if len(c.Pads) > 0 && c.Pads[k%len(c.Pads)] > 0 {
						req.Params.Arguments["pad"] = strings.Repeat("p ", c.Pads[k%len(c.Pads)]/2)
					}
					noargs := !fail && !unenc && k%5 == 2
					if noargs {
						// a call that carries no arguments at all is answered from no arguments (not from what an earlier call left behind)
						req.Params.Arguments = nil
					}
					res, err := lc.C.CallTool(ctx, req)
					r := result{nonce: nonce, size: size, err: err, fail: fail, unenc: unenc, noargs: noargs}
					if err == nil {
						r.n = len(res.Content)
						if len(res.Content) == 1 {
							if tc, ok := res.Content[0].(mcp.TextContent); ok {
								r.text = tc.Text
							}
						}
					}
					mu.Lock()
					results = append(results, r)
					mu.Unlock()
				}(lc)
			}
		}
		wg.Wait()
	}
	where := fmt.Sprintf("%s lib clients=%d inflight=%d rounds=%d ids from %d (max handler concurrency %d)", c.Mode, c.Clients, c.InFlight, c.Rounds, c.IDBase+1, w.MaxFly.Load())
	for _, r := range results {
		if r.list {
			want := map[int]string{2: "__counts,echo", 1: "echo"}[r.size]
			if r.err != nil {
				f := Failf("C01/lib/call-failed/"+c.Mode.String(), "%s: list request %s failed while the connection was up: %v", where, r.nonce, r.err)
				if isTimeoutText(r.err.Error()) {
					f.Timing = true
					f.Key = "C01/lib/no-answer/" + c.Mode.String()
				}
				return f
			}
			if r.text != want {
				return Failf("C01/lib/foreign-answer/"+c.Mode.String(), "%s: list request %s received [%s], the server's list is [%s]", where, r.nonce, r.text, want)
			}
			continue
		}
		if r.unenc {
			// the result cannot be encoded: the call ends with an error of its own (not with nothing, not with a value)
			if r.err == nil {
				return Failf("C01/lib/foreign-answer/"+c.Mode.String(), "%s: call %s whose result cannot be encoded received a result %.80q", where, r.nonce, r.text)
			}
			if isTimeoutText(r.err.Error()) || strings.Contains(r.err.Error(), "deadline") {
				return TimingFailf("C01/lib/no-answer/"+c.Mode.String(), "%s: call %s whose result cannot be encoded got no answer while the connection was up: %v", where, r.nonce, r.err)
			}
			continue
		}
		if r.fail {
			if r.err == nil {
				return Failf("C01/lib/foreign-answer/"+c.Mode.String(), "%s: call %s whose handler failed received a result %.80q", where, r.nonce, r.text)
			}
			if !strings.Contains(r.err.Error(), "failed:"+c01Answer(r.nonce, r.size)) {
				f := Failf("C01/lib/foreign-answer/"+c.Mode.String(), "%s: call %s received the error %.200q, its own handler failed with %.80q", where, r.nonce, r.err.Error(), "failed:"+c01Answer(r.nonce, r.size))
				if strings.Contains(r.err.Error(), "deadline") || strings.Contains(r.err.Error(), "timeout") {
					f.Timing = true
					f.Key = "C01/lib/no-answer/" + c.Mode.String()
				}
				return f
			}
			continue
		}
		if r.err != nil {
			f := Failf("C01/lib/call-failed/"+c.Mode.String(), "%s: call %s (answer size %d) failed while the connection was up: %v", where, r.nonce, r.size, r.err)
			if strings.Contains(r.err.Error(), "deadline") || strings.Contains(r.err.Error(), "timeout") {
				f.Timing = true
				f.Key = "C01/lib/no-answer/" + c.Mode.String()
			}
			return f
		}
		if r.noargs {
			if r.text != c01Answer("", 0) {
				return Failf("C01/lib/foreign-answer/"+c.Mode.String(), "%s: call %s, sent without arguments, received %.80q; a handler given no arguments answers %q", where, r.nonce, r.text, c01Answer("", 0))
			}
			continue
		}
		if r.text != c01Answer(r.nonce, r.size) {
			return Failf("C01/lib/foreign-answer/"+c.Mode.String(), "%s: call %s received %.80q (%d bytes, %d items), its own answer is %.80q (%d bytes)", where, r.nonce, r.text, len(r.text), r.n, c01Answer(r.nonce, r.size), len(c01Answer(r.nonce, r.size)))
		}
	}
	// the handler ran exactly once per request
	counts := map[string]int{}
	if c.Mode == ModeStdio {
		// each child keeps its own counters
		for _, lc := range clients {
			ctx, cancel := context.WithTimeout(context.Background(), 10*time.Second)
			req := &mcp.CallToolRequest{}
			req.Params.Name = "__counts"
			res, err := lc.C.CallTool(ctx, req)
			cancel()
			if err != nil || len(res.Content) != 1 {
				return Failf("C01/lib/counts", "%s: %v", where, err)
			}
			var m map[string]int
			json.Unmarshal([]byte(res.Content[0].(mcp.TextContent).Text), &m)
			for k, v := range m {
				counts[k] += v
			}
		}
	} else {
		w.callMu.Lock()
		for k, v := range w.Calls {
			counts[k] = v
		}
		w.callMu.Unlock()
	}
	for _, r := range results {
		if r.list || r.noargs {
			continue
		}
		if n := counts["echo:"+r.nonce]; n != 1 {
			return Failf("C01/lib/handler-runs/"+c.Mode.String(), "%s: the handler ran %d times for request %s", where, n, r.nonce)
		}
	}
	return nil
}

func execC01Raw(c C01Case) *Failure {
	w := NewWorld(c.Mode, RegSpec{}, WorldOpt{})
	defer w.Close()
	c01Register(w, RegistrarOf(serverOf(w)))
	type sent struct {
		id    string
		nonce string
		size  int
		raw   []byte
		fail  bool
	}
	var conns []*Conn
	for i := 0; i < c.Clients; i++ {
		cn, err := w.Connect()
		if err != nil {
			return Failf("C01/connect", "%s: %v", c.Mode, err)
		}
		defer cn.Close()
		conns = append(conns, cn)
	}
	seq := 0
	for round := 0; round < c.Rounds; round++ {
		plan := make([][]sent, len(conns))
		for ci := range conns {
			used := map[string]bool{}
			for k := 0; k < c.InFlight; k++ {
				seq++
				id := c.IDs[seq%len(c.IDs)]
				for n := 0; used[id]; n++ { // ids are unique among the requests in flight on one session
					if strings.HasPrefix(id, `"`) {
						id = fmt.Sprintf(`"%s~%d"`, strings.Trim(id, `"`), n)
					} else {
						id = fmt.Sprintf("%d", 100000+seq*7+n)
					}
				}
				used[id] = true
				nonce := fmt.Sprintf("c%dr%dk%d", ci, round, k)
				size := c.Sizes[seq%len(c.Sizes)]
				lat := c.Latency[seq%len(c.Latency)]
				fail := len(c.Fails) > 0 && c.Fails[seq%len(c.Fails)]
				rawArgs := map[string]interface{}{"nonce": nonce, "size": size, "lat": lat, "fail": fail}
				if len(c.Pads) > 0 && c.Pads[seq%len(c.Pads)] > 0 {
					rawArgs["pad"] = strings.Repeat("p ", c.Pads[seq%len(c.Pads)]/2)
				}
				raw, _ := json.Marshal(map[string]interface{}{"jsonrpc": "2.0", "id": json.RawMessage(id), "method": "tools/call",
					"params": map[string]interface{}{"name": "echo", "arguments": rawArgs}})
				plan[ci] = append(plan[ci], sent{id: id, nonce: nonce, size: size, raw: raw, fail: fail})
			}
		}
		// fire everything concurrently
		frames := make([][][]byte, len(conns))
		var fmu sync.Mutex
		var wg sync.WaitGroup
		for ci, cn := range conns {
			switch {
			case c.Mode.IsStreamable():
				for _, s := range plan[ci] {
					wg.Add(1)
					go func(ci int, cn *Conn, s sent) {
						defer wg.Done()
						ex := cn.Send(s.raw, s.id, Bound())
						fmu.Lock()
						frames[ci] = append(frames[ci], ex.Frames...)
						fmu.Unlock()
					}(ci, cn, s)
				}
			case c.Mode == ModeLegacy:
				for _, s := range plan[ci] {
					wg.Add(1)
					go func(cn *Conn, s sent) {
						defer wg.Done()
						w.peer.Do("POST", cn.endpoint, map[string]string{"Content-Type": "application/json"}, s.raw, 10*time.Second)
					}(cn, s)
				}
			default:
				wg.Add(1)
				go func(cn *Conn, list []sent) {
					defer wg.Done()
					var buf []byte
					for _, s := range list {
						buf = append(append(buf, s.raw...), '\n')
					}
					cn.in.Write(buf)
				}(cn, plan[ci])
			}
		}
		wg.Wait()
		// collect asynchronous answers
		for ci, cn := range conns {
			want := len(plan[ci])
			switch {
			case c.Mode == ModeLegacy:
				cn.stream.WaitEvents(cn.seen+want, Patience())
				cn.stream.WaitQuiet(4*time.Millisecond, 100*time.Millisecond)
				evs := cn.stream.Events()
				for _, e := range evs[cn.seen:] {
					frames[ci] = append(frames[ci], []byte(e.Data))
				}
				cn.seen = len(evs)
			case c.Mode == ModeStdio:
				cn.out.WaitLines(cn.lines+want, Patience())
				cn.out.WaitQuiet(4*time.Millisecond, 100*time.Millisecond)
				all, _ := SplitStdioLines(cn.out.Bytes())
				frames[ci] = append(frames[ci], all[cn.lines:]...)
				cn.lines = len(all)
			}
		}
		where := fmt.Sprintf("%s raw sessions=%d inflight=%d round %d (max handler concurrency %d)", c.Mode, c.Clients, c.InFlight, round, w.MaxFly.Load())
		for ci := range conns {
			byID := map[string][]map[string]interface{}{}
			for _, fr := range frames[ci] {
				v, err := DecodeJSON(fr)
				m, _ := v.(map[string]interface{})
				if err != nil || m == nil {
					return Failf("C01/raw/bad-frame", "%s: session %d received %.120q", where, ci, fr)
				}
				matched := false
				for _, s := range plan[ci] {
					if sameID(s.id, m["id"]) {
						byID[s.id] = append(byID[s.id], m)
						matched = true
						break
					}
				}
				if !matched {
					return Failf("C01/raw/unknown-id/"+c.Mode.String(), "%s: session %d received a response under id %v (%.120s) that matches none of its requests %v", where, ci, m["id"], fr, idsOf(plan[ci]))
				}
			}
			for _, s := range plan[ci] {
				got := byID[s.id]
				if len(got) == 0 {
					return TimingFailf("C01/raw/no-answer/"+c.Mode.String(), "%s: session %d: request id %s (nonce %s) got no answer although the connection is up (handler ran %d times)", where, ci, s.id, s.nonce, w.CallCount("echo:"+s.nonce))
				}
				if len(got) > 1 {
					return Failf("C01/raw/duplicate-answer/"+c.Mode.String(), "%s: session %d: request id %s answered %d times", where, ci, s.id, len(got))
				}
				res, _ := got[0]["result"].(map[string]interface{})
				items, _ := res["content"].([]interface{})
				text := ""
				if len(items) == 1 {
					it, _ := items[0].(map[string]interface{})
					text, _ = it["text"].(string)
				}
				if s.fail {
					e, _ := got[0]["error"].(map[string]interface{})
					msg, _ := e["message"].(string)
					if !strings.Contains(msg, "failed:"+c01Answer(s.nonce, s.size)) {
						return Failf("C01/raw/foreign-answer/"+c.Mode.String(), "%s: session %d: the error under id %s says %.120q, the request's own handler failed with %.80q", where, ci, s.id, msg, "failed:"+c01Answer(s.nonce, s.size))
					}
				} else if text != c01Answer(s.nonce, s.size) {
					return Failf("C01/raw/foreign-answer/"+c.Mode.String(), "%s: session %d: the answer under id %s carries %.80q, the request's own answer is %.80q", where, ci, s.id, text, c01Answer(s.nonce, s.size))
				}
				if n := w.CallCount("echo:" + s.nonce); n != 1 {
					return Failf("C01/raw/handler-runs/"+c.Mode.String(), "%s: the handler ran %d times for request %s", where, n, s.nonce)
				}
			}
		}
	}
	return nil
}

func idsOf[S any](l []S) string { return fmt.Sprintf("%d requests", len(l)) }

func TestC01(t *testing.T) {
	RunProp(t, Prop[C01Case]{ID: "C01", Gen: genC01, Exec: execC01, NT: ntC01})
}

// ---------------------------------------------------------------------------
// C01Fault: the handler runs exactly once per request, also when the connection that carried the request dies after the
// server has processed it. The library's HTTP clients talk over real loopback TCP (net/http's own transport with
// keep-alive connections, which may replay requests it considers safe to replay) to a library server behind a front
// that, for the calls the Case marks, lets the real handler run to completion and then kills the connection at a drawn
// point of the response. Without a retry option nothing may be sent twice: every handler counter is exactly 1, and the
// call that lost its connection ends with an error or with its own answer.

type C01FaultCase struct {
	Mode  Mode  `json:"mode"`  // a Streamable mode or legacy SSE
	Calls []int `json:"calls"` // per call: 0 undisturbed, 1 close before any response byte, 2 reset before any byte, 3 close after the status line, 4 close inside the body
	Conc  int   `json:"conc"`  // calls issued at once (1 = sequential: the next call re-uses the idle connection)
}

func execC01Fault(c C01FaultCase) *Failure {
	w := NewWorld(c.Mode, RegSpec{}, WorldOpt{})
	defer w.Close()
	c01Register(w, RegistrarOf(serverOf(w)))
	var inner http.Handler
	path := "/mcp"
	if c.Mode.IsStreamable() {
		inner = w.Srv.Handler()
	} else {
		inner = http.HandlerFunc(w.SSE.ServeHTTP)
		path = "/sse"
	}
	var killMu sync.Mutex
	kill := map[string]int{}
	front := http.HandlerFunc(func(rw http.ResponseWriter, r *http.Request) {
		if r.Method != http.MethodPost {
			inner.ServeHTTP(rw, r)
			return
		}
		body, _ := readAllAndRestore(r)
		how := 0
		var m struct {
			Params struct {
				Arguments struct {
					Nonce string `json:"nonce"`
				} `json:"arguments"`
			} `json:"params"`
		}
		if json.Unmarshal(body, &m) == nil && m.Params.Arguments.Nonce != "" {
			killMu.Lock()
			how = kill[m.Params.Arguments.Nonce]
			killMu.Unlock()
		}
		if how == 0 {
			inner.ServeHTTP(rw, r)
			return
		}
		rec := httptest.NewRecorder()
		inner.ServeHTTP(rec, r) // the request is processed completely ...
		hj, ok := rw.(http.Hijacker)
		if !ok {
			return
		}
		conn, _, err := hj.Hijack() // ... and the connection dies before / while the answer goes out
		if err != nil {
			return
		}
		switch how {
		case 2:
			if tc, ok := conn.(*net.TCPConn); ok {
				tc.SetLinger(0)
			}
		case 3:
			fmt.Fprintf(conn, "HTTP/1.1 %d OK\r\n", rec.Code)
		case 4:
			b := rec.Body.Bytes()
			fmt.Fprintf(conn, "HTTP/1.1 %d OK\r\nContent-Type: %s\r\nContent-Length: %d\r\n\r\n", rec.Code, rec.Header().Get("Content-Type"), len(b)+10)
			conn.Write(b[:len(b)/2])
		}
		conn.Close()
	})
	ts := ServeTCP(front)
	defer ts.Close()
	info := mcp.Implementation{Name: "verif-lib-client", Version: "1"}
	var cl *mcp.Client
	var err error
	if c.Mode.IsStreamable() {
		cl, err = mcp.NewClient(ts.URL+path, info, mcp.WithClientLogger(nopLogger{}), mcp.WithClientGetSSEEnabled(false))
	} else {
		cl, err = mcp.NewSSEClient(ts.URL+path, info, mcp.WithClientLogger(nopLogger{}))
	}
	if err != nil {
		return Failf("C01/connect", "%s: %v", c.Mode, err)
	}
	defer cl.Close()
	ictx, icancel := context.WithTimeout(context.Background(), 20*time.Second)
	_, err = cl.Initialize(ictx, &mcp.InitializeRequest{})
	icancel()
	if err != nil {
		return Failf("C01/connect", "%s: initialize: %v", c.Mode, err)
	}
	type outcome struct {
		nonce string
		how   int
		text  string
		err   error
	}
	outs := make([]outcome, len(c.Calls))
	conc := c.Conc
	if conc < 1 {
		conc = 1
	}
	for base := 0; base < len(c.Calls); base += conc {
		var wg sync.WaitGroup
		for i := base; i < base+conc && i < len(c.Calls); i++ {
			nonce := fmt.Sprintf("f%d", i)
			outs[i] = outcome{nonce: nonce, how: c.Calls[i]}
			killMu.Lock()
			kill[nonce] = c.Calls[i]
			killMu.Unlock()
			wg.Add(1)
			go func(i int) {
				defer wg.Done()
				// a killed legacy-SSE POST has no answer to wait for once the POST failed; bound the wait for the others
				ctx, cancel := context.WithTimeout(context.Background(), 10*time.Second)
				defer cancel()
				req := &mcp.CallToolRequest{}
				req.Params.Name = "echo"
				req.Params.Arguments = map[string]interface{}{"nonce": nonce, "size": 10, "lat": 0}
				res, err := cl.CallTool(ctx, req)
				outs[i].err = err
				if err == nil && len(res.Content) == 1 {
					if tc, ok := res.Content[0].(mcp.TextContent); ok {
						outs[i].text = tc.Text
					}
				}
			}(i)
		}
		wg.Wait()
	}
	where := fmt.Sprintf("%s over TCP, calls %v, %d at once", c.Mode, c.Calls, conc)
	if c.Mode == ModeLegacy {
		time.Sleep(30 * time.Millisecond) // the legacy server runs handlers after it has acknowledged the POST
	}
	w.callMu.Lock()
	counts := map[string]int{}
	for k, v := range w.Calls {
		counts[k] = v
	}
	w.callMu.Unlock()
	for _, o := range outs {
		// a call whose connection died may or may not have reached its handler (the legacy server works after acknowledging);
		// what the statement rules out is a second run
		if n := counts["echo:"+o.nonce]; n > 1 || (n != 1 && (o.how == 0 || c.Mode != ModeLegacy)) {
			return Failf("C01/fault/handler-runs/"+c.Mode.String(), "%s: the handler ran %d times for call %s (connection fault kind %d after the server had processed it; outcome %q / %v)", where, n, o.nonce, o.how, o.text, o.err)
		}
		if o.err == nil && o.text != c01Answer(o.nonce, 10) {
			return Failf("C01/fault/foreign-answer/"+c.Mode.String(), "%s: call %s (fault kind %d) returned %.80q, its own answer is %.80q", where, o.nonce, o.how, o.text, c01Answer(o.nonce, 10))
		}
		if o.how == 0 && o.err != nil {
			f := Failf("C01/fault/call-failed/"+c.Mode.String(), "%s: undisturbed call %s failed: %v", where, o.nonce, o.err)
			f.Timing = isTimeoutText(o.err.Error())
			return f
		}
	}
	return nil
}

func TestC01Fault(t *testing.T) {
	RunProp(t, Prop[C01FaultCase]{ID: "C01",
		Gen: func(t *rapid.T) C01FaultCase {
			c := C01FaultCase{Mode: rapid.SampledFrom([]Mode{ModeSJ, ModeSS, ModeLJ, ModeLS, ModeNS, ModeLegacy}).Draw(t, "mode"), Conc: rapid.SampledFrom([]int{1, 1, 1, 2, 4}).Draw(t, "conc")}
			n := rapid.IntRange(1, 8).Draw(t, "ncalls")
			for i := 0; i < n; i++ {
				c.Calls = append(c.Calls, rapid.SampledFrom([]int{0, 0, 1, 2, 3, 4}).Draw(t, "how"))
			}
			return c
		},
		Exec: execC01Fault,
		NT: func(c C01FaultCase) (bool, []string) {
			nt := false
			l := []string{"mode=" + c.Mode.String()}
			for _, h := range c.Calls {
				if h != 0 {
					nt = true
				}
				l = append(l, fmt.Sprintf("fault=%d", h))
			}
			return nt, l
		}})
}
