package harness

import (
	"context"
	"encoding/json"
	"fmt"
	"os"
	"sort"
	"strings"
	"sync"
	"testing"
	"time"

	"pgregory.net/rapid"
	mcp "trpc.group/trpc-go/trpc-mcp-go"
)

// C11: a newer listening stream owns the session; an old one's exit never evicts it.

type C11Step struct {
	Op    string `json:"op"`              // open close send sendreq release
	Hold  string `json:"hold,omitempty"`  // open: the new handler is held at this yield point until released
	Gen   int    `json:"gen,omitempty"`   // close / release: which generation (mod number opened so far)
	HoldT bool   `json:"holdt,omitempty"` // open: this handler will also be held at its teardown ("get:woken", before it removes its registration) until released
	// LastID (open): "" no Last-Event-ID header; "sync" the id of the last event the peer has seen on the session's streams;
	// "behind" the id of an earlier event (or one the server never sent)
	LastID string `json:"lastid,omitempty"`
}

type C11Case struct {
	Steps []C11Step `json:"steps"`
}

var c11OpenHolds = []string{"", "", "", "get:headers-flushed", "get:registered"}

func genC11(t *rapid.T) C11Case {
	var c C11Case
	n := rapid.IntRange(2, 14).Draw(t, "nsteps")
	c.Steps = append(c.Steps, C11Step{Op: "open"})
	for i := 0; i < n; i++ {
		st := C11Step{Op: rapid.SampledFrom([]string{"open", "open", "send", "send", "send", "sendreq", "close", "release", "release", "sendheld", "releasesend", "race", "open2"}).Draw(t, "op")}
		switch st.Op {
		case "open":
			st.Hold = rapid.SampledFrom(c11OpenHolds).Draw(t, "hold")
			st.HoldT = rapid.IntRange(0, 2).Draw(t, "holdteardown") == 2
			st.LastID = rapid.SampledFrom([]string{"", "", "sync", "sync", "behind"}).Draw(t, "lastid")
		case "close":
			st.Gen = rapid.IntRange(0, 5).Draw(t, "gen")
		case "release":
			st.Gen = rapid.IntRange(0, 5).Draw(t, "rgen")
		}
		c.Steps = append(c.Steps, st)
	}
	return c
}

func ntC11(c C11Case) (bool, []string) {
	reopen, sendAfter := 0, false
	for _, s := range c.Steps {
		if s.Op == "open" {
			reopen++
		}
		if (s.Op == "send" || s.Op == "sendreq") && reopen >= 2 {
			sendAfter = true
		}
	}
	return reopen >= 2 && sendAfter, []string{fmt.Sprintf("opens=%d", reopen)}
}

var yieldMu sync.Mutex // the yield controller is process wide

type c11Gate struct {
	point   string
	reached chan struct{}
	release chan struct{}
	once    sync.Once
}

type c11Stream struct {
	lr       *LiveResp
	gen      int
	closed   bool // the peer closed it
	consumed int
	expect   []string
}

func execC11(c C11Case) *Failure {
	yieldMu.Lock()
	defer yieldMu.Unlock()
	w := NewWorld(ModeSJ, RegSpec{}, WorldOpt{})
	defer w.Close()
	conn, err := w.Connect()
	if err != nil {
		return Failf("C11/connect", "%v", err)
	}
	by, err := w.Connect() // a bystander session with its own stream
	if err != nil {
		return Failf("C11/connect", "%v", err)
	}
	h := w.Srv.Handler()
	var mu sync.Mutex
	gates := map[string][]*c11Gate{} // goroutine id -> gates to stop at
	var allGates []*c11Gate
	reached := map[string]bool{}
	mcp.VerifSetYield(func(point string) {
		g := goid()
		mu.Lock()
		var gate *c11Gate
		for _, x := range gates[g] {
			if x.point == point {
				gate = x
			}
		}
		reached[g+"|"+point] = true
		mu.Unlock()
		if gate != nil {
			gate.once.Do(func() { close(gate.reached) })
			<-gate.release
		}
	})
	defer func() {
		mcp.VerifSetYield(nil)
		for _, g := range allGates {
			select {
			case <-g.release:
			default:
				close(g.release)
			}
		}
	}()
	byStream := StartLive(h, "GET", "http://verif/mcp", map[string]string{"Accept": "text/event-stream", "Mcp-Session-Id": by.SessionID}, nil, nil)
	defer byStream.PeerGone()
	byStream.WaitFlushedHeader(2 * time.Second)

	var streams []*c11Stream
	gateOf := map[int]*c11Gate{} // open-phase gate currently holding generation k
	tearOf := map[int]*c11Gate{} // teardown gate of generation k
	defer func() {
		for _, s := range streams {
			s.lr.PeerGone()
		}
	}()
	// owner: the newest stream whose headers the peer has received and which the peer has not closed
	owner := func() *c11Stream {
		for i := len(streams) - 1; i >= 0; i-- {
			if !streams[i].closed {
				return streams[i]
			}
			return nil // the newest stream was closed by the peer: nobody owns the session until a new GET
		}
		return nil
	}
	releaseGate := func(g *c11Gate) {
		select {
		case <-g.release:
		default:
			close(g.release)
		}
	}
	seq := 0
	var heldSend *c11Gate
	var heldDone chan error
	var heldNonce string
	var heldOwner *c11Stream
	for si, st := range c.Steps {
		where := fmt.Sprintf("step %d %+v (history %s)", si, st, c11History(c.Steps[:si+1]))
		switch st.Op {
		case "open":
			gen := len(streams)
			var gate, tgate *c11Gate
			if st.Hold != "" {
				gate = &c11Gate{point: st.Hold, reached: make(chan struct{}), release: make(chan struct{})}
				allGates = append(allGates, gate)
			}
			if st.HoldT {
				tgate = &c11Gate{point: "get:woken", reached: make(chan struct{}), release: make(chan struct{})}
				allGates = append(allGates, tgate)
				tearOf[gen] = tgate
			}
			openHdr := map[string]string{"Accept": "text/event-stream", "Mcp-Session-Id": conn.SessionID}
			if st.LastID != "" {
				// the ids of all events seen so far on this session's streams, oldest first
				var ids []string
				for _, os := range streams {
					for _, e := range os.lr.Events() {
						if e.HasID && e.ID != "" {
							ids = append(ids, e.ID)
						}
					}
				}
				switch {
				case st.LastID == "sync" && len(ids) > 0:
					openHdr["Last-Event-Id"] = ids[len(ids)-1]
				case st.LastID == "behind" && len(ids) > 1:
					openHdr["Last-Event-Id"] = ids[0]
				case st.LastID == "behind":
					openHdr["Last-Event-Id"] = "evt-1-1"
				}
			}
			lr := StartLiveHook(h, "GET", "http://verif/mcp", openHdr, func() {
				mu.Lock()
				for _, g := range []*c11Gate{gate, tgate} {
					if g != nil {
						gates[goid()] = append(gates[goid()], g)
					}
				}
				mu.Unlock()
			})
			if !lr.WaitFlushedHeader(Patience()) || lr.Returned() {
				return TimingFailf("C11/stream-not-opened", "%s: the GET did not deliver response headers", where)
			}
			if gate != nil {
				select {
				case <-gate.reached:
				case <-time.After(Patience()):
					return TimingFailf("C11/gate-not-reached", "%s: handler did not reach %s", where, st.Hold)
				}
				gateOf[gen] = gate
			} else {
				// an unheld handler registers on its own; wait until it has (bounded: registration follows the flush immediately)
				deadline := time.Now().Add(2 * time.Second)
				for time.Now().Before(deadline) {
					mu.Lock()
					ok := reached[lr.HandlerGoid()+"|get:registered"]
					mu.Unlock()
					if ok {
						break
					}
					time.Sleep(50 * time.Microsecond)
				}
			}
			streams = append(streams, &c11Stream{lr: lr, gen: gen})
		case "release":
			if len(streams) == 0 {
				continue
			}
			gen := st.Gen % len(streams)
			if g, ok := gateOf[gen]; ok {
				releaseGate(g)
				delete(gateOf, gen)
				time.Sleep(300 * time.Microsecond)
			} else if g, ok := tearOf[gen]; ok {
				releaseGate(g)
				delete(tearOf, gen)
				time.Sleep(300 * time.Microsecond)
			}
		case "close":
			if len(streams) == 0 {
				continue
			}
			s := streams[st.Gen%len(streams)]
			if s.closed {
				continue
			}
			if g, ok := gateOf[s.gen]; ok { // a held handler must be released before its peer can go away meaningfully
				releaseGate(g)
				delete(gateOf, s.gen)
			}
			s.closed = true
			s.lr.PeerGone()
			if _, held := tearOf[s.gen]; held {
				continue // its teardown is held on purpose; it returns after the release
			}
			if !s.lr.WaitReturned(Patience()) {
				return TimingFailf("C11/handler-stuck", "%s: the handler of generation %d did not return after its peer went away", where, s.gen)
			}
		case "sendheld":
			// a send that has looked the session's stream up and is paused before it writes
			o := owner()
			if o == nil || heldSend != nil {
				continue
			}
			seq++
			nonce := fmt.Sprintf("h%d", seq)
			g := &c11Gate{point: "send:looked-up", reached: make(chan struct{}), release: make(chan struct{})}
			allGates = append(allGates, g)
			done := make(chan error, 1)
			go func() {
				mu.Lock()
				gates[goid()] = append(gates[goid()], g)
				mu.Unlock()
				done <- w.Srv.SendNotification(conn.SessionID, "notifications/verif", map[string]interface{}{"nonce": nonce})
			}()
			select {
			case <-g.reached:
				heldSend, heldDone, heldNonce, heldOwner = g, done, nonce, o
			case err := <-done:
				_ = err
			case <-time.After(Bound() * 4):
			}
		case "releasesend":
			if heldSend == nil {
				continue
			}
			releaseGate(heldSend)
			var err error
			select {
			case err = <-heldDone:
			case <-time.After(Patience()):
				return TimingFailf("C11/held-send-stuck", "%s: a paused send did not finish after its release", where)
			}
			// it was addressed while heldOwner owned the session: it is delivered there, or fails if that stream has gone meanwhile
			if err == nil {
				heldOwner.expect = append(heldOwner.expect, heldNonce)
				sortExpectByArrival(heldOwner)
			}
			heldSend = nil
		case "open2":
			// two reconnects of the session arrive at the same time (a client that retries its GET): whichever of them the server
			// registers last owns the session, the other one - like every earlier stream - is closed
			attempts := 12
			if os.Getenv("VERIF_REPLAY") != "" {
				attempts = 200 // a replay has one case to judge: it can afford to try the overlap much more often
			}
			for k := 0; k < attempts; k++ {
				if len(gateOf) > 0 || len(tearOf) > 0 || heldSend != nil {
					break
				}
				hdr := map[string]string{"Accept": "text/event-stream", "Mcp-Session-Id": conn.SessionID}
				var pair [2]*LiveResp
				var pwg sync.WaitGroup
				for j := range pair {
					pwg.Add(1)
					go func(j int) {
						defer pwg.Done()
						pair[j] = StartLive(h, "GET", "http://verif/mcp", hdr, nil, nil)
					}(j)
				}
				pwg.Wait()
				for _, lr := range pair {
					if !lr.WaitFlushedHeader(Patience()) {
						return TimingFailf("C11/stream-not-opened", "%s: one of two simultaneous GETs did not open (attempt %d)", where, k)
					}
				}
				// one of the two ends (it was replaced by the other)
				deadline := time.Now().Add(Patience())
				for !pair[0].Returned() && !pair[1].Returned() && time.Now().Before(deadline) {
					time.Sleep(200 * time.Microsecond)
				}
				switch {
				case pair[0].Returned() && pair[1].Returned():
					return Failf("C11/newest-stream-ended", "%s: of two simultaneous GETs both ended although their peers are connected (attempt %d)", where, k)
				case !pair[0].Returned() && !pair[1].Returned():
					for _, lr := range pair {
						lr.PeerGone()
					}
					return TimingFailf("C11/old-stream-not-closed", "%s: two simultaneous GETs of one session are both still open %v later (attempt %d)", where, Patience(), k)
				}
				loser, winner := pair[0], pair[1]
				if pair[1].Returned() {
					loser, winner = pair[1], pair[0]
				}
				ls := &c11Stream{lr: loser, gen: len(streams), closed: false}
				streams = append(streams, ls)
				ws := &c11Stream{lr: winner, gen: len(streams)}
				streams = append(streams, ws)
				seq++
				nonce := fmt.Sprintf("p%d", seq)
				if err := w.Srv.SendNotification(conn.SessionID, "notifications/verif", map[string]interface{}{"nonce": nonce}); err != nil {
					return Failf("C11/send-fails-although-stream-open", "%s: after two simultaneous GETs one stream (generation %d) is open, but the send failed: %v", where, ws.gen, err)
				}
				ws.expect = append(ws.expect, nonce)
			}
		case "race":
			// the current stream's peer goes away while a new GET arrives: teardown and registration overlap for real
			for k := 0; k < 30; k++ {
				o := owner()
				if o == nil || len(gateOf) > 0 || len(tearOf) > 0 || heldSend != nil {
					break
				}
				o.closed = true
				o.lr.PeerGone()
				lr := StartLive(h, "GET", "http://verif/mcp", map[string]string{"Accept": "text/event-stream", "Mcp-Session-Id": conn.SessionID}, nil, nil)
				opened := lr.WaitFlushedHeader(Patience())
				if lr.Returned() {
					// a fact, not a matter of waiting: the handler of the new stream has ended while its peer is connected
					st, _, body, _, _, _ := lr.Snapshot()
					return Failf("C11/newest-stream-ended", "%s: the GET racing with the old stream's teardown (attempt %d) ended although its peer is still connected (status %d, %d body bytes)", where, k, st, len(body))
				}
				if !opened {
					return TimingFailf("C11/stream-not-opened", "%s: the GET racing with the old stream's teardown did not open", where)
				}
				ns := &c11Stream{lr: lr, gen: len(streams)}
				streams = append(streams, ns)
				o.lr.WaitReturned(Patience())
				seq++
				nonce := fmt.Sprintf("r%d", seq)
				if err := w.Srv.SendNotification(conn.SessionID, "notifications/verif", map[string]interface{}{"nonce": nonce}); err != nil {
					return Failf("C11/send-fails-although-stream-open", "%s: after the old stream's peer left and a new GET (generation %d) had delivered its headers, the send failed: %v", where, ns.gen, err)
				}
				ns.expect = append(ns.expect, nonce)
			}
		case "send", "sendreq":
			seq++
			nonce := fmt.Sprintf("n%d", seq)
			var err error
			if st.Op == "send" {
				// addressed, or filtered down to this session (a broadcast would also reach the bystander session)
				if seq%2 == 0 {
					err = w.Srv.SendNotification(conn.SessionID, "notifications/verif", map[string]interface{}{"nonce": nonce})
				} else {
					var n int
					n, _, err = w.Srv.SendFilteredNotification("notifications/verif", map[string]interface{}{"nonce": nonce}, func(id string) bool { return id == conn.SessionID })
					if err == nil && n == 0 && owner() != nil {
						err = fmt.Errorf("SendFilteredNotification reached 0 sessions")
					}
				}
			} else {
				ctx, cancel := context.WithTimeout(context.Background(), 3*time.Millisecond)
				_, err = w.Srv.SendRequest(ctx, conn.SessionID, &mcp.JSONRPCRequest{JSONRPC: "2.0", ID: "rq-" + nonce, Request: mcp.Request{Method: "verif/request"}, Params: map[string]interface{}{"nonce": nonce}})
				cancel()
				if err == context.DeadlineExceeded {
					err = nil // the request was written; nobody answers it here
				}
			}
			o := owner()
			if o == nil {
				continue // no stream owns the session: whether the send fails is not this property's business
			}
			if err != nil {
				return Failf("C11/send-fails-although-stream-open", "%s: generation %d's response headers were received and its peer is connected, but the send failed: %v", where, o.gen, err)
			}
			o.expect = append(o.expect, nonce)
		}
		// every frame sits on the stream that owned the session when it was sent
		for _, s := range streams {
			if f := c11Check(s, where, false); f != nil {
				return f
			}
		}
	}
	for _, g := range allGates {
		releaseGate(g)
	}
	if heldSend != nil {
		select {
		case err := <-heldDone:
			if err == nil {
				heldOwner.expect = append(heldOwner.expect, heldNonce)
				sortExpectByArrival(heldOwner)
			}
		case <-time.After(Patience()):
			return TimingFailf("C11/held-send-stuck", "a paused send did not finish after its release (history %s)", c11History(c.Steps))
		}
	}
	for _, s := range streams {
		if f := c11Check(s, "final check", true); f != nil {
			return f
		}
	}
	// replaced streams have ended; the bystander is untouched
	if o := owner(); o != nil {
		for _, s := range streams {
			if s != o && !s.closed && !s.lr.WaitReturned(Patience()) {
				return TimingFailf("C11/old-stream-not-closed", "generation %d is still open although generation %d replaced it (history %s)", s.gen, o.gen, c11History(c.Steps))
			}
		}
		if o.lr.Returned() {
			return Failf("C11/newest-stream-ended", "the newest stream (generation %d) ended although its peer is still connected (history %s)", o.gen, c11History(c.Steps))
		}
	}
	// a stream that has ended is not written to any more: its ResponseWriter must not be used after the handler returned
	// (net/http has released it by then; a sender that found the stream before it ended crashes there or races with the server)
	for _, s := range streams {
		if _, _, _, _, _, late := s.lr.Snapshot(); late > 0 {
			return Failf("C11/write-after-stream-ended", "generation %d was written to %d times after its handler had returned (history %s)", s.gen, late, c11History(c.Steps))
		}
	}
	if byStream.Returned() || len(byStream.Events()) != 0 {
		return Failf("C11/bystander-affected", "another session's stream ended or received %d frames", len(byStream.Events()))
	}
	return nil
}

// sortExpectByArrival: a paused send lands among later frames; order on one stream is only asserted for unpaused sends.
func sortExpectByArrival(s *c11Stream) {
	pos := map[string]int{}
	for i, e := range s.lr.WaitEvents(len(s.expect), Bound()*2) {
		var m struct {
			Params struct {
				Nonce string `json:"nonce"`
			} `json:"params"`
		}
		json.Unmarshal([]byte(e.Data), &m)
		pos[m.Params.Nonce] = i + 1
	}
	sort.SliceStable(s.expect, func(i, j int) bool {
		pi, pj := pos[s.expect[i]], pos[s.expect[j]]
		if pi == 0 || pj == 0 {
			return false
		}
		return pi < pj
	})
}

func c11History(steps []C11Step) string {
	var b []string
	for _, s := range steps {
		x := s.Op
		if s.Hold != "" {
			x += "@" + s.Hold
		}
		if s.Op == "close" || s.Op == "release" {
			x += fmt.Sprint(s.Gen)
		}
		b = append(b, x)
	}
	return strings.Join(b, " ")
}

// c11Check compares a stream's frames with what was addressed to it while it owned the session.
func c11Check(s *c11Stream, where string, final bool) *Failure {
	if final || len(s.expect) > s.consumed {
		s.lr.WaitEvents(len(s.expect), Bound()*2)
	}
	var got []string
	for _, e := range s.lr.Events() {
		var m struct {
			Params struct {
				Nonce string `json:"nonce"`
			} `json:"params"`
			Method string `json:"method"`
		}
		json.Unmarshal([]byte(e.Data), &m)
		if m.Method == "stream/resumed" {
			continue
		}
		got = append(got, m.Params.Nonce)
	}
	want := s.expect
	if strings.Join(got, ",") != strings.Join(want, ",") {
		if len(got) <= len(want) && strings.HasPrefix(strings.Join(want, ",")+",", strings.Join(got, ",")+",") && !final && len(got) < len(want) {
			return TimingFailf("C11/frame-missing-on-owner", "%s: generation %d owned the session for sends %v but carries %v", where, s.gen, want, got)
		}
		if len(got) < len(want) {
			return TimingFailf("C11/frame-missing-on-owner", "%s: generation %d owned the session for sends %v but carries %v", where, s.gen, want, got)
		}
		return Failf("C11/frame-on-wrong-stream", "%s: generation %d carries %v, the sends made while it owned the session are %v", where, s.gen, got, want)
	}
	return nil
}

func TestC11(t *testing.T) {
	RunProp(t, Prop[C11Case]{ID: "C11", Gen: genC11, Exec: execC11, NT: ntC11})
}
