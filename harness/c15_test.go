package harness

import (
	"context"
	"encoding/json"
	"errors"
	"fmt"
	"strings"
	"sync"
	"testing"
	"time"

	"pgregory.net/rapid"
	mcp "trpc.group/trpc-go/trpc-mcp-go"
)

// C15: middlewares wrap every request as an onion, each exactly once.

const (
	mwPass = iota
	mwModReq
	mwModRes
	mwShort
	mwFailBefore
	mwFailAfter
	mwFailCtx    // fails before calling next with an error that wraps a context error (its own backend call timed out)
	mwStamp      // after next: when the result is a map, adds a member named after the request to it, in place
	mwModReqCopy // like mwModReq, but hands a new request object (deep copy with the modified arguments) to the next stage
	mwShortErr   // answers with a JSON-RPC error object of its own (code, message and data) without calling next
	numMW
)

type C15Req struct {
	Method string `json:"method"` // tools/call, tools/list, ping, prompts/get, resources/read, initialize, zz/unknown
	Sess   int    `json:"sess"`   // which client session sends it
	Notif  bool   `json:"notif,omitempty"`
}

type C15Case struct {
	Mode    Mode       `json:"mode"` // Streamable modes 0..4 or legacy SSE (5)
	Chain   []int      `json:"chain"`
	Split   int        `json:"split"` // the chain is given as WithMiddleware(chain[:split]...), WithMiddleware(chain[split:]...)
	NSess   int        `json:"nsess"`
	Batches [][]C15Req `json:"batches"` // requests inside one batch are sent concurrently
	// Twin: a second server is built in the process from the same leading middlewares (the very same slice) followed by a
	// middleware of its own: a server's chain is fixed when it is constructed, whatever is built from the caller's slices later
	Twin bool `json:"twin,omitempty"`
}

func genC15(t *rapid.T) C15Case {
	c := C15Case{Mode: Mode(rapid.IntRange(0, 5).Draw(t, "mode"))}
	n := rapid.IntRange(0, 4).Draw(t, "chainlen")
	for i := 0; i < n; i++ {
		c.Chain = append(c.Chain, rapid.SampledFrom([]int{mwPass, mwPass, mwModReq, mwModReqCopy, mwModReqCopy, mwModRes, mwShort, mwShortErr, mwFailBefore, mwFailAfter, mwFailCtx, mwStamp, mwStamp}).Draw(t, "mw"))
	}
	c.Split = rapid.IntRange(0, n).Draw(t, "split")
	c.Twin = rapid.IntRange(0, 2).Draw(t, "twin") == 0
	c.NSess = rapid.IntRange(1, 3).Draw(t, "nsess")
	nb := rapid.IntRange(1, 3).Draw(t, "nbatches")
	for b := 0; b < nb; b++ {
		k := rapid.IntRange(1, 6).Draw(t, "batch")
		var batch []C15Req
		for i := 0; i < k; i++ {
			batch = append(batch, C15Req{
				Method: rapid.SampledFrom([]string{"tools/call", "tools/call", "tools/list", "ping", "prompts/get", "resources/read", "initialize", "zz/unknown"}).Draw(t, "method"),
				Sess:   rapid.IntRange(0, c.NSess-1).Draw(t, "sess"),
				Notif:  rapid.IntRange(0, 5).Draw(t, "notif") == 0,
			})
		}
		c.Batches = append(c.Batches, batch)
	}
	return c
}

func ntC15(c C15Case) (bool, []string) {
	nonPass := false
	for _, b := range c.Chain {
		if b != mwPass {
			nonPass = true
		}
	}
	return len(c.Chain) >= 2 && nonPass, []string{fmt.Sprintf("chainlen=%d", len(c.Chain)), "mode=" + c.Mode.String()}
}

type c15Rec struct {
	mu     sync.Mutex
	traces map[string][]string // request id (compact json) -> stage trace
	sess   map[string][]string // request id -> session ids observed at every stage
	noID   int
}

func (r *c15Rec) add(id, ev, sid string) {
	r.mu.Lock()
	r.traces[id] = append(r.traces[id], ev)
	r.sess[id] = append(r.sess[id], sid)
	r.mu.Unlock()
}

func idKey(id interface{}) string {
	b, _ := json.Marshal(id)
	return string(b)
}

func sessIDs(ctx context.Context) string {
	a, b := "-", "-"
	if s, ok := mcp.GetSessionFromContext(ctx); ok && s != nil {
		a = s.GetID()
	}
	if s := mcp.ClientSessionFromContext(ctx); s != nil {
		b = s.GetID()
	}
	return a + "/" + b
}

type ctxReqID struct{}

func makeMW(i, kind int, rec *c15Rec) mcp.Middleware {
	return func(next mcp.HandlerFunc) mcp.HandlerFunc {
		return func(ctx context.Context, req *mcp.JSONRPCRequest) (mcp.JSONRPCMessage, error) {
			id := idKey(req.ID)
			if req.ID == nil {
				rec.mu.Lock()
				rec.noID++
				rec.mu.Unlock()
			}
			ctx = context.WithValue(ctx, ctxReqID{}, id)
			rec.add(id, fmt.Sprintf("m%d-before", i), sessIDs(ctx))
			switch kind {
			case mwShort:
				return map[string]interface{}{"short": i}, nil
			case mwShortErr:
				e := &mcp.JSONRPCError{JSONRPC: "2.0", ID: req.ID}
				e.Error.Code, e.Error.Message, e.Error.Data = -32042, fmt.Sprintf("mw%d-says-no", i), map[string]interface{}{"why": "quota", "mw": i}
				return e, nil
			case mwFailBefore:
				return nil, fmt.Errorf("mw%d-failed", i)
			case mwFailCtx:
				return nil, fmt.Errorf("mw%d-failed: %w", i, []error{context.DeadlineExceeded, context.Canceled}[i%2])
			case mwModReqCopy:
				cp := *req
				if b, err := json.Marshal(req.Params); err == nil && req.Params != nil {
					var pm map[string]interface{}
					if json.Unmarshal(b, &pm) == nil && pm != nil {
						if args, ok := pm["arguments"].(map[string]interface{}); ok {
							if n, ok := args["nonce"].(string); ok {
								args["nonce"] = n + fmt.Sprintf("+m%d", i)
							}
						}
						cp.Params = pm
					}
				}
				req = &cp
			case mwModReq:
				if pm, ok := req.Params.(map[string]interface{}); ok {
					if args, ok := pm["arguments"].(map[string]interface{}); ok {
						if n, ok := args["nonce"].(string); ok {
							args["nonce"] = n + fmt.Sprintf("+m%d", i)
						}
					}
				}
			}
			res, err := next(ctx, req)
			rec.add(id, fmt.Sprintf("m%d-after", i), sessIDs(ctx))
			switch kind {
			case mwFailAfter:
				return res, fmt.Errorf("mw%d-failed-after", i)
			case mwModRes:
				if _, isErr := res.(*mcp.JSONRPCError); !isErr && err == nil {
					return map[string]interface{}{"wrapped": i, "inner": res}, nil
				}
			case mwStamp:
				if m, ok := res.(map[string]interface{}); ok && err == nil {
					m["stamp:"+id] = i
				}
			}
			return res, err
		}
	}
}

// c15Predict is the reference interpreter of a chain: the trace and the client-visible outcome.
// inner is the JSON of the handler's result (nil when the handler answers with a JSON-RPC error of code innerCode).
func c15Predict(chain []int, hasHandlerMark bool, inner interface{}, innerCode int, innerIsMap bool, id string) (trace []string, result interface{}, errCode int, errMsg string) {
	// isMap: the Go value handed back is a map[string]interface{} (what an in-place stamping middleware can write to)
	var run func(i int) (interface{}, int, string, bool)
	run = func(i int) (interface{}, int, string, bool) {
		if i == len(chain) {
			if hasHandlerMark {
				trace = append(trace, "handler")
			}
			if inner == nil {
				return nil, innerCode, "", false
			}
			return inner, 0, "", innerIsMap
		}
		trace = append(trace, fmt.Sprintf("m%d-before", i))
		switch chain[i] {
		case mwShort:
			return map[string]interface{}{"short": float64(i)}, 0, "", true
		case mwShortErr:
			return map[string]interface{}{"why": "quota", "mw": float64(i)}, -32042, fmt.Sprintf("mw%d-says-no", i), false
		case mwFailBefore, mwFailCtx:
			return nil, -32603, fmt.Sprintf("mw%d-failed", i), false
		}
		r, code, msg, isMap := run(i + 1)
		trace = append(trace, fmt.Sprintf("m%d-after", i))
		switch chain[i] {
		case mwFailAfter:
			return nil, -32603, fmt.Sprintf("mw%d-failed-after", i), false
		case mwModRes:
			if code == 0 {
				return map[string]interface{}{"wrapped": float64(i), "inner": r}, 0, "", true
			}
		case mwStamp:
			if code == 0 && isMap {
				cp := map[string]interface{}{}
				if m, ok := r.(map[string]interface{}); ok {
					for k, v := range m {
						cp[k] = v
					}
				}
				cp["stamp:"+id] = float64(i)
				return cp, 0, "", true
			}
		}
		return r, code, msg, isMap
	}
	r, code, msg, _ := run(0)
	return trace, r, code, msg
}

func execC15(c C15Case) *Failure {
	rec := &c15Rec{traces: map[string][]string{}, sess: map[string][]string{}}
	var mws []mcp.Middleware
	for i, k := range c.Chain {
		mws = append(mws, makeMW(i, k, rec))
	}
	reg := RegSpec{
		Tools:     []ToolSpec{{Name: "alpha", Desc: "d"}, {Name: "bad", Outcome: OutGoErr, ErrMsg: "boom-bad"}},
		Prompts:   []PromptSpec{{Name: "alpha", Args: []string{"nonce"}}},
		Resources: []ResSpec{{URI: "file:///a.txt", Name: "r0"}},
	}
	var opt WorldOpt
	mark := func(ctx context.Context, what string) {
		if id, ok := ctx.Value(ctxReqID{}).(string); ok {
			rec.add(id, what, sessIDs(ctx))
		}
	}
	filter := func(ctx context.Context, tools []*mcp.Tool) []*mcp.Tool { mark(ctx, "handler"); return tools }
	if c.Mode == ModeLegacy {
		if len(mws) > 0 {
			opt.SSEOpts = append(opt.SSEOpts, mcp.WithSSEMiddleware(mws[:c.Split]...), mcp.WithSSEMiddleware(mws[c.Split:]...))
		}
		opt.SSEOpts = append(opt.SSEOpts, mcp.WithSSEToolListFilter(filter))
	} else {
		if len(mws) > 0 {
			if c.Split == 0 || c.Split == len(mws) {
				opt.ServerOpts = append(opt.ServerOpts, mcp.WithMiddleware(mws...))
			} else {
				opt.ServerOpts = append(opt.ServerOpts, mcp.WithMiddleware(mws[:c.Split]...), mcp.WithMiddleware(mws[c.Split:]...))
			}
		}
		opt.ServerOpts = append(opt.ServerOpts, mcp.WithToolListFilter(filter))
	}
	w := NewWorld(c.Mode, reg, opt)
	defer w.Close()
	if c.Twin && len(mws) > 0 {
		// another server of the process, built afterwards from the same leading middlewares plus one of its own
		alien := func(next mcp.HandlerFunc) mcp.HandlerFunc {
			return func(ctx context.Context, req *mcp.JSONRPCRequest) (mcp.JSONRPCMessage, error) {
				rec.add(idKey(req.ID), "alien-before", sessIDs(ctx))
				return next(ctx, req)
			}
		}
		shared := mws[:c.Split]
		if c.Mode == ModeLegacy {
			_ = mcp.NewSSEServer("twin", "1", mcp.WithSSEServerLogger(nopLogger{}), mcp.WithKeepAlive(false), mcp.WithSSEMiddleware(shared...), mcp.WithSSEMiddleware(alien))
		} else {
			_ = mcp.NewServer("twin", "1", mcp.WithServerLogger(nopLogger{}), mcp.WithMiddleware(shared...), mcp.WithMiddleware(alien))
		}
	}
	w.ToolHook = func(ctx context.Context, spec ToolSpec, req *mcp.CallToolRequest) { mark(ctx, "handler") }
	twin := NewWorld(c.Mode, reg, WorldOpt{})
	defer twin.Close()

	// sessions: the handshake itself passes the chain; use a chain-free twin handshake where the chain would break it
	conns := make([]*Conn, c.NSess)
	for i := range conns {
		cn, err := w.Dial()
		if err != nil {
			return Failf("C15/connect", "%v", err)
		}
		defer cn.Close()
		ex := cn.Send(InitRequest(fmt.Sprintf(`"init%d"`, i), "2025-03-26"), fmt.Sprintf(`"init%d"`, i), Bound()*4)
		if ex.Err != nil {
			return Failf("C15/connect", "%v", ex.Err)
		}
		if w.Mode.Stateful() {
			cn.SessionID = ex.Header.Get("Mcp-Session-Id")
			if cn.SessionID == "" {
				return Failf("C15/no-session-id", "initialize through the chain %v issued no session id (status %d)", c.Chain, ex.Status)
			}
		}
		conns[i] = cn
	}
	tconn, err := twin.Connect()
	if err != nil {
		return Failf("C15/connect", "twin: %v", err)
	}
	defer tconn.Close()
	rec.mu.Lock()
	rec.traces, rec.sess = map[string][]string{}, map[string][]string{}
	rec.mu.Unlock()

	seq := 0
	expectedStages := 0
	sessOwner := map[string]string{} // session id seen by the stages of a session-less request -> that request
	for bi, batch := range c.Batches {
		type sent struct {
			req   C15Req
			id    string
			raw   []byte
			nonce string
			ex    Exchange
		}
		items := make([]*sent, len(batch))
		for i, r := range batch {
			seq++
			id := fmt.Sprintf(`"r%d"`, seq)
			nonce := fmt.Sprintf("n%d", seq)
			target := "alpha"
			if r.Method == "resources/read" {
				target = "file:///a.txt"
			}
			if r.Method == "tools/call" && seq%4 == 0 {
				target = "bad"
			}
			var idNode *OJ = oStr(fmt.Sprintf("r%d", seq))
			t := Template(r.Method, idNode, target, nonce)
			if r.Method == "zz/unknown" {
				t.Del("params")
			}
			if p := t.Get("params"); p != nil && p.K == 'o' && !r.Notif && seq%5 == 3 {
				// parameters may carry further members of any name, the envelope's own member names included: the message stays
				// the request its "method" says it is
				switch seq % 3 {
				case 0:
					p.Set("result", oNull())
				case 1:
					p.Set("error", oObj("code", oInt(1), "message", oStr("not an answer")))
				default:
					p.Set("id", oInt(7))
					p.Set("method", oStr("ping"))
				}
			}
			if r.Notif {
				t.Del("id")
				t.Set("method", oStr("notifications/verif-"+strings.ReplaceAll(r.Method, "/", "-")))
				id = ""
			}
			items[i] = &sent{req: r, id: id, raw: t.Bytes(), nonce: nonce}
		}
		var wg sync.WaitGroup
		for _, it := range items {
			wg.Add(1)
			go func(it *sent) {
				defer wg.Done()
				cn := conns[it.req.Sess]
				if c.Mode == ModeLegacy {
					// one goroutine per request posts; answers are collected from the stream afterwards
					r := w.peer.Do("POST", cn.endpoint, map[string]string{"Content-Type": "application/json"}, it.raw, 10*time.Second)
					it.ex = Exchange{Status: r.Status, Err: r.Err}
					return
				}
				it.ex = cn.Send(it.raw, it.id, Bound())
			}(it)
		}
		wg.Wait()
		if c.Mode == ModeLegacy {
			// collect answers per session stream
			for _, it := range items {
				if it.id == "" || it.ex.Err != nil {
					continue
				}
				cn := conns[it.req.Sess]
				deadline := time.Now().Add(Bound() * 4)
				for {
					found := false
					for _, e := range cn.stream.Events() {
						if rid, ok := rawIDOf([]byte(e.Data)); ok && rid == it.id && isResponseFrame([]byte(e.Data)) {
							it.ex.Frames = append(it.ex.Frames, []byte(e.Data))
							found = true
						}
					}
					if found || time.Now().After(deadline) {
						break
					}
					cn.stream.WaitEvents(len(cn.stream.Events())+1, 20*time.Millisecond)
				}
			}
		}
		for _, it := range items {
			where := fmt.Sprintf("%s chain=%v split=%d batch %d: %s", c.Mode, c.Chain, c.Split, bi, it.raw)
			if it.ex.Err != nil {
				return Failf("C15/transport", "%s: %v", where, it.ex.Err)
			}
			if it.req.Notif {
				continue
			}
			// reference prediction
			hasMark := len(c.Chain) > 0 && (it.req.Method == "tools/call" || it.req.Method == "tools/list")
			var inner interface{}
			innerCode := 0
			n := it.nonce
			for i, k := range c.Chain {
				if k == mwShort || k == mwShortErr || k == mwFailBefore || k == mwFailCtx {
					break
				}
				if k == mwModReq || k == mwModReqCopy {
					n += fmt.Sprintf("+m%d", i)
				}
			}
			switch it.req.Method {
			case "tools/call":
				if strings.Contains(string(it.raw), `"name":"bad"`) {
					inner, innerCode = nil, -32603
				} else {
					inner = map[string]interface{}{"content": []interface{}{map[string]interface{}{"type": "text", "text": ToolText("alpha", map[string]interface{}{"nonce": n})}}}
				}
			case "zz/unknown":
				inner, innerCode = nil, -32601
			default:
				tex := tconn.Send([]byte(strings.Replace(string(it.raw), `"nonce":"`+it.nonce+`"`, `"nonce":"`+n+`"`, 1)), it.id, Bound()*4)
				if len(tex.Frames) != 1 {
					return TimingFailf("C15/twin", "%s: chain-free twin server gave %d frames", where, len(tex.Frames))
				}
				var m map[string]interface{}
				json.Unmarshal(tex.Frames[0], &m)
				if r, ok := m["result"]; ok {
					sortListed(r)
					inner = r
				} else {
					e, _ := m["error"].(map[string]interface{})
					cf, _ := e["code"].(float64)
					inner, innerCode = nil, int(cf)
				}
			}
			wantTrace, wantRes, wantCode, wantMsg := c15Predict(c.Chain, hasMark, inner, innerCode, it.req.Method == "ping", it.id)
			expectedStages += len(wantTrace)
			rec.mu.Lock()
			gotTrace := append([]string(nil), rec.traces[it.id]...)
			gotSess := append([]string(nil), rec.sess[it.id]...)
			rec.mu.Unlock()
			if strings.Join(gotTrace, " ") != strings.Join(wantTrace, " ") {
				return Failf("C15/trace", "%s\n  trace   %v\n  onion   %v", where, gotTrace, wantTrace)
			}
			// every stage saw the request's own session
			wantSID := conns[it.req.Sess].SessionID
			for k, s := range gotSess {
				parts := strings.SplitN(s, "/", 2)
				if k > 0 && parts[0] != strings.SplitN(gotSess[0], "/", 2)[0] {
					return Failf("C15/session-changes-between-stages", "%s: stages saw sessions %v", where, gotSess)
				}
				if wantSID != "" && parts[0] != wantSID {
					return Failf("C15/foreign-session", "%s: stage %s saw session %q, the request belongs to %q", where, gotTrace[k], parts[0], wantSID)
				}
				if parts[1] != "-" && parts[1] != parts[0] {
					return Failf("C15/foreign-session", "%s: stage %s: ClientSessionFromContext=%q but GetSessionFromContext=%q", where, gotTrace[k], parts[1], parts[0])
				}
			}
			if wantSID == "" && len(gotSess) > 0 {
				// a request that belongs to no session runs with a session object of its own: no other request's stages see it
				if sid := strings.SplitN(gotSess[0], "/", 2)[0]; sid != "" && sid != "-" {
					if other, taken := sessOwner[sid]; taken && other != it.id {
						return Failf("C15/shared-session", "%s: its stages ran with session %q, which the stages of request %s had as well (requests outside any session share nothing)", where, sid, other)
					}
					sessOwner[sid] = it.id
				}
			}
			// client-visible outcome
			if len(it.ex.Frames) != 1 {
				return TimingFailf("C15/no-answer", "%s: %d answer frames (status %d)", where, len(it.ex.Frames), it.ex.Status)
			}
			var m map[string]interface{}
			if err := json.Unmarshal(it.ex.Frames[0], &m); err != nil {
				return Failf("C15/bad-frame", "%s: %v", where, err)
			}
			if wantCode != 0 {
				e, _ := m["error"].(map[string]interface{})
				cf, _ := e["code"].(float64)
				msg, _ := e["message"].(string)
				if e == nil || int(cf) != wantCode || (wantMsg != "" && !strings.Contains(msg, wantMsg)) {
					return Failf("C15/outcome", "%s: want error %d %q, got %.300s", where, wantCode, wantMsg, it.ex.Frames[0])
				}
				if wantCode == -32042 && canonJSON(e["data"]) != canonJSON(wantRes) {
					return Failf("C15/outcome", "%s: the middleware's error object carried data %s, the client received %.300s", where, canonJSON(wantRes), it.ex.Frames[0])
				}
			} else {
				r, ok := m["result"]
				if !ok {
					return Failf("C15/outcome", "%s: want result %s, got %.300s", where, canonJSON(wantRes), it.ex.Frames[0])
				}
				sortDeep(r)
				sortDeep(wantRes)
				if canonJSON(r) != canonJSON(wantRes) {
					return Failf("C15/outcome", "%s:\n  got    %.400s\n  onion  %.400s", where, canonJSON(r), canonJSON(wantRes))
				}
			}
		}
	}
	rec.mu.Lock()
	defer rec.mu.Unlock()
	if rec.noID > 0 {
		return Failf("C15/notification-in-chain", "chain=%v: a message without id (a notification) passed through %d middleware stages", c.Chain, rec.noID)
	}
	total := 0
	for _, tr := range rec.traces {
		total += len(tr)
	}
	if total != expectedStages {
		return Failf("C15/stage-count", "chain=%v: %d stage events recorded, the onion predicts %d (traces %v)", c.Chain, total, expectedStages, rec.traces)
	}
	return nil
}

func sortDeep(v interface{}) {
	sortListed(v)
	if m, ok := v.(map[string]interface{}); ok {
		for _, e := range m {
			sortDeep(e)
		}
	}
}

var _ = errors.New

func TestC15(t *testing.T) {
	RunProp(t, Prop[C15Case]{ID: "C15", Gen: genC15, Exec: execC15, NT: ntC15})
}
