package harness

// Request grammar and structural mutation (C03, C06, C14).

import (
	"bytes"
	"encoding/json"
	"fmt"
	"sort"
	"strconv"
	"strings"

	"pgregory.net/rapid"
)

// OJ is an ordered JSON tree (keeps key order and allows duplicate keys).
type OJ struct {
	K    byte // 'o' object, 'a' array, 's' string, 'n' number (raw text in S), 'b' bool, 'z' null
	Keys []string
	Vals []*OJ
	S    string
	B    bool
}

func oObj(kv ...interface{}) *OJ {
	o := &OJ{K: 'o'}
	for i := 0; i+1 < len(kv); i += 2 {
		o.Keys = append(o.Keys, kv[i].(string))
		o.Vals = append(o.Vals, kv[i+1].(*OJ))
	}
	return o
}
func oArr(v ...*OJ) *OJ { return &OJ{K: 'a', Vals: v} }
func oStr(s string) *OJ { return &OJ{K: 's', S: s} }
func oNum(s string) *OJ { return &OJ{K: 'n', S: s} }
func oBool(b bool) *OJ  { return &OJ{K: 'b', B: b} }
func oNull() *OJ        { return &OJ{K: 'z'} }
func oInt(i int64) *OJ  { return oNum(strconv.FormatInt(i, 10)) }

// Clone deep-copies the tree.
func (o *OJ) Clone() *OJ {
	c := &OJ{K: o.K, S: o.S, B: o.B}
	c.Keys = append([]string(nil), o.Keys...)
	for _, v := range o.Vals {
		c.Vals = append(c.Vals, v.Clone())
	}
	return c
}

func (o *OJ) write(b *bytes.Buffer) {
	switch o.K {
	case 'o':
		b.WriteByte('{')
		for i, k := range o.Keys {
			if i > 0 {
				b.WriteByte(',')
			}
			kb, _ := json.Marshal(k)
			b.Write(kb)
			b.WriteByte(':')
			o.Vals[i].write(b)
		}
		b.WriteByte('}')
	case 'a':
		b.WriteByte('[')
		for i, v := range o.Vals {
			if i > 0 {
				b.WriteByte(',')
			}
			v.write(b)
		}
		b.WriteByte(']')
	case 's':
		sb, _ := json.Marshal(o.S)
		b.Write(sb)
	case 'n':
		b.WriteString(o.S)
	case 'b':
		if o.B {
			b.WriteString("true")
		} else {
			b.WriteString("false")
		}
	default:
		b.WriteString("null")
	}
}

// Bytes serialises the tree.
func (o *OJ) Bytes() []byte {
	var b bytes.Buffer
	o.write(&b)
	return b.Bytes()
}

// Get returns the first member named k of an object.
func (o *OJ) Get(k string) *OJ {
	if o == nil || o.K != 'o' {
		return nil
	}
	for i, kk := range o.Keys {
		if kk == k {
			return o.Vals[i]
		}
	}
	return nil
}

// Set replaces (or appends) the first member named k.
func (o *OJ) Set(k string, v *OJ) {
	for i, kk := range o.Keys {
		if kk == k {
			o.Vals[i] = v
			return
		}
	}
	o.Keys = append(o.Keys, k)
	o.Vals = append(o.Vals, v)
}

// Del removes the first member named k.
func (o *OJ) Del(k string) {
	for i, kk := range o.Keys {
		if kk == k {
			o.Keys = append(o.Keys[:i:i], o.Keys[i+1:]...)
			o.Vals = append(o.Vals[:i:i], o.Vals[i+1:]...)
			return
		}
	}
}

// At walks a path of object keys.
func (o *OJ) At(path []string) *OJ {
	cur := o
	for _, p := range path {
		cur = cur.Get(p)
		if cur == nil {
			return nil
		}
	}
	return cur
}

func typeNameOf(o *OJ) string {
	switch o.K {
	case 'o':
		return "object"
	case 'a':
		return "array"
	case 's':
		return "string"
	case 'n':
		if strings.ContainsAny(o.S, ".eE") {
			return "float"
		}
		return "int"
	case 'b':
		return "bool"
	}
	return "null"
}

// JSON type lattice used for retyping.
var retypeNames = []string{"null", "bool", "int", "float", "string", "array", "object"}

func retypeValue(name string) *OJ {
	switch name {
	case "null":
		return oNull()
	case "bool":
		return oBool(true)
	case "int":
		return oInt(7)
	case "float":
		return oNum("1.5")
	case "string":
		return oStr("zzz-retyped")
	case "array":
		return oArr(oInt(1))
	default:
		return oObj("zz", oInt(1))
	}
}

// ---------------------------------------------------------------------------

// Methods every transport serves.
var CommonMethods = []string{"initialize", "ping", "tools/list", "tools/call", "prompts/list", "prompts/get", "resources/list", "resources/read"}

// Methods only the HTTP servers serve.
var HTTPOnlyMethods = []string{"resources/templates/list", "resources/subscribe", "resources/unsubscribe", "completion/complete"}

// ReqStep is one raw message to send plus what the generator knows about it.
type ReqStep struct {
	Raw     string `json:"raw"`
	Method  string `json:"method"`            // method of the template the message was made from
	ID      string `json:"id"`                // compact JSON text of the id as sent ("" = none)
	Mut     string `json:"mut"`               // none remove retype dup addkey unknownmethod badversion
	Path    string `json:"path,omitempty"`    // e.g. /params/name
	NewType string `json:"newtype,omitempty"` // for retype
	Target  string `json:"target,omitempty"`  // tool / prompt name or resource uri addressed
	Nonce   string `json:"nonce,omitempty"`
	Sess    string `json:"sess,omitempty"` // stateful Streamable only: "" live session, "stale" a deleted session's id
}

// Template builds the valid request of a method. target is the tool / prompt / uri.
func Template(method string, id *OJ, target, nonce string) *OJ {
	req := oObj("jsonrpc", oStr("2.0"), "id", id, "method", oStr(method))
	switch method {
	case "initialize":
		req.Set("params", oObj("protocolVersion", oStr("2025-03-26"), "clientInfo", oObj("name", oStr("p"), "version", oStr("1")), "capabilities", oObj()))
	case "ping":
		req.Set("params", oObj())
	case "tools/list", "prompts/list", "resources/list", "resources/templates/list":
		req.Set("params", oObj("cursor", oStr("")))
	case "tools/call":
		req.Set("params", oObj("name", oStr(target), "arguments", oObj("nonce", oStr(nonce)), "_meta", oObj("progressToken", oStr("tok"))))
	case "prompts/get":
		req.Set("params", oObj("name", oStr(target), "arguments", oObj("nonce", oStr(nonce))))
	case "resources/read", "resources/subscribe", "resources/unsubscribe":
		req.Set("params", oObj("uri", oStr(target)))
	case "completion/complete":
		req.Set("params", oObj("ref", oObj("type", oStr("ref/prompt"), "name", oStr(target)), "argument", oObj("name", oStr("a"), "value", oStr("v"))))
	}
	return req
}

// RequiredParamFields lists params members a method cannot work without.
func RequiredParamFields(method string) []string {
	switch method {
	case "initialize":
		return []string{"protocolVersion"}
	case "tools/call", "prompts/get":
		return []string{"name"}
	case "resources/read", "resources/subscribe", "resources/unsubscribe":
		return []string{"uri"}
	case "completion/complete":
		return []string{"ref"}
	}
	return nil
}

// NeedsParams reports whether the method cannot work without a params object.
func NeedsParams(method string) bool { return len(RequiredParamFields(method)) > 0 }

func pathString(p []string) string { return "/" + strings.Join(p, "/") }

// mutablePaths lists the paths (up to two levels below params) present in a template.
func mutablePaths(t *OJ) [][]string {
	var out [][]string
	for _, k := range t.Keys {
		out = append(out, []string{k})
	}
	if p := t.Get("params"); p != nil && p.K == 'o' {
		for i, k := range p.Keys {
			out = append(out, []string{"params", k})
			if p.Vals[i].K == 'o' {
				for _, k2 := range p.Vals[i].Keys {
					out = append(out, []string{"params", k, k2})
				}
			}
		}
	}
	return out
}

func compactID(o *OJ) string {
	if o == nil {
		return ""
	}
	return string(o.Bytes())
}

// ApplyMutation returns the mutated request; ok=false when the mutation does not apply.
func ApplyMutation(t *OJ, mut string, path []string, newType string) (*OJ, bool) {
	r := t.Clone()
	parent := r.At(path[:len(path)-1])
	last := path[len(path)-1]
	if parent == nil || parent.K != 'o' {
		return nil, false
	}
	cur := parent.Get(last)
	switch mut {
	case "remove":
		if cur == nil {
			return nil, false
		}
		parent.Del(last)
	case "retype":
		if cur == nil || typeNameOf(cur) == newType {
			return nil, false
		}
		if (typeNameOf(cur) == "int" && newType == "float") || (typeNameOf(cur) == "float" && newType == "int") {
			// still a retype (integral vs fractional)
		}
		parent.Set(last, retypeValue(newType))
	case "dup":
		if cur == nil {
			return nil, false
		}
		parent.Keys = append(parent.Keys, last)
		parent.Vals = append(parent.Vals, retypeValue(newType))
	case "addkey":
		parent.Set("zzUnknownKey", retypeValue(newType))
	default:
		return nil, false
	}
	return r, true
}

// MakeStep serialises a (possibly mutated) request and records its metadata.
func MakeStep(method string, req *OJ, mut string, path []string, newType, target, nonce string) ReqStep {
	st := ReqStep{Raw: string(req.Bytes()), Method: method, Mut: mut, NewType: newType, Target: target, Nonce: nonce}
	if len(path) > 0 {
		st.Path = pathString(path)
	}
	if id := req.Get("id"); id != nil {
		st.ID = compactID(id)
	}
	return st
}

// AllMutants enumerates the complete field x operation x JSON-type lattice of one method's template.
func AllMutants(method string, id *OJ, target, nonce string) []ReqStep {
	t := Template(method, id, target, nonce)
	out := []ReqStep{MakeStep(method, t, "none", nil, "", target, nonce)}
	for _, p := range mutablePaths(t) {
		if r, ok := ApplyMutation(t, "remove", p, ""); ok {
			out = append(out, MakeStep(method, r, "remove", p, "", target, nonce))
		}
		for _, nt := range retypeNames {
			if r, ok := ApplyMutation(t, "retype", p, nt); ok {
				out = append(out, MakeStep(method, r, "retype", p, nt, target, nonce))
			}
			if r, ok := ApplyMutation(t, "dup", p, nt); ok {
				out = append(out, MakeStep(method, r, "dup", p, nt, target, nonce))
			}
		}
	}
	for _, p := range [][]string{{"zz"}, {"params", "zz"}} {
		for _, nt := range []string{"null", "string", "object"} {
			if r, ok := ApplyMutation(t, "addkey", p, nt); ok {
				out = append(out, MakeStep(method, r, "addkey", p[:len(p)-1], nt, target, nonce))
			}
		}
	}
	// unknown method / wrong version
	um := t.Clone()
	um.Set("method", oStr("zz/"+method))
	out = append(out, MakeStep(method, um, "unknownmethod", []string{"method"}, "", target, nonce))
	bv := t.Clone()
	bv.Set("jsonrpc", oStr("1.0"))
	out = append(out, MakeStep(method, bv, "badversion", []string{"jsonrpc"}, "", target, nonce))
	return out
}

// ---------------------------------------------------------------------------
// rapid generators

var namePool = []string{"alpha", "beta", "gamma", "delta", "tool-é", "t/x", "名前", "a b"}
var uriPool = []string{"file:///a.txt", "mem://b", "x:c?d=e", "file:///日本.md"}

// GenRegSpec draws a registration set with colliding-free names.
func GenRegSpec(t *rapid.T, allowOutcomes []int, forStdio bool) RegSpec {
	var reg RegSpec
	nt := rapid.IntRange(0, 3).Draw(t, "ntools")
	used := map[string]bool{}
	for i := 0; i < nt; i++ {
		name := rapid.SampledFrom(namePool).Draw(t, "tname")
		if used[name] {
			continue
		}
		used[name] = true
		out := rapid.SampledFrom(allowOutcomes).Draw(t, "outcome")
		reg.Tools = append(reg.Tools, ToolSpec{Name: name, Desc: "d-" + name, Outcome: out, ErrMsg: "boom-" + name})
	}
	np := rapid.IntRange(0, 2).Draw(t, "nprompts")
	used = map[string]bool{}
	for i := 0; i < np; i++ {
		name := rapid.SampledFrom(namePool).Draw(t, "pname")
		if used[name] {
			continue
		}
		used[name] = true
		reg.Prompts = append(reg.Prompts, PromptSpec{Name: name, Desc: "p-" + name, Args: []string{"nonce"}, Fail: rapid.IntRange(0, 3).Draw(t, "pfail") == 0, ErrMsg: "pboom-" + name})
	}
	nr := rapid.IntRange(0, 2).Draw(t, "nres")
	used = map[string]bool{}
	for i := 0; i < nr; i++ {
		uri := rapid.SampledFrom(uriPool).Draw(t, "uri")
		if used[uri] {
			continue
		}
		used[uri] = true
		reg.Resources = append(reg.Resources, ResSpec{URI: uri, Name: "r" + strconv.Itoa(i), Mime: "text/plain",
			Blob: rapid.Bool().Draw(t, "blob"), Multi: rapid.Bool().Draw(t, "multi"),
			Fail: rapid.IntRange(0, 3).Draw(t, "rfail") == 0, ErrMsg: "rboom-" + strconv.Itoa(i)})
	}
	return reg
}

// GenID draws a request id inside the property's domain (strings; integers up to 2^53).
func GenID(t *rapid.T, label string) *OJ {
	switch rapid.IntRange(0, 9).Draw(t, label+"kind") {
	case 0:
		return oStr("")
	case 1:
		return oStr(rapid.SampledFrom([]string{"1", "a", "id-é", "\"q\"", "0", "null", "💥", "a\nb", "a\ndata: x", "x\r\ny", "a\n\nb", "id: 7\nretry: 1", "job-100%", "%d%s%v%n", "a\\b", "\u2028", "<>&"}).Draw(t, label+"s"))
	case 2:
		return oInt(rapid.SampledFrom([]int64{0, -1, 1 << 31, 1<<53 - 1, 1 << 53, -(1 << 53), 1e15}).Draw(t, label+"big"))
	case 3:
		return oStr(rapid.StringMatching(`[a-zA-Z0-9_\-]{1,12}`).Draw(t, label+"rs"))
	default:
		return oInt(int64(rapid.IntRange(1, 100000).Draw(t, label+"i")))
	}
}

// targetFor draws the tool / prompt / uri a request addresses (registered or not).
func targetFor(t *rapid.T, method string, reg RegSpec) string {
	pickReg := rapid.IntRange(0, 3).Draw(t, "hit") != 0
	switch method {
	case "tools/call":
		if pickReg && len(reg.Tools) > 0 {
			return reg.Tools[rapid.IntRange(0, len(reg.Tools)-1).Draw(t, "ti")].Name
		}
		return rapid.SampledFrom(append([]string{"nope", ""}, namePool...)).Draw(t, "tn")
	case "prompts/get", "completion/complete":
		if pickReg && len(reg.Prompts) > 0 {
			return reg.Prompts[rapid.IntRange(0, len(reg.Prompts)-1).Draw(t, "pi")].Name
		}
		return rapid.SampledFrom(append([]string{"nope", ""}, namePool...)).Draw(t, "pn")
	case "resources/read", "resources/subscribe", "resources/unsubscribe":
		if pickReg && len(reg.Resources) > 0 {
			return reg.Resources[rapid.IntRange(0, len(reg.Resources)-1).Draw(t, "ri")].URI
		}
		return rapid.SampledFrom(append([]string{"nope://x", ""}, uriPool...)).Draw(t, "rn")
	}
	return ""
}

// GenStep draws one request (valid or mutated).
func GenStep(t *rapid.T, methods []string, reg RegSpec, idx int, mutateProb int) ReqStep {
	method := rapid.SampledFrom(methods).Draw(t, "method")
	id := GenID(t, "id")
	target := targetFor(t, method, reg)
	nonce := fmt.Sprintf("n%d-%d%s", idx, rapid.IntRange(0, 1<<20).Draw(t, "nonce"), rapid.SampledFrom([]string{"", "", "", "%", "%d%s", "\\", "\"", "\n", "\u2028é💥", "<&>"}).Draw(t, "noncesfx"))
	tmpl := Template(method, id, target, nonce)
	if rapid.IntRange(0, 99).Draw(t, "mutate?") >= mutateProb {
		return MakeStep(method, tmpl, "none", nil, "", target, nonce)
	}
	switch rapid.IntRange(0, 9).Draw(t, "mutkind") {
	case 0:
		um := tmpl.Clone()
		um.Set("method", oStr(rapid.SampledFrom([]string{"zz/unknown", "Tools/List", "tools/call ", "", "rpc.discover", "notifications/initialized"}).Draw(t, "um")))
		if um.Get("method").S == "" {
			// empty method: shaped like a response; keep it as a retype-like malformed message
			return MakeStep(method, um, "remove", []string{"method"}, "", target, nonce)
		}
		if um.Get("method").S == "notifications/initialized" {
			um.Set("method", oStr("zz/unknown2"))
		}
		return MakeStep(method, um, "unknownmethod", []string{"method"}, "", target, nonce)
	case 1:
		bv := tmpl.Clone()
		bv.Set("jsonrpc", oStr(rapid.SampledFrom([]string{"1.0", "2", "", "2.00"}).Draw(t, "bv")))
		return MakeStep(method, bv, "badversion", []string{"jsonrpc"}, "", target, nonce)
	}
	paths := mutablePaths(tmpl)
	p := paths[rapid.IntRange(0, len(paths)-1).Draw(t, "path")]
	mut := rapid.SampledFrom([]string{"remove", "retype", "retype", "retype", "dup", "addkey"}).Draw(t, "mut")
	nt := rapid.SampledFrom(retypeNames).Draw(t, "newtype")
	if mut == "addkey" {
		p = append(append([]string(nil), p[:len(p)-1]...), "zz")
	}
	if r, ok := ApplyMutation(tmpl, mut, p, nt); ok {
		if mut == "addkey" {
			p = p[:len(p)-1]
		}
		return MakeStep(method, r, mut, p, nt, target, nonce)
	}
	return MakeStep(method, tmpl, "none", nil, "", target, nonce)
}

// sortedKeys is a tiny helper for deterministic iteration.
func sortedKeys[V any](m map[string]V) []string {
	ks := make([]string, 0, len(m))
	for k := range m {
		ks = append(ks, k)
	}
	sort.Strings(ks)
	return ks
}
