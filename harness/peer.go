package harness

// Independent reference peers: a WHATWG SSE parser, a raw HTTP peer over a
// unix-domain socket (none of the library's client code), a strict stdio line
// splitter. These define what a "standards-conforming reader" recovers.

import (
	"bufio"
	"bytes"
	"context"
	"fmt"
	"io"
	"net"
	"net/http"
	"os"
	"path/filepath"
	"strings"
	"sync"
	"sync/atomic"
	"time"
)

// ---------------------------------------------------------------------------
// SSE (WHATWG HTML "server-sent events" event stream interpretation)

// SSEEvent is one dispatched event.
type SSEEvent struct {
	ID    string
	Event string // "" means "message"
	Data  string
	HasID bool
}

// SSEParser incrementally parses an event stream.
type SSEParser struct {
	buf      []byte
	first    bool
	data     []string
	hasData  bool
	event    string
	lastID   string
	idSet    bool
	Comments []string
	out      []SSEEvent
	sawCR    bool
}

// NewSSEParser returns a parser positioned at the start of a stream.
func NewSSEParser() *SSEParser { return &SSEParser{first: true} }

// Feed consumes bytes and returns the events completed by them.
func (p *SSEParser) Feed(b []byte) []SSEEvent {
	p.buf = append(p.buf, b...)
	if p.first && len(p.buf) >= 3 {
		if bytes.HasPrefix(p.buf, []byte{0xEF, 0xBB, 0xBF}) {
			p.buf = p.buf[3:]
		}
		p.first = false
	}
	for {
		// find a line end: CRLF, LF or CR
		i := bytes.IndexAny(p.buf, "\r\n")
		if i < 0 {
			break
		}
		if p.buf[i] == '\r' {
			if i+1 >= len(p.buf) {
				// need one more byte to know whether CRLF; wait (unless stream ends)
				break
			}
			line := string(p.buf[:i])
			if p.buf[i+1] == '\n' {
				p.buf = p.buf[i+2:]
			} else {
				p.buf = p.buf[i+1:]
			}
			p.line(line)
			continue
		}
		line := string(p.buf[:i])
		p.buf = p.buf[i+1:]
		p.line(line)
	}
	out := p.out
	p.out = nil
	return out
}

func (p *SSEParser) line(line string) {
	if line == "" {
		if p.hasData {
			p.out = append(p.out, SSEEvent{ID: p.lastID, HasID: p.idSet, Event: p.event, Data: strings.Join(p.data, "\n")})
		}
		p.data, p.hasData, p.event, p.idSet = nil, false, "", false
		return
	}
	if line[0] == ':' {
		p.Comments = append(p.Comments, line[1:])
		return
	}
	field, value := line, ""
	if i := strings.IndexByte(line, ':'); i >= 0 {
		field, value = line[:i], line[i+1:]
		value = strings.TrimPrefix(value, " ")
	}
	switch field {
	case "event":
		p.event = value
	case "data":
		p.data = append(p.data, value)
		p.hasData = true
	case "id":
		if !strings.Contains(value, "\x00") {
			p.lastID = value
			p.idSet = true
		}
	}
}

// ParseSSE parses a complete stream (an unterminated trailing event is discarded, as the standard says).
func ParseSSE(b []byte) ([]SSEEvent, []string) {
	p := NewSSEParser()
	ev := p.Feed(b)
	return ev, p.Comments
}

// ---------------------------------------------------------------------------
// unix-socket HTTP plumbing

var sockSeq atomic.Int64

var sockDirOnce sync.Once
var sockDir string

func newSockPath() string {
	sockDirOnce.Do(func() {
		d, err := os.MkdirTemp("", "vs")
		if err != nil {
			panic(err)
		}
		sockDir = d
	})
	return filepath.Join(sockDir, fmt.Sprintf("%d.s", sockSeq.Add(1)))
}

// UnixServer serves an http.Handler on a fresh unix socket.
type UnixServer struct {
	Path     string
	srv      *http.Server
	ln       net.Listener
	panicMu  sync.Mutex
	Panics   []string
	connMu   sync.Mutex
	conns    map[net.Conn]bool
	ConnSeen atomic.Int64
}

type panicWriter struct{ u *UnixServer }

func (w panicWriter) Write(b []byte) (int, error) {
	s := string(b)
	if strings.Contains(s, "panic") {
		w.u.panicMu.Lock()
		w.u.Panics = append(w.u.Panics, s)
		w.u.panicMu.Unlock()
	}
	return len(b), nil
}

// ServeUnix starts serving h; Close stops it and removes the socket.
func ServeUnix(h http.Handler) *UnixServer {
	path := newSockPath()
	ln, err := net.Listen("unix", path)
	if err != nil {
		panic(err)
	}
	u := &UnixServer{Path: path, ln: ln, conns: map[net.Conn]bool{}}
	u.srv = &http.Server{Handler: h, ErrorLog: newStdLogger(panicWriter{u}),
		ConnState: func(c net.Conn, st http.ConnState) {
			u.connMu.Lock()
			if st == http.StateNew {
				u.conns[c] = true
				u.ConnSeen.Add(1)
			} else if st == http.StateClosed || st == http.StateHijacked {
				delete(u.conns, c)
			}
			u.connMu.Unlock()
		}}
	go u.srv.Serve(ln)
	return u
}

// PanicLines returns "http: panic serving" lines captured so far.
func (u *UnixServer) PanicLines() []string {
	u.panicMu.Lock()
	defer u.panicMu.Unlock()
	return append([]string(nil), u.Panics...)
}

// OpenConns is the number of connections currently open on the server side.
func (u *UnixServer) OpenConns() int {
	u.connMu.Lock()
	defer u.connMu.Unlock()
	return len(u.conns)
}

// Close shuts the server down hard.
func (u *UnixServer) Close() {
	_ = u.srv.Close()
	_ = os.Remove(u.Path)
}

// UnixHTTPClient returns an http.Client whose every connection dials path.
func UnixHTTPClient(path string) *http.Client {
	tr := &http.Transport{
		DialContext: func(ctx context.Context, _, _ string) (net.Conn, error) {
			var d net.Dialer
			return d.DialContext(ctx, "unix", path)
		},
		MaxIdleConns:        64,
		MaxIdleConnsPerHost: 64,
		IdleConnTimeout:     30 * time.Second,
		DisableCompression:  true,
	}
	return &http.Client{Transport: tr}
}

// ---------------------------------------------------------------------------
// raw HTTP peer

// RawResp is what the raw peer saw.
type RawResp struct {
	Status int
	Header http.Header
	Body   []byte
	Err    error
}

// Peer is a raw HTTP peer bound to one server.
type Peer struct {
	HC   *http.Client
	Base string // e.g. http://verif
}

// NewPeer builds a peer for a unix-socket server.
func NewPeer(sock string) *Peer {
	return &Peer{HC: UnixHTTPClient(sock), Base: "http://verif"}
}

// Close drops idle connections.
func (p *Peer) Close() {
	if tr, ok := p.HC.Transport.(*http.Transport); ok {
		tr.CloseIdleConnections()
	}
}

// Do sends one request and reads the whole body (with a bound so that a
// stream that never ends cannot hang the harness).
func (p *Peer) Do(method, path string, hdr map[string]string, body []byte, bound time.Duration) RawResp {
	ctx, cancel := context.WithTimeout(context.Background(), bound)
	defer cancel()
	var rd io.Reader
	if body != nil {
		rd = bytes.NewReader(body)
	}
	req, err := http.NewRequestWithContext(ctx, method, p.Base+path, rd)
	if err != nil {
		return RawResp{Err: err}
	}
	for k, v := range hdr {
		req.Header[k] = []string{v}
	}
	resp, err := p.HC.Do(req)
	if err != nil {
		return RawResp{Err: err}
	}
	defer resp.Body.Close()
	b, err := io.ReadAll(resp.Body)
	return RawResp{Status: resp.StatusCode, Header: resp.Header, Body: b, Err: err}
}

// Stream is an open event stream read by the harness.
type Stream struct {
	Status int
	Header http.Header
	resp   *http.Response
	cancel context.CancelFunc

	mu     sync.Mutex
	cond   *sync.Cond
	raw    []byte
	events []SSEEvent
	parser *SSEParser
	eof    bool
	err    error
}

// OpenStream issues a GET (or any method) and keeps reading the body in the background.
func (p *Peer) OpenStream(method, path string, hdr map[string]string, body []byte) (*Stream, error) {
	ctx, cancel := context.WithCancel(context.Background())
	var rd io.Reader
	if body != nil {
		rd = bytes.NewReader(body)
	}
	req, err := http.NewRequestWithContext(ctx, method, p.Base+path, rd)
	if err != nil {
		cancel()
		return nil, err
	}
	for k, v := range hdr {
		req.Header[k] = []string{v}
	}
	resp, err := p.HC.Do(req)
	if err != nil {
		cancel()
		return nil, err
	}
	s := &Stream{Status: resp.StatusCode, Header: resp.Header, resp: resp, cancel: cancel, parser: NewSSEParser()}
	s.cond = sync.NewCond(&s.mu)
	go s.pump()
	return s, nil
}

func (s *Stream) pump() {
	buf := make([]byte, 32*1024)
	for {
		n, err := s.resp.Body.Read(buf)
		s.mu.Lock()
		if n > 0 {
			s.raw = append(s.raw, buf[:n]...)
			s.events = append(s.events, s.parser.Feed(buf[:n])...)
		}
		if err != nil {
			s.eof = true
			s.err = err
			s.cond.Broadcast()
			s.mu.Unlock()
			return
		}
		s.cond.Broadcast()
		s.mu.Unlock()
	}
}

// Close cancels the request (the peer goes away).
func (s *Stream) Close() {
	s.cancel()
	_ = s.resp.Body.Close()
}

// Events returns a snapshot of the events parsed so far.
func (s *Stream) Events() []SSEEvent {
	s.mu.Lock()
	defer s.mu.Unlock()
	return append([]SSEEvent(nil), s.events...)
}

// Raw returns a snapshot of the raw bytes.
func (s *Stream) Raw() []byte {
	s.mu.Lock()
	defer s.mu.Unlock()
	return append([]byte(nil), s.raw...)
}

// Comments returns the comment lines seen so far.
func (s *Stream) Comments() []string {
	s.mu.Lock()
	defer s.mu.Unlock()
	return append([]string(nil), s.parser.Comments...)
}

// EOF reports whether the stream has ended.
func (s *Stream) EOF() bool {
	s.mu.Lock()
	defer s.mu.Unlock()
	return s.eof
}

// WaitEvents blocks until at least n events were parsed, the stream ended, or the bound passed.
func (s *Stream) WaitEvents(n int, bound time.Duration) []SSEEvent {
	return s.waitFor(func() bool { return len(s.events) >= n }, bound)
}

// WaitEOF blocks until the stream ended or the bound passed; reports whether it ended.
func (s *Stream) WaitEOF(bound time.Duration) bool {
	s.waitFor(func() bool { return false }, bound)
	return s.EOF()
}

func (s *Stream) waitFor(done func() bool, bound time.Duration) []SSEEvent {
	deadline := time.Now().Add(bound)
	timer := time.AfterFunc(bound, func() { s.mu.Lock(); s.cond.Broadcast(); s.mu.Unlock() })
	defer timer.Stop()
	s.mu.Lock()
	defer s.mu.Unlock()
	for !done() && !s.eof && time.Now().Before(deadline) {
		s.cond.Wait()
	}
	return append([]SSEEvent(nil), s.events...)
}

// WaitQuiet waits until no new bytes arrived for the given silence window (or the stream ended / bound passed).
func (s *Stream) WaitQuiet(silence, bound time.Duration) {
	deadline := time.Now().Add(bound)
	last := -1
	lastChange := time.Now()
	for time.Now().Before(deadline) {
		s.mu.Lock()
		n, eof := len(s.raw), s.eof
		s.mu.Unlock()
		if eof {
			return
		}
		if n != last {
			last, lastChange = n, time.Now()
		} else if time.Since(lastChange) >= silence {
			return
		}
		time.Sleep(2 * time.Millisecond)
	}
}

// ---------------------------------------------------------------------------
// stdio line peer

// SplitStdioLines splits a captured stdout stream strictly at '\n'. The
// remainder (bytes after the last newline) is returned separately.
func SplitStdioLines(b []byte) (lines [][]byte, rest []byte) {
	for {
		i := bytes.IndexByte(b, '\n')
		if i < 0 {
			return lines, b
		}
		lines = append(lines, b[:i])
		b = b[i+1:]
	}
}

// LockedBuffer is a goroutine-safe byte sink that also records write overlap.
type LockedBuffer struct {
	mu       sync.Mutex
	buf      bytes.Buffer
	inWrite  atomic.Int32
	Overlaps atomic.Int64
	Writes   atomic.Int64
	Delay    func(n int) // optional schedule perturbation, called inside Write before appending
	notify   chan struct{}
}

// NewLockedBuffer returns an empty buffer.
func NewLockedBuffer() *LockedBuffer { return &LockedBuffer{notify: make(chan struct{}, 1)} }

func (l *LockedBuffer) Write(p []byte) (int, error) {
	if l.inWrite.Add(1) > 1 {
		l.Overlaps.Add(1)
	}
	defer l.inWrite.Add(-1)
	l.Writes.Add(1)
	if l.Delay != nil {
		l.Delay(len(p))
	}
	l.mu.Lock()
	l.buf.Write(p)
	l.mu.Unlock()
	select {
	case l.notify <- struct{}{}:
	default:
	}
	return len(p), nil
}

// Bytes returns a copy of the content.
func (l *LockedBuffer) Bytes() []byte {
	l.mu.Lock()
	defer l.mu.Unlock()
	return append([]byte(nil), l.buf.Bytes()...)
}

// Len returns the number of bytes written so far.
func (l *LockedBuffer) Len() int {
	l.mu.Lock()
	defer l.mu.Unlock()
	return l.buf.Len()
}

// WaitLines waits until at least n newline characters were written or the bound passed.
func (l *LockedBuffer) WaitLines(n int, bound time.Duration) bool {
	deadline := time.Now().Add(bound)
	for {
		if bytes.Count(l.Bytes(), []byte{'\n'}) >= n {
			return true
		}
		rem := time.Until(deadline)
		if rem <= 0 {
			return false
		}
		if rem > 5*time.Millisecond {
			rem = 5 * time.Millisecond
		}
		select {
		case <-l.notify:
		case <-time.After(rem):
		}
	}
}

// WaitQuiet waits until nothing was written for the silence window.
func (l *LockedBuffer) WaitQuiet(silence, bound time.Duration) {
	deadline := time.Now().Add(bound)
	last, lastChange := -1, time.Now()
	for time.Now().Before(deadline) {
		n := l.Len()
		if n != last {
			last, lastChange = n, time.Now()
		} else if time.Since(lastChange) >= silence {
			return
		}
		time.Sleep(time.Millisecond)
	}
}

// lineReader helps tests that feed a stdio server.
func feedLines(w io.Writer, lines ...[]byte) {
	bw := bufio.NewWriter(w)
	for _, l := range lines {
		bw.Write(l)
		bw.WriteByte('\n')
	}
	bw.Flush()
}

// ---------------------------------------------------------------------------
// in-process live response (no sockets): a ResponseWriter the harness owns

// LiveResp runs a handler in its own goroutine against a ResponseWriter that
// records everything, lets the harness watch the stream while the handler is
// still running, end the request (peer goes away) and detect writes that
// happen after the handler has returned.
type LiveResp struct {
	mu         sync.Mutex
	cond       *sync.Cond
	header     http.Header
	sentHeader http.Header // what the peer gets: the header map as it was when the response was committed (first WriteHeader / Write / Flush)
	status     int
	wrote      bool
	body       []byte
	events     []SSEEvent
	parser     *SSEParser
	flushes    int
	returned   bool
	panicVal   interface{}
	lateWrites int
	cancel     context.CancelFunc
	Goid       string
	inWrite    int32
	Overlaps   int64
	// WriteHook, if set, is called (outside the lock) at the start of every Write / Flush: schedule perturbation.
	WriteHook func(kind string, n int)
	// WriteHookBytes, if set, is called (outside the lock) with the bytes of every Write.
	WriteHookBytes func(p []byte)
	// FailWrites makes Write return an error (peer gone) once set.
	failWrites atomic.Bool
}

// Header implements http.ResponseWriter.
func (l *LiveResp) Header() http.Header { return l.header }

// WriteHeader implements http.ResponseWriter.
func (l *LiveResp) WriteHeader(code int) {
	l.mu.Lock()
	if !l.wrote {
		l.wrote = true
		l.sentHeader = l.header.Clone()
		l.status = code
	}
	if l.returned {
		l.lateWrites++
	}
	l.cond.Broadcast()
	l.mu.Unlock()
}

func (l *LiveResp) Write(p []byte) (int, error) {
	if atomic.AddInt32(&l.inWrite, 1) > 1 {
		atomic.AddInt64(&l.Overlaps, 1)
	}
	defer atomic.AddInt32(&l.inWrite, -1)
	if h := l.WriteHook; h != nil {
		h("write", len(p))
	}
	if h := l.WriteHookBytes; h != nil {
		h(p)
	}
	l.mu.Lock()
	defer l.mu.Unlock()
	if l.returned {
		l.lateWrites++
		return 0, fmt.Errorf("http: write on a response whose handler has returned")
	}
	if l.failWrites.Load() {
		return 0, fmt.Errorf("write: broken pipe")
	}
	if !l.wrote {
		l.wrote = true
		l.sentHeader = l.header.Clone()
		l.status = 200
	}
	l.body = append(l.body, p...)
	l.events = append(l.events, l.parser.Feed(p)...)
	l.cond.Broadcast()
	return len(p), nil
}

// Flush implements http.Flusher.
func (l *LiveResp) Flush() {
	// a Flush is an operation on the ResponseWriter like a Write: two of them at once is a concurrent use of one stream
	if atomic.AddInt32(&l.inWrite, 1) > 1 {
		atomic.AddInt64(&l.Overlaps, 1)
	}
	defer atomic.AddInt32(&l.inWrite, -1)
	if h := l.WriteHook; h != nil {
		h("flush", 0)
	}
	l.mu.Lock()
	if l.returned {
		l.lateWrites++
	}
	if !l.wrote {
		l.wrote = true
		l.sentHeader = l.header.Clone()
		l.status = 200
	}
	l.flushes++
	l.cond.Broadcast()
	l.mu.Unlock()
}

// StartLiveHook is StartLive with a function that runs in the handler's goroutine before the handler.
func StartLiveHook(h http.Handler, method, url string, hdr map[string]string, atStart func()) *LiveResp {
	return startLive(h, method, url, hdr, nil, nil, atStart)
}

// StartLive runs handler.ServeHTTP(lr, req) in a goroutine.
func StartLive(h http.Handler, method, url string, hdr map[string]string, body []byte, hook func(string, int)) *LiveResp {
	return startLive(h, method, url, hdr, body, hook, nil)
}

func startLive(h http.Handler, method, url string, hdr map[string]string, body []byte, hook func(string, int), atStart func()) *LiveResp {
	ctx, cancel := context.WithCancel(context.Background())
	var rd io.Reader
	if body != nil {
		rd = bytes.NewReader(body)
	}
	req, _ := http.NewRequestWithContext(ctx, method, url, rd)
	req.RequestURI = req.URL.RequestURI()
	req.RemoteAddr = "verif:1"
	for k, v := range hdr {
		req.Header[k] = []string{v}
	}
	l := &LiveResp{header: http.Header{}, parser: NewSSEParser(), cancel: cancel, WriteHook: hook}
	l.cond = sync.NewCond(&l.mu)
	go func() {
		defer func() {
			r := recover()
			l.mu.Lock()
			l.panicVal = r
			l.returned = true
			l.cond.Broadcast()
			l.mu.Unlock()
		}()
		l.mu.Lock()
		l.Goid = goid()
		l.mu.Unlock()
		if atStart != nil {
			atStart()
		}
		h.ServeHTTP(l, req)
	}()
	return l
}

// HandlerGoid returns the id of the goroutine running the handler ("" until it started).
func (l *LiveResp) HandlerGoid() string {
	l.mu.Lock()
	defer l.mu.Unlock()
	return l.Goid
}

// PeerGone cancels the request context (what net/http does when the peer disconnects) and fails later writes.
func (l *LiveResp) PeerGone() {
	l.failWrites.Store(true)
	l.cancel()
}

func (l *LiveResp) wait(done func() bool, bound time.Duration) bool {
	deadline := time.Now().Add(bound)
	timer := time.AfterFunc(bound, func() { l.mu.Lock(); l.cond.Broadcast(); l.mu.Unlock() })
	defer timer.Stop()
	l.mu.Lock()
	defer l.mu.Unlock()
	for !done() {
		if !time.Now().Before(deadline) {
			return false
		}
		l.cond.Wait()
	}
	return true
}

// WaitHeader waits until the status line was written (or the handler returned).
func (l *LiveResp) WaitHeader(bound time.Duration) bool {
	return l.wait(func() bool { return l.wrote || l.returned }, bound)
}

// WaitFlushedHeader waits until the header was written and flushed (the peer can see it) or the handler returned.
func (l *LiveResp) WaitFlushedHeader(bound time.Duration) bool {
	return l.wait(func() bool { return (l.wrote && l.flushes > 0) || l.returned }, bound)
}

// WaitReturned waits until the handler returned.
func (l *LiveResp) WaitReturned(bound time.Duration) bool {
	return l.wait(func() bool { return l.returned }, bound)
}

// WaitEvents waits for n events (or handler return).
func (l *LiveResp) WaitEvents(n int, bound time.Duration) []SSEEvent {
	l.wait(func() bool { return len(l.events) >= n || l.returned }, bound)
	return l.Events()
}

// Events returns the events parsed so far.
func (l *LiveResp) Events() []SSEEvent {
	l.mu.Lock()
	defer l.mu.Unlock()
	return append([]SSEEvent(nil), l.events...)
}

// Snapshot returns status, header, body, returned flag, panic value and number of late writes.
func (l *LiveResp) Snapshot() (status int, hdr http.Header, body []byte, returned bool, pan interface{}, late int) {
	l.mu.Lock()
	defer l.mu.Unlock()
	if l.sentHeader != nil {
		return l.status, l.sentHeader.Clone(), append([]byte(nil), l.body...), l.returned, l.panicVal, l.lateWrites
	}
	return l.status, l.header.Clone(), append([]byte(nil), l.body...), l.returned, l.panicVal, l.lateWrites
}

// Returned reports whether the handler has returned.
func (l *LiveResp) Returned() bool {
	l.mu.Lock()
	defer l.mu.Unlock()
	return l.returned
}

// Comments returns SSE comment lines seen so far.
func (l *LiveResp) Comments() []string {
	l.mu.Lock()
	defer l.mu.Unlock()
	return append([]string(nil), l.parser.Comments...)
}

// Exchange converts a finished live response into an Exchange.
func (l *LiveResp) Exchange() Exchange {
	st, h, b, _, pan, _ := l.Snapshot()
	if pan != nil {
		return Exchange{Err: fmt.Errorf("handler panic: %v", pan), Kind: "panic"}
	}
	return exchangeFromHTTP(st, h, b)
}
