package harness

import (
	"context"
	"fmt"
	"strings"
	"testing"

	"pgregory.net/rapid"
	mcp "trpc.group/trpc-go/trpc-mcp-go"
)

// C03, frames written around a handler (or middleware) that panics on a Streamable HTTP server: net/http tears the
// connection down, or the library answers on its own account - either way nothing that is not a well-formed message may
// have been written (in particular no 2xx answer that carries neither result nor error).

type C03PanicCase struct {
	Mode   Mode     `json:"mode"`   // one of the four Streamable modes
	MW     int      `json:"mw"`     // number of pass-through middlewares (0-2)
	MWDies int      `json:"mwdies"` // k > 0: the k-th middleware panics itself (before calling next) for the marked requests
	Steps  []string `json:"steps"`  // tool-ok tool-panic tool-panicerr prompt-panic res-panic tool-nilpanic list
}

func execC03Panic(c C03PanicCase) *Failure {
	var sopts []mcp.ServerOption
	for i := 0; i < c.MW; i++ {
		i := i
		sopts = append(sopts, mcp.WithMiddleware(func(next mcp.HandlerFunc) mcp.HandlerFunc {
			return func(ctx context.Context, req *mcp.JSONRPCRequest) (mcp.JSONRPCMessage, error) {
				if c.MWDies == i+1 && req.Method == "tools/call" {
					if p, ok := req.Params.(map[string]interface{}); ok && p["name"] == "mw-victim" {
						panic("middleware bug")
					}
				}
				return next(ctx, req)
			}
		}))
	}
	w := NewWorld(c.Mode, RegSpec{}, WorldOpt{ServerOpts: sopts, NoUnix: true})
	defer w.Close()
	w.Srv.RegisterTool(mcp.NewTool("ok"), func(ctx context.Context, req *mcp.CallToolRequest) (*mcp.CallToolResult, error) {
		return mcp.NewTextResult("fine"), nil
	})
	w.Srv.RegisterTool(mcp.NewTool("mw-victim"), func(ctx context.Context, req *mcp.CallToolRequest) (*mcp.CallToolResult, error) {
		return mcp.NewTextResult("fine"), nil
	})
	w.Srv.RegisterTool(mcp.NewTool("big"), func(ctx context.Context, req *mcp.CallToolRequest) (*mcp.CallToolResult, error) {
		// prose: commas, blanks, quotes and line breaks at every offset of a large answer
		return mcp.NewTextResult(strings.Repeat("lorem ipsum, \"dolor\" sit amet;\n consectetur, adipiscing elit, ", 700+len(c.Steps)*450)), nil
	})
	w.Srv.RegisterTool(mcp.NewTool("boom"), func(ctx context.Context, req *mcp.CallToolRequest) (*mcp.CallToolResult, error) {
		panic("tool bug")
	})
	w.Srv.RegisterTool(mcp.NewTool("boomerr"), func(ctx context.Context, req *mcp.CallToolRequest) (*mcp.CallToolResult, error) {
		panic(fmt.Errorf("tool bug as an error value"))
	})
	w.Srv.RegisterTool(mcp.NewTool("nilmap"), func(ctx context.Context, req *mcp.CallToolRequest) (*mcp.CallToolResult, error) {
		var m map[string]int
		m["x"] = 1 // runtime error
		return nil, nil
	})
	w.Srv.RegisterPrompt(&mcp.Prompt{Name: "boom"}, func(ctx context.Context, req *mcp.GetPromptRequest) (*mcp.GetPromptResult, error) {
		panic("prompt bug")
	})
	w.Srv.RegisterResource(&mcp.Resource{URI: "file:///boom", Name: "boom"}, func(ctx context.Context, req *mcp.ReadResourceRequest) (mcp.ResourceContents, error) {
		panic("resource bug")
	})
	hdr := map[string]string{"Content-Type": "application/json", "Accept": "application/json, text/event-stream"}
	if c.Mode.Stateful() {
		ex := w.Direct("POST", "/mcp", hdr, InitRequest("0", "2025-03-26"))
		sid := ex.Header.Get("Mcp-Session-Id")
		if sid == "" {
			return Failf("C03/connect", "%s: no session id from the handshake (status %d)", c.Mode, ex.Status)
		}
		hdr["Mcp-Session-Id"] = sid
		w.Direct("POST", "/mcp", hdr, []byte(`{"jsonrpc":"2.0","method":"notifications/initialized"}`))
	}
	bodies := map[string]string{
		"tool-ok":       `{"jsonrpc":"2.0","id":%d,"method":"tools/call","params":{"name":"ok","arguments":{}}}`,
		"tool-panic":    `{"jsonrpc":"2.0","id":%d,"method":"tools/call","params":{"name":"boom","arguments":{}}}`,
		"tool-panicerr": `{"jsonrpc":"2.0","id":%d,"method":"tools/call","params":{"name":"boomerr","arguments":{}}}`,
		"tool-nilpanic": `{"jsonrpc":"2.0","id":%d,"method":"tools/call","params":{"name":"nilmap","arguments":{}}}`,
		"mw-victim":     `{"jsonrpc":"2.0","id":%d,"method":"tools/call","params":{"name":"mw-victim","arguments":{}}}`,
		"prompt-panic":  `{"jsonrpc":"2.0","id":%d,"method":"prompts/get","params":{"name":"boom"}}`,
		"res-panic":     `{"jsonrpc":"2.0","id":%d,"method":"resources/read","params":{"uri":"file:///boom"}}`,
		"list":          `{"jsonrpc":"2.0","id":%d,"method":"tools/list"}`,
		"tool-big":      `{"jsonrpc":"2.0","id":%d,"method":"tools/call","params":{"name":"big","arguments":{}}}`,
	}
	for i, st := range c.Steps {
		raw := fmt.Sprintf(bodies[st], i+1)
		ex := w.Direct("POST", "/mcp", hdr, []byte(raw))
		where := fmt.Sprintf("%s, %d middlewares (the %d-th panics for its victim), step %d %s", c.Mode, c.MW, c.MWDies, i, st)
		dies := st != "tool-ok" && st != "list" && st != "tool-big" && !(st == "mw-victim" && c.MWDies == 0)
		if ex.Kind == "panic" {
			if !dies {
				return Failf("C03/panic-without-cause", "%s: the request was torn down by a panic although nothing of the application panics for it: %v", where, ex.Err)
			}
			continue // the connection is torn down: no message
		}
		for _, fr := range ex.Frames {
			f, fail := decodeFrame(fr, true)
			if fail != nil {
				fail.Msg = where + ": " + fail.Msg
				return fail
			}
			if (f.Kind == "response" || f.Kind == "error") && !sameID(fmt.Sprint(i+1), f.V["id"]) {
				return Failf("C03/answer-id", "%s: answered under id %v", where, f.V["id"])
			}
		}
		if ex.Status >= 200 && ex.Status < 300 && len(ex.Frames) == 0 && len(ex.Body) > 0 {
			return Failf("C03/frame-not-json", "%s: HTTP %d with a body that carries no message: %.200q", where, ex.Status, ex.Body)
		}
		if !dies {
			if len(ex.Frames) == 0 {
				return Failf("C03/no-answer/"+st, "%s: no answer (status %d)", where, ex.Status)
			}
			last, _ := decodeFrame(ex.Frames[len(ex.Frames)-1], true)
			if last == nil || last.Kind != "response" {
				return Failf("C03/healthy-request-fails", "%s: a request nothing panics for was answered %.200q", where, ex.Frames[len(ex.Frames)-1])
			}
		} else if ex.Status >= 200 && ex.Status < 300 && len(ex.Frames) > 0 {
			// the library answered on its own account: that answer must say that the request failed
			last, _ := decodeFrame(ex.Frames[len(ex.Frames)-1], true)
			if last != nil && last.Kind == "response" {
				if r, ok := last.V["result"].(map[string]interface{}); !ok || r["isError"] != true {
					return Failf("C03/panic-answered-as-success", "%s: the handler panicked and the request was answered with a result: %.200q", where, last.Raw)
				}
			}
		}
	}
	return nil
}

func TestC03Panic(t *testing.T) {
	RunProp(t, Prop[C03PanicCase]{ID: "C03",
		Gen: func(t *rapid.T) C03PanicCase {
			c := C03PanicCase{Mode: rapid.SampledFrom([]Mode{ModeSJ, ModeSS, ModeLJ, ModeLS}).Draw(t, "mode"), MW: rapid.IntRange(0, 2).Draw(t, "mw")}
			if c.MW > 0 && rapid.Bool().Draw(t, "mwdies") {
				c.MWDies = rapid.IntRange(1, c.MW).Draw(t, "which")
			}
			n := rapid.IntRange(1, 6).Draw(t, "nsteps")
			for i := 0; i < n; i++ {
				c.Steps = append(c.Steps, rapid.SampledFrom([]string{"tool-ok", "tool-panic", "tool-panicerr", "tool-nilpanic", "mw-victim", "prompt-panic", "res-panic", "list", "tool-big"}).Draw(t, "step"))
			}
			return c
		},
		Exec: execC03Panic,
		NT: func(c C03PanicCase) (bool, []string) {
			p := false
			for _, s := range c.Steps {
				if s != "tool-ok" && s != "list" && s != "tool-big" {
					p = true
				}
			}
			return p && c.MW > 0, []string{"mode=" + c.Mode.String(), fmt.Sprintf("mw=%d", c.MW)}
		}})
}
