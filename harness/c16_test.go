package harness

import (
	"context"
	"encoding/json"
	"errors"
	"fmt"
	"os"
	"path/filepath"
	"strings"
	"sync"
	"sync/atomic"
	"syscall"
	"testing"
	"time"

	"pgregory.net/rapid"
	mcp "trpc.group/trpc-go/trpc-mcp-go"
)

// ---------------------------------------------------------------------------
// C16 server half: version negotiation, serverInfo, advertised capabilities

type C16Step struct {
	Op      string   `json:"op"` // init regtool regprompt regresource initburst
	Version string   `json:"version,omitempty"`
	Burst   []string `json:"burst,omitempty"`  // initburst: the versions requested by handshakes issued at the same time (one goroutine each)
	Rounds  int      `json:"rounds,omitempty"` // initburst: every goroutine repeats its handshake this many times
}

type C16Case struct {
	Mode    Mode      `json:"mode"`
	Name    string    `json:"name"`
	Version string    `json:"version"`
	Steps   []C16Step `json:"steps"`
}

var c16Versions = []string{"2025-03-26", "2024-11-05", "2025-03-26", "2024-11-05", "2025-03-27", "2024-11-5", "2025-03-26 ", " 2025-03-26", "2025-03", "2025-03-26-draft",
	"", "1.0", "latest", "2025-06-18", "２０２５-03-26", "2025-03-26\x00", strings.Repeat("2025-03-26", 50), "DRAFT-2025-v1", "2024-11-05\n"}

func genC16(t *rapid.T) C16Case {
	c := C16Case{Mode: Mode(rapid.IntRange(0, int(NumModes)-1).Draw(t, "mode")),
		Name:    rapid.SampledFrom([]string{"srv", "", "名前 server", "a\"b\\c", "x<y>&z"}).Draw(t, "name"),
		Version: rapid.SampledFrom([]string{"1.0.0", "", "v2-β", "0"}).Draw(t, "version")}
	n := rapid.IntRange(1, 8).Draw(t, "nsteps")
	for i := 0; i < n; i++ {
		op := rapid.SampledFrom([]string{"init", "init", "init", "init", "regtool", "regprompt", "regresource", "initburst", "reinit"}).Draw(t, "op")
		st := C16Step{Op: op}
		if op == "init" {
			st.Version = rapid.SampledFrom(c16Versions).Draw(t, "ver")
		}
		if op == "reinit" {
			st.Burst = []string{rapid.SampledFrom(c16Versions[:2]).Draw(t, "firstver")}
			st.Version = rapid.SampledFrom(c16Versions).Draw(t, "ver")
		}
		if op == "initburst" {
			k := rapid.IntRange(2, 16).Draw(t, "burst")
			for j := 0; j < k; j++ {
				st.Burst = append(st.Burst, rapid.SampledFrom(c16Versions[:6]).Draw(t, "bver"))
			}
			st.Rounds = rapid.SampledFrom([]int{1, 10, 60}).Draw(t, "rounds")
			if c.Mode == ModeStdio || c.Mode == ModeLegacy {
				st.Rounds = 1 + st.Rounds/20 // a handshake costs a connection there
			}
		}
		c.Steps = append(c.Steps, st)
	}
	return c
}

func ntC16(c C16Case) (bool, []string) {
	nt := false
	regBefore := false
	for _, s := range c.Steps {
		if s.Op == "initburst" || s.Op == "reinit" {
			nt = true
		} else if s.Op != "init" {
			regBefore = true
		} else if (s.Version != "2025-03-26" && s.Version != "2024-11-05") || regBefore {
			nt = true
		}
	}
	return nt, []string{"mode=" + c.Mode.String()}
}

func execC16(c C16Case) *Failure {
	w := NewWorld(c.Mode, RegSpec{}, WorldOpt{Name: c.Name + "\x01", Version: c.Version})
	defer w.Close()
	name := c.Name + "\x01"
	_ = name
	var r Registrar
	switch {
	case w.Srv != nil:
		r = RegistrarOf(w.Srv)
	case w.SSE != nil:
		r = RegistrarOf(w.SSE)
	default:
		r = RegistrarOf(w.Stdio)
	}
	prompts, resources, seq := 0, 0, 0
	for i, st := range c.Steps {
		seq++
		switch st.Op {
		case "regtool":
			w.Register(r, RegSpec{Tools: []ToolSpec{{Name: fmt.Sprintf("t%d", seq)}}})
			continue
		case "regprompt":
			w.Register(r, RegSpec{Prompts: []PromptSpec{{Name: fmt.Sprintf("p%d", seq)}}})
			prompts++
			continue
		case "regresource":
			// registered with a single-content or a multi-content handler (RegisterResource / RegisterResources), alternately
			w.Register(r, RegSpec{Resources: []ResSpec{{URI: fmt.Sprintf("file:///r%d", seq), Name: "r", Multi: i%2 == 0}}})
			resources++
			continue
		}
		if st.Op == "initburst" {
			fails := make(chan *Failure, len(st.Burst))
			var wg sync.WaitGroup
			start := make(chan struct{})
			for _, v := range st.Burst {
				wg.Add(1)
				go func(v string) {
					defer wg.Done()
					<-start
					for r := 0; r < st.Rounds; r++ {
						if f := c16Handshake(c, w, name, i, v, prompts, resources, fmt.Sprintf(" among %d concurrent handshakes asking for %v", len(st.Burst), st.Burst)); f != nil {
							fails <- f
							return
						}
					}
				}(v)
			}
			close(start)
			wg.Wait()
			select {
			case f := <-fails:
				return f
			default:
			}
			continue
		}
		if st.Op == "reinit" {
			if f := c16HandshakeAfter(c, w, name, i, st.Burst[0], st.Version, prompts, resources, ""); f != nil {
				return f
			}
			continue
		}
		if f := c16Handshake(c, w, name, i, st.Version, prompts, resources, ""); f != nil {
			return f
		}
	}
	return nil
}

// c16Handshake performs one initialize on a connection of its own and judges the answer.
func c16Handshake(c C16Case, w *World, name string, i int, version string, prompts, resources int, note string) *Failure {
	return c16HandshakeAfter(c, w, name, i, "", version, prompts, resources, note)
}

// c16HandshakeAfter: when first is not empty, the connection has already completed a handshake asking for that version
// (initialize, then the initialized notification) and the judged initialize is a second one in the same session.
func c16HandshakeAfter(c C16Case, w *World, name string, i int, first, version string, prompts, resources int, note string) *Failure {
	st := C16Step{Version: version}
	{
		conn, err := w.Dial()
		if err != nil {
			return Failf("C16/connect", "%s: %v", c.Mode, err)
		}
		if first != "" {
			ex0 := conn.Send(InitRequest("0", first), "0", Bound()*4)
			if w.Mode.Stateful() && ex0.Header != nil {
				conn.SessionID = ex0.Header.Get("Mcp-Session-Id")
			}
			conn.Send([]byte(`{"jsonrpc":"2.0","method":"notifications/initialized"}`), "", Bound())
			note += fmt.Sprintf(" (second handshake of a session whose first one asked for %.40q)", first)
		}
		ex := conn.Send(InitRequest("1", st.Version), "1", Bound()*4)
		conn.Close()
		where := fmt.Sprintf("%s step %d initialize(version %.40q) with %d prompts %d resources registered%s", c.Mode, i, st.Version, prompts, resources, note)
		if ex.Err != nil || len(ex.Frames) != 1 {
			return TimingFailf("C16/no-answer", "%s: frames %d status %d err %v", where, len(ex.Frames), ex.Status, ex.Err)
		}
		var m struct {
			Result *struct {
				ProtocolVersion string                     `json:"protocolVersion"`
				ServerInfo      map[string]interface{}     `json:"serverInfo"`
				Capabilities    map[string]json.RawMessage `json:"capabilities"`
			} `json:"result"`
		}
		if err := json.Unmarshal(ex.Frames[0], &m); err != nil || m.Result == nil {
			return Failf("C16/no-result", "%s: %.300s", where, ex.Frames[0])
		}
		res := m.Result
		supported := st.Version == "2025-03-26" || st.Version == "2024-11-05"
		switch {
		case supported && res.ProtocolVersion != st.Version:
			return Failf("C16/version-not-echoed", "%s: answered %q", where, res.ProtocolVersion)
		case !supported && res.ProtocolVersion != "2025-03-26":
			return Failf("C16/unsupported-version-answer", "%s: answered %q, want the server's latest 2025-03-26", where, res.ProtocolVersion)
		}
		if res.ServerInfo["name"] != name || res.ServerInfo["version"] != c.Version {
			return Failf("C16/server-info", "%s: serverInfo %v, configured %q %q", where, res.ServerInfo, name, c.Version)
		}
		if _, ok := res.Capabilities["tools"]; !ok {
			return Failf("C16/tools-capability-missing", "%s: capabilities %v", where, keysOf(res.Capabilities))
		}
		if _, ok := res.Capabilities["prompts"]; ok != (prompts > 0) {
			return Failf("C16/prompts-capability", "%s: prompts capability present=%v", where, ok)
		}
		if _, ok := res.Capabilities["resources"]; ok != (resources > 0) {
			return Failf("C16/resources-capability", "%s: resources capability present=%v", where, ok)
		}
	}
	return nil
}

func keysOf(m map[string]json.RawMessage) []string { return sortedKeys(m) }

func TestC16Server(t *testing.T) {
	RunProp(t, Prop[C16Case]{ID: "C16", Gen: genC16, Exec: execC16, NT: ntC16})
}

// ---------------------------------------------------------------------------
// C16 client half: a two-state model of the three client kinds against scripted peers

type C16COp struct {
	Op   string `json:"op"`             // init op close state
	Init string `json:"init,omitempty"` // ok transport-error rpc-error malformed notify-fails
	Call string `json:"call,omitempty"` // ListTools CallTool ListPrompts GetPrompt ListResources ReadResource RootsChanged
}

type C16CCase struct {
	Kind int      `json:"kind"` // 0 streamable, 1 legacy SSE, 2 stdio
	Ops  []C16COp `json:"ops"`
	// Roots: a roots provider is set before the first handshake
	Roots bool `json:"roots,omitempty"`
}

var c16Calls = []string{"ListTools", "CallTool", "ListPrompts", "GetPrompt", "ListResources", "ReadResource", "RootsChanged"}

func genC16C(t *rapid.T) C16CCase {
	c := C16CCase{Kind: rapid.IntRange(0, 2).Draw(t, "kind")}
	n := rapid.IntRange(1, 9).Draw(t, "nops")
	for i := 0; i < n; i++ {
		op := C16COp{Op: rapid.SampledFrom([]string{"init", "init", "op", "op", "op", "close"}).Draw(t, "op")}
		if c.Kind == 0 && rapid.IntRange(0, 9).Draw(t, "lost") == 0 {
			op.Op = "lost" // the server forgets the session: from now on it answers 404 to everything but a new handshake
		}
		if c.Kind == 2 && rapid.IntRange(0, 9).Draw(t, "childdies") == 0 {
			op.Op = "childdies" // the server process is killed behind the client's back (and reaped by its watcher)
		}
		switch op.Op {
		case "init":
			// later-fail: everything the client sends during the handshake besides the two handshake messages is lost
			// (whether it sends anything else is its business; whatever Initialize then returns, state and guard must agree with it)
			op.Init = rapid.SampledFrom([]string{"ok", "ok", "transport-error", "rpc-error", "rpc-error-0", "malformed", "notify-fails", "later-fail"}).Draw(t, "init")
			if c.Kind == 2 && op.Init == "later-fail" {
				op.Init = "ok"
			}
			if c.Kind == 2 && (op.Init == "transport-error" || op.Init == "notify-fails") && rapid.IntRange(0, 7).Draw(t, "childdies") != 0 {
				// a dying stdio child costs seconds in Close (see C08); keep that class rare here
				op.Init = "rpc-error"
			}
		case "op":
			op.Call = rapid.SampledFrom(c16Calls).Draw(t, "call")
			if op.Call == "RootsChanged" && Excluded("C16/uninitialised-roots-notification") {
				CountExcluded("C16/uninitialised-roots-notification")
				op.Call = "ListTools"
			}
		}
		c.Ops = append(c.Ops, op)
	}
	c.Roots = rapid.IntRange(0, 2).Draw(t, "roots") == 0
	return c
}

func ntC16C(c C16CCase) (bool, []string) {
	event := false
	nt := false
	for _, o := range c.Ops {
		if o.Op == "op" && event {
			nt = true
		}
		if o.Op == "close" || (o.Op == "init" && o.Init != "ok") {
			event = true
		}
	}
	return nt, []string{fmt.Sprintf("kind=%d", c.Kind)}
}

func isNotInitErr(err error) bool {
	return err != nil && strings.Contains(strings.ToLower(err.Error()), "not initialized")
}

func doCall(c mcp.Connector, call string) error {
	ctx, cancel := context.WithTimeout(context.Background(), 5*time.Second)
	defer cancel()
	return doCallCtx(ctx, c, call)
}

func doCallCtx(ctx context.Context, c mcp.Connector, call string) error {
	var err error
	switch call {
	case "ListTools":
		_, err = c.ListTools(ctx, &mcp.ListToolsRequest{})
	case "CallTool":
		req := &mcp.CallToolRequest{}
		req.Params.Name = "echo"
		req.Params.Arguments = map[string]interface{}{"a": 1}
		_, err = c.CallTool(ctx, req)
	case "ListPrompts":
		_, err = c.ListPrompts(ctx, &mcp.ListPromptsRequest{})
	case "GetPrompt":
		req := &mcp.GetPromptRequest{}
		req.Params.Name = "p"
		_, err = c.GetPrompt(ctx, req)
	case "ListResources":
		_, err = c.ListResources(ctx, &mcp.ListResourcesRequest{})
	case "ReadResource":
		req := &mcp.ReadResourceRequest{}
		req.Params.URI = "file:///x"
		_, err = c.ReadResource(ctx, req)
	case "RootsChanged":
		err = c.SendRootsListChangedNotification(ctx)
	}
	return err
}

func execC16C(c C16CCase) *Failure {
	// the scripted peer's behaviour for the next handshake
	nextInit := "ok"
	fake := &FakeServer{Legacy: c.Kind == 1, Stateful: c.Kind == 0}
	var lost atomic.Bool
	fake.Plan = func(method, kind string, nth int) FakeAction {
		if method != "initialize" && lost.Load() {
			return FakeAction{Kind: "http", Status: 404}
		}
		if method == "initialize" {
			lost.Store(false)
			switch nextInit {
			case "rpc-error":
				return FakeAction{Kind: "rpc-error"}
			case "rpc-error-0":
				return FakeAction{Kind: "rpc-error-0"}
			case "malformed":
				return FakeAction{Kind: "malformed"}
			}
		}
		return FakeAction{}
	}
	var inHandshake atomic.Bool
	br := &Bridge{H: fake}
	br.Fault = func(r *SeenReq) error {
		if r.RPC == "initialize" && nextInit == "transport-error" {
			return errors.New("dial tcp 127.0.0.1:1: connect: no route to host (scripted)")
		}
		if r.RPC == "notifications/initialized" && nextInit == "notify-fails" {
			return errors.New("write tcp: broken pipe (scripted)")
		}
		if nextInit == "later-fail" && inHandshake.Load() && r.Method == "POST" && r.RPC != "initialize" && r.RPC != "notifications/initialized" {
			return errors.New("write tcp: broken pipe (scripted, after the handshake messages)")
		}
		return nil
	}
	var client mcp.Connector
	var logPath string
	specFile := ""
	switch c.Kind {
	case 0:
		cl, err := mcp.NewClient("http://fake.invalid/mcp", mcp.Implementation{Name: "c", Version: "1"}, mcp.WithHTTPReqHandler(br), mcp.WithClientLogger(nopLogger{}), mcp.WithClientGetSSEEnabled(false))
		if err != nil {
			return Failf("C16/new-client", "%v", err)
		}
		client = cl
	case 1:
		cl, err := mcp.NewSSEClient("http://fake.invalid/sse", mcp.Implementation{Name: "c", Version: "1"}, mcp.WithHTTPReqHandler(br), mcp.WithClientLogger(nopLogger{}))
		if err != nil {
			return Failf("C16/new-client", "%v", err)
		}
		client = cl
	default:
		dir, _ := os.MkdirTemp("", "c16")
		defer os.RemoveAll(dir)
		logPath = filepath.Join(dir, "child.log")
		specFile = dir
	}
	// what the operation about to be judged would send (the stdio child logs lines it has read asynchronously: a line of an
	// earlier operation - the notification that ends a handshake has no answer to wait for - may land late, so on that transport
	// only lines of the judged operation's own method count)
	curMethod := ""
	opMethod := map[string]string{"ListTools": "tools/list", "CallTool": "tools/call", "ListPrompts": "prompts/list", "GetPrompt": "prompts/get", "ListResources": "resources/list", "ReadResource": "resources/read", "RootsChanged": "notifications/roots/list_changed"}
	counter := func() int {
		if c.Kind == 2 && curMethod != "" {
			last, stable := -1, 0
			for i := 0; i < 200 && stable < 4; i++ {
				n := 0
				for _, l := range ChildLogLines(logPath) {
					if strings.Contains(l, `"method":"`+curMethod+`"`) {
						n++
					}
				}
				if n == last {
					stable++
				} else {
					last, stable = n, 0
				}
				time.Sleep(3 * time.Millisecond)
			}
			return last
		}
		if c.Kind == 2 {
			// the child appends to its log asynchronously: wait until it is quiet
			last, stable := -1, 0
			for i := 0; i < 200 && stable < 4; i++ {
				n := len(ChildLogLines(logPath))
				if n == last {
					stable++
				} else {
					last, stable = n, 0
				}
				time.Sleep(3 * time.Millisecond)
			}
			return last
		}
		n := 0
		for _, r := range br.Requests() {
			if r.Method == "POST" {
				n++
			}
		}
		return n
	}
	_ = specFile
	inited := false
	dead := false // transport permanently closed (legacy SSE / stdio after Close, stdio after a failed start)
	var stdioClient *mcp.StdioClient
	newStdio := func(mode string) {
		plan := map[string][]FakeAction{}
		switch mode {
		case "rpc-error":
			plan["request:initialize"] = []FakeAction{{Kind: "rpc-error"}}
		case "rpc-error-0":
			plan["request:initialize"] = []FakeAction{{Kind: "rpc-error-0"}}
		case "malformed":
			plan["request:initialize"] = []FakeAction{{Kind: "malformed"}}
		case "transport-error":
			plan["request:initialize"] = []FakeAction{{Kind: "exit", Status: 3}}
		case "notify-fails":
			plan["notification:notifications/initialized"] = []FakeAction{{Kind: "exit", Status: 3}}
		}
		cfg := mcp.StdioTransportConfig{ServerParams: ChildCommand(ChildSpec{Role: "fake", Log: logPath, Plan: plan}), Timeout: 5 * time.Second}
		cl, err := mcp.NewStdioClient(cfg, mcp.Implementation{Name: "c", Version: "1"}, mcp.WithStdioLogger(nopLogger{}))
		if err != nil {
			panic(err)
		}
		stdioClient = cl
		client = cl
	}
	if c.Kind == 2 {
		// the stdio client's child is scripted per process: the first init op decides the child's plan
		first := "ok"
		for i, o := range c.Ops {
			// a stdio client cannot observe that the child died on the notification (the pipe write succeeds):
			// on this transport the fault is placed on the initialize request instead
			if o.Op == "init" && o.Init == "notify-fails" {
				c.Ops[i].Init = "transport-error"
			}
		}
		for _, o := range c.Ops {
			if o.Op == "init" {
				first = o.Init
				break
			}
		}
		newStdio(first)
		defer func() { stdioClient.Close() }()
	} else {
		defer client.Close()
	}
	if c.Roots {
		type rootsSetter interface{ SetRootsProvider(mcp.RootsProvider) }
		if rs, ok := client.(rootsSetter); ok {
			rs.SetRootsProvider(mcp.NewDefaultRootsProvider(mcp.Root{URI: "file:///r", Name: "r"}))
		}
	}
	childUsed := false
	lostMode := false
	for i, op := range c.Ops {
		where := fmt.Sprintf("kind=%d op %d %s%s%s (initialized=%v)", c.Kind, i, op.Op, op.Init, op.Call, inited)
		curMethod = opMethod[op.Call]
		if op.Op == "init" {
			curMethod = "initialize"
		}
		before := counter()
		switch op.Op {
		case "init":
			mode := op.Init
			if c.Kind == 2 {
				if childUsed && !inited {
					// a stdio child plays one script; later handshakes on the same client can only be judged for "refused / not initialized"
					mode = "after-first"
				}
			}
			nextInit = mode
			ctx, cancel := context.WithTimeout(context.Background(), 5*time.Second)
			inHandshake.Store(true)
			_, err := client.Initialize(ctx, &mcp.InitializeRequest{})
			inHandshake.Store(false)
			cancel()
			if c.Kind == 2 {
				childUsed = true
			}
			if lostMode {
				// the state the client reports decides whether a handshake is due
				if err == nil {
					inited, lostMode = true, false
					if client.GetState() != mcp.StateInitialized {
						return Failf("C16/state", "%s: state %q after a successful handshake", where, client.GetState())
					}
				}
				continue
			}
			switch {
			case inited:
				if err == nil {
					return Failf("C16/second-handshake-accepted", "%s: Initialize on an initialized client succeeded", where)
				}
				if counter() != before {
					return Failf("C16/second-handshake-sent", "%s: the refused handshake sent %d messages", where, counter()-before)
				}
				if client.GetState() != mcp.StateInitialized {
					return Failf("C16/state", "%s: state %q after a refused second handshake", where, client.GetState())
				}
			case dead:
				if err == nil {
					return Failf("C16/handshake-on-closed-client", "%s: succeeded although the transport was closed", where)
				}
			case mode == "after-first":
				if err == nil {
					inited = true
				}
			case mode == "later-fail":
				if err == nil {
					inited = true
					if client.GetState() != mcp.StateInitialized {
						return Failf("C16/state", "%s: state %q after a successful handshake", where, client.GetState())
					}
				} else {
					if strings.Contains(err.Error(), "already initialized") {
						return Failf("C16/stale-initialized-flag", "%s: handshake refused as already initialized: %v", where, err)
					}
					if client.GetState() == mcp.StateInitialized {
						return Failf("C16/state", "%s: Initialize failed (%v) and left the state %q", where, err, client.GetState())
					}
				}
			case mode == "ok":
				if err != nil {
					if strings.Contains(err.Error(), "already initialized") {
						return Failf("C16/stale-initialized-flag", "%s: a fresh handshake is refused as already initialized: %v", where, err)
					}
					return Failf("C16/handshake-failed", "%s: %v", where, err)
				}
				inited = true
				if client.GetState() != mcp.StateInitialized {
					return Failf("C16/state", "%s: state %q after a successful handshake", where, client.GetState())
				}
			default:
				if err == nil {
					return Failf("C16/failed-handshake-accepted", "%s: Initialize returned no error", where)
				}
				if strings.Contains(err.Error(), "already initialized") {
					return Failf("C16/stale-initialized-flag", "%s: handshake refused as already initialized: %v", where, err)
				}
				if client.GetState() == mcp.StateInitialized {
					return Failf("C16/state", "%s: state %q after a failed handshake", where, client.GetState())
				}
				if c.Kind == 2 {
					dead = mode == "transport-error" || mode == "notify-fails"
				}
			}
		case "lost":
			if inited {
				lost.Store(true)
				lostMode = true
			}
		case "op":
			err := doCall(client, op.Call)
			if lostMode {
				// what a client does about a session its server has forgotten is its business; what it reports must agree with
				// what it does: an operation refused as "not initialized" without touching the network means the state is not "initialized"
				if isNotInitErr(err) && counter() == before && client.GetState() == mcp.StateInitialized {
					return Failf("C16/state-guard-disagree", "%s: after the server forgot the session the operation is refused as not initialized (nothing sent) while GetState reports %q", where, client.GetState())
				}
				continue
			}
			if inited && !dead {
				if err != nil {
					return Failf("C16/op-failed-when-initialized/"+op.Call, "%s: %v", where, err)
				}
			} else if !inited {
				if !isNotInitErr(err) {
					f := Failf("C16/uninitialised-op/"+op.Call, "%s: want a not-initialized error, got %v", where, err)
					if op.Call == "RootsChanged" {
						f.Key = "C16/uninitialised-roots-notification"
					}
					return f
				}
				if counter() != before {
					f := Failf("C16/uninitialised-op-touches-network/"+op.Call, "%s: %d messages reached the peer", where, counter()-before)
					if op.Call == "RootsChanged" {
						f.Key = "C16/uninitialised-roots-notification"
					}
					return f
				}
			}
		case "childdies":
			if stdioClient == nil || !inited || dead {
				continue
			}
			if pid := stdioClient.GetProcessID(); pid > 0 {
				syscall.Kill(pid, syscall.SIGKILL)
				for k := 0; k < 500 && syscall.Kill(pid, 0) == nil; k++ {
					time.Sleep(2 * time.Millisecond)
				}
				time.Sleep(20 * time.Millisecond)
			}
			dead = true // calls fail from now on, however: not judged here (C08); the client still counts as initialized until Close
		case "close":
			if err := client.Close(); err != nil && !dead {
				// Close errors are not part of this property (C07 / C08)
				_ = err
			}
			inited, lostMode = false, false
			lost.Store(false)
			if c.Kind != 0 {
				dead = true
			}
			if client.GetState() != mcp.StateDisconnected {
				return Failf("C16/state", "%s: state %q after Close", where, client.GetState())
			}
		}
		if !inited && !lostMode && client.GetState() == mcp.StateInitialized {
			return Failf("C16/state", "%s: state %q although the client is not initialized", where, client.GetState())
		}
	}
	return nil
}

func TestC16Client(t *testing.T) {
	RunProp(t, Prop[C16CCase]{ID: "C16", Gen: genC16C, Exec: execC16C, NT: ntC16C})
}
