package harness

import (
	"context"
	"errors"
	"fmt"
	"io"
	"net/http"
	neturl "net/url"
	"sort"
	"strings"
	"sync"
	"sync/atomic"
	"testing"
	"time"

	"pgregory.net/rapid"
	mcp "trpc.group/trpc-go/trpc-mcp-go"
)

// C19: client-side customisation applies to every outbound HTTP request.

type C19Case struct {
	Kind      int      `json:"kind"`                // 0 Streamable client, 1 legacy SSE client
	Headers   int      `json:"headers"`             // number of WithHTTPHeaders options (0-2), each with its own key
	Before    bool     `json:"before"`              // WithHTTPBeforeRequest configured
	Handler   bool     `json:"handler"`             // WithHTTPReqHandler configured (otherwise the default handler over real loopback TCP)
	Path      string   `json:"path"`                // WithClientPath ("" = none)
	Init503   bool     `json:"init503"`             // the first handshake is answered 503, the second succeeds
	Ops       []string `json:"ops"`                 // call notify roots unknown terminate
	BeforeErr string   `json:"beforeerr"`           // request kind at which the before-request function fails once ("" = never)
	Query     string   `json:"query,omitempty"`     // query string of the configured URL ("" = none), e.g. "?api_key=k"
	Del503    bool     `json:"del503,omitempty"`    // the first session DELETE is answered 503 (the session stays alive on the server)
	Get503    bool     `json:"get503,omitempty"`    // legacy SSE: the first connect GET is answered 503; the handshake is then repeated under another context
	ConnFault string   `json:"connfault,omitempty"` // with a configured request handler: the handler fails once with a connection error (EOF) at this request kind
	Known     bool     `json:"known,omitempty"`     // the static headers use well-known names (User-Agent, Authorization, X-Api-Key) instead of X-Static-n
	Multi     bool     `json:"multi,omitempty"`     // every static header has two values
	Lower     bool     `json:"lower,omitempty"`     // the static header keys are written in lower case into the http.Header literal
	EditKind  string   `json:"editkind,omitempty"`  // the before-request function adds a query parameter to the URL of requests of this kind (documented: it may modify the URL); all others must still go to the configured URL
}

var c19KnownHeaders = []string{"User-Agent", "Authorization", "X-Api-Key"}

var c19Ops = []string{"call", "call", "notify", "roots", "unknown", "terminate", "list", "reinit", "terminate-dead"}

func genC19(t *rapid.T) C19Case {
	c := C19Case{Kind: rapid.IntRange(0, 1).Draw(t, "kind"), Headers: rapid.IntRange(0, 2).Draw(t, "headers"), Before: rapid.IntRange(0, 3).Draw(t, "before") != 0,
		Handler: rapid.IntRange(0, 3).Draw(t, "handler") != 0, Init503: rapid.IntRange(0, 4).Draw(t, "init503") == 4}
	c.Path = rapid.SampledFrom([]string{"", "", "/custom/mcp", "/v1/x", "/api/mcp/", "/a//b", "/x/./y", "/UPPER/Case%20d"}).Draw(t, "path")
	n := rapid.IntRange(1, 7).Draw(t, "nops")
	for i := 0; i < n; i++ {
		c.Ops = append(c.Ops, rapid.SampledFrom(c19Ops).Draw(t, "op"))
	}
	if c.Before && rapid.IntRange(0, 2).Draw(t, "beforeerr") == 2 {
		c.BeforeErr = rapid.SampledFrom([]string{"POST:tools/call", "POST:initialize", "POST:notifications/initialized", "GET", "POST:notifications/roots/list_changed", "POST:response", "DELETE", "POST:tools/list"}).Draw(t, "errat")
	}
	c.Query = rapid.SampledFrom([]string{"", "", "?api_key=k1", "?a=1&b=%2Fx"}).Draw(t, "query")
	c.Known = c.Headers > 0 && rapid.IntRange(0, 2).Draw(t, "known") == 0
	c.Multi = c.Headers > 0 && rapid.IntRange(0, 2).Draw(t, "multi") == 0
	c.Lower = c.Headers > 0 && rapid.IntRange(0, 2).Draw(t, "lower") == 0
	if c.Before && rapid.IntRange(0, 2).Draw(t, "edit") == 0 {
		c.EditKind = rapid.SampledFrom([]string{"GET", "POST:initialize", "POST:tools/call", "POST:notifications/initialized", "POST:tools/list", "DELETE"}).Draw(t, "editkind")
	}
	c.Del503 = c.Kind == 0 && rapid.IntRange(0, 2).Draw(t, "del503") == 0
	c.Get503 = c.Kind == 1 && !c.Init503 && rapid.IntRange(0, 3).Draw(t, "get503") == 0
	if (c.Init503 || c.Get503) && (c.BeforeErr == "POST:initialize" || c.BeforeErr == "GET") {
		c.BeforeErr = "" // the refusal would land on the 503 handshake instead of the scripted place
	}
	if c.Handler && rapid.IntRange(0, 3).Draw(t, "connfault") == 0 {
		c.ConnFault = rapid.SampledFrom([]string{"POST:notifications/roots/list_changed", "POST:notifications/roots/list_changed", "POST:tools/call", "POST:tools/list"}).Draw(t, "connfaultat")
		if c.ConnFault == c.BeforeErr {
			c.ConnFault = ""
		}
	}
	return c
}

func ntC19(c C19Case) (bool, []string) {
	custom := 0
	if c.Headers > 0 {
		custom++
	}
	if c.Before {
		custom++
	}
	if c.Handler {
		custom++
	}
	if c.Path != "" {
		custom++
	}
	other := false
	for _, o := range c.Ops {
		if o != "call" && o != "list" {
			other = true
		}
	}
	return custom >= 2 && other, []string{fmt.Sprintf("kind=%d", c.Kind)}
}

type c19Key struct{}

type c19Seen struct {
	kind   string
	ctxTag string
}

func reqKind(method, rpc, rpcKind string) string {
	switch {
	case method != "POST":
		return method
	case rpcKind == "response":
		return "POST:response"
	case rpc != "":
		return "POST:" + rpc
	}
	return "POST:?"
}

func execC19(c C19Case) *Failure {
	fake := &FakeServer{Legacy: c.Kind == 1, Stateful: c.Kind == 0}
	initCount := 0
	var fmu sync.Mutex
	fake.Plan = func(method, kind string, nth int) FakeAction {
		if method == "initialize" && c.Init503 {
			fmu.Lock()
			defer fmu.Unlock()
			initCount++
			if initCount == 1 {
				return FakeAction{Kind: "http", Status: 503}
			}
		}
		return FakeAction{}
	}
	// the server-side log
	var smu sync.Mutex
	var serverLog []*SeenReq
	delRefused := false
	getRefused := false
	rec := http.HandlerFunc(func(w http.ResponseWriter, r *http.Request) {
		var body []byte
		if r.Body != nil {
			body, _ = readAllAndRestore(r)
		}
		sr := &SeenReq{Method: r.Method, Path: r.URL.Path, Query: r.URL.RawQuery, Header: r.Header.Clone(), Body: body}
		sr.RPC, sr.RPCKind = classifyRPC(body)
		smu.Lock()
		serverLog = append(serverLog, sr)
		smu.Unlock()
		if r.Method == http.MethodGet && c.Get503 {
			smu.Lock()
			first := !getRefused
			getRefused = true
			smu.Unlock()
			if first {
				http.Error(w, "scripted status", http.StatusServiceUnavailable)
				return
			}
		}
		if r.Method == http.MethodDelete && c.Del503 {
			smu.Lock()
			first := !delRefused
			delRefused = true
			if first {
				sr.CtxVal = 503
			}
			smu.Unlock()
			if first {
				http.Error(w, "scripted status", http.StatusServiceUnavailable)
				return
			}
		}
		// the fake serves any path: the check is about where the client sends
		r2 := r.Clone(r.Context())
		if c.Kind == 0 {
			r2.URL.Path = "/mcp"
		} else if strings.HasSuffix(r.URL.Path, "/message") || r.Method == "POST" {
			r2.URL.Path = "/message"
		} else {
			r2.URL.Path = "/sse"
		}
		sw := &statusWriter{ResponseWriter: w}
		fake.ServeHTTP(sw, r2)
		if sr.RPC == "initialize" && sw.status == 200 {
			smu.Lock()
			sr.CtxVal = w.Header().Get("Mcp-Session-Id")
			smu.Unlock()
		}
	})
	var opts []mcp.ClientOption
	var connFaults atomic.Int32
	opts = append(opts, mcp.WithClientLogger(nopLogger{}))
	base := "http://c19.invalid"
	var br *Bridge
	if c.Handler {
		br = &Bridge{H: rec, CtxKey: c19Key{}}
		br.Fault = func(r *SeenReq) error {
			if c.ConnFault != "" && reqKind(r.Method, r.RPC, r.RPCKind) == c.ConnFault && connFaults.CompareAndSwap(0, 1) {
				return &neturl.Error{Op: "Post", URL: "http://c19.invalid/mcp", Err: io.EOF}
			}
			return nil
		}
		opts = append(opts, mcp.WithHTTPReqHandler(br))
	} else {
		ts := ServeTCP(rec)
		defer ts.Close()
		base = ts.URL
	}
	wantHeaders := map[string]string{}
	for i := 0; i < c.Headers; i++ {
		k, v := fmt.Sprintf("X-Static-%d", i), fmt.Sprintf("v%d", i)
		if c.Known {
			k = c19KnownHeaders[i]
		}
		wantHeaders[k] = v
		vals := []string{v}
		if c.Multi && k != "User-Agent" {
			vals = append(vals, v+"-second")
			wantHeaders[k] = v + "," + v + "-second"
		}
		mk := k
		if c.Lower {
			mk = strings.ToLower(k) // http.Header is a map: a literal may spell its keys any way
		}
		opts = append(opts, mcp.WithHTTPHeaders(http.Header{mk: vals}))
	}
	var bmu sync.Mutex
	var beforeLog, deadSeen []c19Seen
	failedOnce := false
	edits := 0
	errBefore := errors.New("before-request says no")
	if c.Before {
		opts = append(opts, mcp.WithHTTPBeforeRequest(func(ctx context.Context, req *http.Request) error {
			var body []byte
			if req.GetBody != nil {
				if rc, err := req.GetBody(); err == nil {
					body, _ = readAll(rc)
				}
			}
			rpc, rk := classifyRPC(body)
			kind := reqKind(req.Method, rpc, rk)
			tag, _ := ctx.Value(c19Key{}).(string)
			bmu.Lock()
			defer bmu.Unlock()
			if ctx.Err() != nil {
				// a request prepared under a context that has already ended: it must not be sent; whether the function is still
				// consulted for it is not decided by the statement
				deadSeen = append(deadSeen, c19Seen{kind: kind, ctxTag: tag})
				return nil
			}
			beforeLog = append(beforeLog, c19Seen{kind: kind, ctxTag: tag})
			if c.BeforeErr == kind && !failedOnce {
				failedOnce = true
				return errBefore
			}
			if c.EditKind == kind {
				edits++
				if req.URL.RawQuery != "" {
					req.URL.RawQuery += "&"
				}
				req.URL.RawQuery += fmt.Sprintf("tok=%d", edits)
			}
			return nil
		}))
	}
	wantPath := "/mcp"
	url := base + "/mcp"
	if c.Kind == 1 {
		wantPath, url = "/sse", base+"/sse"
	}
	if c.Path != "" {
		opts = append(opts, mcp.WithClientPath(c.Path))
		wantPath = c.Path
	}
	url += c.Query
	var cl *mcp.Client
	var err error
	if c.Kind == 0 {
		cl, err = mcp.NewClient(url, mcp.Implementation{Name: "c", Version: "1"}, opts...)
	} else {
		cl, err = mcp.NewSSEClient(url, mcp.Implementation{Name: "c", Version: "1"}, opts...)
	}
	if err != nil {
		return Failf("C19/new-client", "%v", err)
	}
	defer cl.Close()
	cl.SetRootsProvider(mcp.NewDefaultRootsProvider(mcp.Root{URI: "file:///r", Name: "r"}))

	opCtx := func(tag string) (context.Context, context.CancelFunc) {
		return context.WithTimeout(context.WithValue(context.Background(), c19Key{}, tag), 5*time.Second)
	}
	serverCount := func() int { smu.Lock(); defer smu.Unlock(); return len(serverLog) }
	// expected multiset of request kinds (as the operations imply), with the op tag whose context they must carry
	type want struct{ kind, tag string }
	var wants []want
	connFaultTag := "" // the operation whose request the handler lost (it passed the before-request function, the server never saw it)
	sessionIssued := false
	terminated := false
	where := func(op string) string {
		return fmt.Sprintf("kind=%d headers=%d before=%v(errAt %q) handler=%v path=%q init503=%v ops=%v at %s", c.Kind, c.Headers, c.Before, c.BeforeErr, c.Handler, c.Path, c.Init503, c.Ops, op)
	}
	// runOp executes one operation and checks the "function returns an error => nothing is sent, the operation fails with it" clause
	runOp := func(tag string, kinds []string, f func(ctx context.Context) error) *Failure {
		ctx, cancel := opCtx(tag)
		defer cancel()
		bmu.Lock()
		willFail := ""
		if c.Before && c.BeforeErr != "" && !failedOnce {
			for _, k := range kinds {
				if k == c.BeforeErr {
					willFail = k
				}
			}
		}
		bmu.Unlock()
		connWillFail := ""
		if c.ConnFault != "" && connFaults.Load() == 0 && willFail == "" {
			for _, k := range kinds {
				if k == c.ConnFault {
					connWillFail = k
				}
			}
		}
		before := serverCount()
		err := f(ctx)
		if connWillFail != "" && connFaults.Load() == 1 {
			// the request handler reported a lost connection for this request: it reached no server. Whether the operation
			// fails is not this property's business; what was sent is judged from the three logs at the end.
			connFaultTag = tag
			if err == nil {
				wants = append(wants, want{connWillFail, tag})
				connFaultTag = ""
			}
			return nil
		}
		if willFail != "" && !(willFail == "GET" && c.Kind == 0) && willFail != "POST:response" {
			// synchronous request kinds: the operation itself must fail with the function's error and the failing request must not be sent
			if err == nil || !strings.Contains(err.Error(), errBefore.Error()) {
				return Failf("C19/before-error-not-propagated/"+willFail, "%s: the before-request function refused %s but the operation returned %v", where(tag), willFail, err)
			}
			smu.Lock()
			for _, sr := range serverLog[before:] {
				if reqKind(sr.Method, sr.RPC, sr.RPCKind) == willFail {
					smu.Unlock()
					return Failf("C19/sent-despite-before-error/"+willFail, "%s: the before-request function refused %s but the server received it", where(tag), willFail)
				}
			}
			smu.Unlock()
			// requests of this operation that precede the refused one were sent
			for _, k := range kinds {
				if k == willFail {
					break
				}
				wants = append(wants, want{k, tag})
			}
			return errSkipRest
		}
		for _, k := range kinds {
			wants = append(wants, want{k, tag})
		}
		if err != nil && willFail == "" {
			return Failf("C19/op-failed", "%s: %v", where(tag), err)
		}
		return nil
	}
	initKinds := []string{"POST:initialize", "POST:notifications/initialized"}
	if c.Kind == 1 {
		initKinds = append([]string{"GET"}, initKinds...)
	}
	doInit := func(tag string) *Failure {
		return runOp(tag, initKinds, func(ctx context.Context) error { _, err := cl.Initialize(ctx, &mcp.InitializeRequest{}); return err })
	}
	if c.Init503 {
		ctx, cancel := opCtx("init0")
		_, err := cl.Initialize(ctx, &mcp.InitializeRequest{})
		cancel()
		if err == nil {
			return Failf("C19/handshake", "%s: the 503 handshake succeeded", where("init0"))
		}
		if c.Kind == 1 {
			wants = append(wants, want{"GET", "init0"})
		}
		wants = append(wants, want{"POST:initialize", "init0"})
		if c.Kind == 1 {
			initKinds = initKinds[1:] // the SSE connection is already up
		}
	}
	if c.Get503 {
		ctx, cancel := opCtx("init0")
		_, err := cl.Initialize(ctx, &mcp.InitializeRequest{})
		cancel()
		if err == nil {
			return Failf("C19/handshake", "%s: the handshake succeeded although the event stream was refused with 503", where("init0"))
		}
		wants = append(wants, want{"GET", "init0"})
	}
	f := doInit("init")
	aborted := f == errSkipRest
	if f != nil && !aborted {
		return f
	}
	if !aborted {
		sessionIssued = c.Kind == 0
		if c.Kind == 0 {
			// the listening stream is opened in the background with the handshake's context values
			// (whether the client opens one at all is not this property's business)
			deadline := time.Now().Add(300 * time.Millisecond)
			for fake.GetOpen.Load() == 0 && time.Now().Before(deadline) {
				bmu.Lock()
				refused := c.BeforeErr == "GET" && failedOnce
				bmu.Unlock()
				if refused {
					break
				}
				time.Sleep(200 * time.Microsecond)
			}
			if fake.GetOpen.Load() > 0 {
				wants = append(wants, want{"GET", "init"})
			}
		}
		for i, op := range c.Ops {
			tag := fmt.Sprintf("op%d-%s", i, op)
			var f *Failure
			switch op {
			case "call":
				f = runOp(tag, []string{"POST:tools/call"}, func(ctx context.Context) error { return doCallCtx(ctx, cl, "CallTool") })
			case "list":
				f = runOp(tag, []string{"POST:tools/list"}, func(ctx context.Context) error { return doCallCtx(ctx, cl, "ListTools") })
			case "notify":
				f = runOp(tag, []string{"POST:notifications/roots/list_changed"}, func(ctx context.Context) error { return cl.SendRootsListChangedNotification(ctx) })
			case "roots", "unknown":
				if terminated || fake.openStreams() == 0 {
					continue
				}
				method := "roots/list"
				if op == "unknown" {
					method = "verif/unknown"
				}
				before := serverCount()
				fake.PushToStreams(fmt.Sprintf(`{"jsonrpc":"2.0","id":"srv-%d","method":%q}`, i, method))
				deadline := time.Now().Add(2 * time.Second)
				got := false
				for time.Now().Before(deadline) && !got {
					smu.Lock()
					for _, sr := range serverLog[before:] {
						if sr.RPCKind == "response" {
							got = true
						}
					}
					smu.Unlock()
					time.Sleep(500 * time.Microsecond)
				}
				bmu.Lock()
				refused := c.BeforeErr == "POST:response" && failedOnce
				bmu.Unlock()
				if !got && !refused {
					return TimingFailf("C19/no-answer-to-server-request", "%s: the client did not answer the server's %s request", where(tag), method)
				}
				if got {
					wants = append(wants, want{"POST:response", "init"})
				}
			case "reinit":
				// a second life of the same client: Close, then a new handshake (the customisations are the client's, not a life's)
				if c.Kind != 0 || terminated {
					continue
				}
				cl.Close()
				time.Sleep(time.Millisecond)
				streamsBefore := fake.GetTotal.Load()
				bmu.Lock()
				refusedEarlier := failedOnce
				bmu.Unlock()
				f = runOp(tag, []string{"POST:initialize", "POST:notifications/initialized"}, func(ctx context.Context) error {
					_, err := cl.Initialize(ctx, &mcp.InitializeRequest{})
					return err
				})
				if f == nil {
					cl.SetRootsProvider(mcp.NewDefaultRootsProvider(mcp.Root{URI: "file:///r", Name: "r"}))
					deadline := time.Now().Add(300 * time.Millisecond)
					for fake.GetTotal.Load() == streamsBefore && time.Now().Before(deadline) {
						bmu.Lock()
						refused := c.BeforeErr == "GET" && failedOnce && !refusedEarlier
						bmu.Unlock()
						if refused {
							break
						}
						time.Sleep(200 * time.Microsecond)
					}
					if fake.GetTotal.Load() > streamsBefore {
						wants = append(wants, want{"GET", tag})
					}
				}
			case "terminate-dead":
				// the caller's context has already ended: nothing is sent (and certainly not under another context)
				if c.Kind != 0 || terminated {
					continue
				}
				dctx, dcancel := context.WithCancel(context.WithValue(context.Background(), c19Key{}, tag))
				dcancel()
				before := serverCount()
				err := cl.TerminateSession(dctx)
				if serverCount() != before {
					smu.Lock()
					k := reqKind(serverLog[before].Method, serverLog[before].RPC, serverLog[before].RPCKind)
					smu.Unlock()
					return Failf("C19/sent-under-foreign-context/"+k, "%s: TerminateSession was called with a context that had already ended (error returned: %v), yet a %s request reached the server", where(tag), err, k)
				}
				if err == nil {
					return Failf("C19/dead-context-op-succeeded", "%s: TerminateSession under a context that had already ended returned nil", where(tag))
				}
			case "terminate":
				if c.Kind != 0 || terminated {
					continue
				}
				smu.Lock()
				refuse := c.Del503 && !delRefused
				smu.Unlock()
				if refuse {
					// the server answers 503: the operation fails, the session stays alive and keeps being named in later requests
					ctx, cancel := opCtx(tag)
					err := cl.TerminateSession(ctx)
					cancel()
					bmu.Lock()
					refusedByBefore := c.BeforeErr == "DELETE" && failedOnce
					bmu.Unlock()
					if refusedByBefore {
						f = errSkipRest
						break
					}
					wants = append(wants, want{"DELETE", tag})
					if err == nil {
						return Failf("C19/refused-delete-reported-as-success", "%s: the session DELETE was answered 503 but TerminateSession returned nil", where(tag))
					}
					break
				}
				f = runOp(tag, []string{"DELETE"}, func(ctx context.Context) error { return cl.TerminateSession(ctx) })
				if f == nil {
					terminated = true
					sessionIssued = false
				}
			}
			if f == errSkipRest {
				break
			}
			if f != nil {
				return f
			}
			if terminated {
				break
			}
		}
	}
	cl.Close()
	time.Sleep(2 * time.Millisecond)
	// --- the three logs
	smu.Lock()
	srv := append([]*SeenReq(nil), serverLog...)
	smu.Unlock()
	bmu.Lock()
	bl := append([]c19Seen(nil), beforeLog...)
	bmu.Unlock()
	tally := func(kinds []string) string {
		m := map[string]int{}
		for _, k := range kinds {
			m[k]++
		}
		var out []string
		for _, k := range sortedKeys(m) {
			out = append(out, fmt.Sprintf("%s x%d", k, m[k]))
		}
		return strings.Join(out, ", ")
	}
	var srvKinds, wantKinds, beforeKinds []string
	issued := ""
	for _, sr := range srv {
		k := reqKind(sr.Method, sr.RPC, sr.RPCKind)
		srvKinds = append(srvKinds, k)
		w0 := where(k)
		// configured path
		expPath := wantPath
		if c.Kind == 1 && sr.Method == "POST" {
			expPath = "/message" // the endpoint the server announced
		}
		if sr.Path != expPath {
			return Failf("C19/wrong-path/"+k, "%s: sent to %q, configured %q", w0, sr.Path, expPath)
		}
		if k == c.EditKind && c.EditKind != "" {
			// its own URL was edited by the before-request function: exactly one token on top of the configured query
			if n := strings.Count(sr.Query, "tok="); n != 1 {
				return Failf("C19/edited-url/"+k, "%s: the before-request function added one query parameter to this request's URL, it arrived with query %q", w0, sr.Query)
			}
		} else if !(c.Kind == 1 && sr.Method == "POST") && sr.Query != strings.TrimPrefix(c.Query, "?") {
			return Failf("C19/wrong-query/"+k, "%s: sent with query %q, the configured URL has %q", w0, sr.Query, strings.TrimPrefix(c.Query, "?"))
		}
		for hk, hv := range wantHeaders {
			if strings.Join(sr.Header.Values(hk), ",") != hv {
				return Failf("C19/static-header-missing/"+k, "%s: request lacks the static header %s", w0, hk)
			}
		}
		if c.Kind == 0 {
			if issued != "" && sr.Header.Get("Mcp-Session-Id") != issued {
				return Failf("C19/session-id-missing/"+k, "%s: request carries Mcp-Session-Id %q, the server issued %q", w0, sr.Header.Get("Mcp-Session-Id"), issued)
			}
			if id, ok := sr.CtxVal.(string); ok && k == "POST:initialize" && id != "" {
				issued = id
			}
			if st, _ := sr.CtxVal.(int); k == "DELETE" && st != 503 {
				issued = ""
			}
		}
	}
	_ = sessionIssued
	for _, w0 := range wants {
		wantKinds = append(wantKinds, w0.kind)
	}
	for _, b := range bl {
		beforeKinds = append(beforeKinds, b.kind)
	}
	sort.Strings(srvKinds)
	sort.Strings(wantKinds)
	if tally(srvKinds) != tally(wantKinds) {
		return Failf("C19/request-multiset", "%s: the server received {%s}, the operations imply {%s}", where("end"), tally(srvKinds), tally(wantKinds))
	}
	nConnFaults := int(connFaults.Load())
	if c.Handler && int(br.Forwarded.Load()-br.HandedDead.Load()) != len(srv)+nConnFaults {
		return Failf("C19/bypasses-request-handler", "%s: the configured request handler was handed %d requests (%d of them lost with a connection error), the server received %d {%s}", where("end"), br.Forwarded.Load(), nConnFaults, len(srv), tally(srvKinds))
	}
	if c.Before {
		// the function saw every request that was sent, exactly once, plus the one it refused
		exp := append([]string(nil), srvKinds...)
		if failedOnce && c.BeforeErr != "" {
			exp = append(exp, c.BeforeErr)
		}
		if nConnFaults > 0 {
			exp = append(exp, c.ConnFault) // it passed the function once before the handler lost it
		}
		sort.Strings(exp)
		sort.Strings(beforeKinds)
		if tally(beforeKinds) != tally(exp) {
			key := "C19/before-request-multiset"
			for _, k := range []string{"POST:response", "DELETE"} {
				if strings.Count(tally(beforeKinds), k) < strings.Count(tally(exp), k) {
					key = "C19/before-request-skipped/" + k
				}
			}
			return Failf(key, "%s: the before-request function saw {%s}, the requests sent (+ the refused one) are {%s}", where("end"), tally(beforeKinds), tally(exp))
		}
		// context values: each request kind carries the calling operation's tag
		wantTag := map[string][]string{}
		for _, w0 := range wants {
			wantTag[w0.kind] = append(wantTag[w0.kind], w0.tag)
		}
		gotTag := map[string][]string{}
		for _, b := range bl {
			gotTag[b.kind] = append(gotTag[b.kind], b.ctxTag)
		}
		for k, wt := range wantTag {
			gt := append([]string(nil), gotTag[k]...)
			if failedOnce && c.BeforeErr == k && len(gt) > len(wt) {
				gt = gt[:len(wt)]
			}
			if nConnFaults > 0 && k == c.ConnFault && connFaultTag != "" {
				for i, g := range gt {
					if g == connFaultTag {
						gt = append(append([]string(nil), gt[:i]...), gt[i+1:]...)
						break
					}
				}
			}
			if k == "POST:response" {
				continue // answers to server requests run in the background: the handshake's values are asserted for the stream only
			}
			a, b := append([]string(nil), wt...), gt
			sort.Strings(a)
			sort.Strings(b)
			if strings.Join(a, ",") != strings.Join(b, ",") && !(failedOnce && c.BeforeErr == k) {
				return Failf("C19/context-values/"+k, "%s: the before-request function saw context tags %v for %s, the calling operations are %v", where("end"), gt, k, wt)
			}
		}
	}
	return nil
}

var errSkipRest = &Failure{Key: "skip"}

func TestC19(t *testing.T) {
	RunProp(t, Prop[C19Case]{ID: "C19", Gen: genC19, Exec: execC19, NT: ntC19})
}
