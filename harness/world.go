package harness

// world.go builds a library server of any kind/mode from a generated
// registration set and lets raw reference peers talk to it.

import (
	"bytes"
	"context"
	"encoding/json"
	"errors"
	"fmt"
	"io"
	"log"
	"math"
	"net/http"
	"net/http/httptest"
	"strings"
	"sync"
	"sync/atomic"
	"time"

	mcp "trpc.group/trpc-go/trpc-mcp-go"
)

func newStdLogger(w io.Writer) *log.Logger { return log.New(w, "", 0) }

// Mode is a server kind / response mode.
type Mode int

const (
	ModeSJ     Mode = iota // Streamable HTTP, stateful, JSON answers (POST-SSE disabled)
	ModeSS                 // Streamable HTTP, stateful, SSE answers to POST
	ModeLJ                 // Streamable HTTP, stateless, JSON answers
	ModeLS                 // Streamable HTTP, stateless, SSE answers to POST
	ModeNS                 // Streamable HTTP, sessions disabled, JSON answers
	ModeLegacy             // legacy SSE server
	ModeStdio              // stdio server
	NumModes
)

var modeNames = []string{"stateful-json", "stateful-postsse", "stateless-json", "stateless-postsse", "nosession-json", "legacy-sse", "stdio"}

func (m Mode) String() string {
	if m >= 0 && int(m) < len(modeNames) {
		return modeNames[m]
	}
	return fmt.Sprintf("mode%d", int(m))
}

// IsStreamable reports whether the mode is served by mcp.Server.
func (m Mode) IsStreamable() bool { return m <= ModeNS }

// Stateful reports whether the mode issues session ids.
func (m Mode) Stateful() bool { return m == ModeSJ || m == ModeSS }

// PostSSE reports whether POST answers come as event streams.
func (m Mode) PostSSE() bool { return m == ModeSS || m == ModeLS }

// Tool handler outcomes.
const (
	OutOK          = iota // a normal result
	OutGoErr              // handler returns (nil, error)
	OutIsError            // handler returns an isError result
	OutNilContent         // result with nil Content slice
	OutUnencodable        // result whose structured content cannot be encoded (NaN)
	OutUnencChan          // result whose structured content holds a channel
	OutCtxDeadline        // handler returns (nil, error) whose chain holds context.DeadlineExceeded (a deadline of its own ran out)
	OutCtxCanceled        // handler returns (nil, error) whose chain holds context.Canceled (it gave up a sub-task of its own)
	NumOutcomes
)

// ToolSpec describes one registered tool.
type ToolSpec struct {
	Name    string `json:"name"`
	Desc    string `json:"desc,omitempty"`
	Outcome int    `json:"outcome"`
	ErrMsg  string `json:"errmsg,omitempty"`
}

// PromptSpec describes one registered prompt.
type PromptSpec struct {
	Name    string   `json:"name"`
	Desc    string   `json:"desc,omitempty"`
	Args    []string `json:"args,omitempty"`
	Fail    bool     `json:"fail,omitempty"`
	ErrMsg  string   `json:"errmsg,omitempty"`
	Default bool     `json:"default,omitempty"` // not used on stdio (nil handlers are refused there)
}

// ResSpec describes one registered resource.
type ResSpec struct {
	URI    string `json:"uri"`
	Name   string `json:"name"`
	Mime   string `json:"mime,omitempty"`
	Blob   bool   `json:"blob,omitempty"`
	Multi  bool   `json:"multi,omitempty"`
	Fail   bool   `json:"fail,omitempty"`
	ErrMsg string `json:"errmsg,omitempty"`
}

// RegSpec is a registration set.
type RegSpec struct {
	Tools     []ToolSpec   `json:"tools,omitempty"`
	Prompts   []PromptSpec `json:"prompts,omitempty"`
	Resources []ResSpec    `json:"resources,omitempty"`
}

// Tool/Prompt/Resource handler signatures (the library's own names are unexported).
type (
	ToolFn      = func(ctx context.Context, req *mcp.CallToolRequest) (*mcp.CallToolResult, error)
	PromptFn    = func(ctx context.Context, req *mcp.GetPromptRequest) (*mcp.GetPromptResult, error)
	ResourceFn  = func(ctx context.Context, req *mcp.ReadResourceRequest) (mcp.ResourceContents, error)
	ResourcesFn = func(ctx context.Context, req *mcp.ReadResourceRequest) ([]mcp.ResourceContents, error)
)

// Registrar is what all three server kinds offer.
type Registrar struct {
	RegisterTool      func(tool *mcp.Tool, handler ToolFn)
	RegisterPrompt    func(prompt *mcp.Prompt, handler PromptFn)
	RegisterResource  func(resource *mcp.Resource, handler ResourceFn)
	RegisterResources func(resource *mcp.Resource, handler ResourcesFn)
	UnregisterTools   func(names ...string) error
}

// RegistrarOf adapts a *mcp.Server, *mcp.SSEServer or *mcp.StdioServer.
func RegistrarOf(server interface{}) Registrar {
	switch s := server.(type) {
	case *mcp.Server:
		return Registrar{
			func(t *mcp.Tool, h ToolFn) { s.RegisterTool(t, h) },
			func(p *mcp.Prompt, h PromptFn) { s.RegisterPrompt(p, h) },
			func(r *mcp.Resource, h ResourceFn) { s.RegisterResource(r, h) },
			func(r *mcp.Resource, h ResourcesFn) { s.RegisterResources(r, h) },
			s.UnregisterTools,
		}
	case *mcp.SSEServer:
		return Registrar{
			func(t *mcp.Tool, h ToolFn) { s.RegisterTool(t, h) },
			func(p *mcp.Prompt, h PromptFn) { s.RegisterPrompt(p, h) },
			func(r *mcp.Resource, h ResourceFn) { s.RegisterResource(r, h) },
			func(r *mcp.Resource, h ResourcesFn) { s.RegisterResources(r, h) },
			s.UnregisterTools,
		}
	case *mcp.StdioServer:
		return Registrar{
			func(t *mcp.Tool, h ToolFn) { s.RegisterTool(t, h) },
			func(p *mcp.Prompt, h PromptFn) { s.RegisterPrompt(p, h) },
			func(r *mcp.Resource, h ResourceFn) { s.RegisterResource(r, h) },
			func(r *mcp.Resource, h ResourcesFn) { s.RegisterResources(r, h) },
			s.UnregisterTools,
		}
	}
	panic("unknown server kind")
}

// ToolText is the text a generated OK tool returns for given arguments.
func ToolText(name string, args map[string]interface{}) string {
	b, _ := json.Marshal(args)
	return "tool:" + name + ":" + string(b)
}

// World is one server plus the means to talk to it.
type World struct {
	Mode  Mode
	Reg   RegSpec
	Srv   *mcp.Server
	SSE   *mcp.SSEServer
	Stdio *mcp.StdioServer
	Path  string

	// PreInit, when set, is handed every library client ConnectLib creates before its handshake starts; what it returns is
	// called once the handshake has returned (workloads that run next to Initialize).
	PreInit func(c mcp.Connector) (stop func())

	unix *UnixServer
	peer *Peer

	// handler invocation counter, keyed by "kind:name:nonce"
	callMu sync.Mutex
	Calls  map[string]int
	InFly  atomic.Int32
	MaxFly atomic.Int32

	// hooks tests may set before traffic starts
	ToolHook func(ctx context.Context, spec ToolSpec, req *mcp.CallToolRequest)
}

// WorldOpt customises construction.
type WorldOpt struct {
	ServerOpts []mcp.ServerOption
	SSEOpts    []mcp.SSEOption
	StdioOpts  []mcp.StdioServerOption
	Name       string
	Version    string
	NoUnix     bool // streamable: do not start a unix server (recorder-only)
}

// NewWorld builds the server.
func NewWorld(mode Mode, reg RegSpec, o WorldOpt) *World {
	Quiet()
	w := &World{Mode: mode, Reg: reg, Calls: map[string]int{}, Path: "/mcp"}
	name, ver := o.Name, o.Version
	if name == "" {
		name, ver = "verif-server", "9.9.9"
	}
	var r interface{}
	switch {
	case mode.IsStreamable():
		opts := []mcp.ServerOption{mcp.WithServerLogger(nopLogger{}), mcp.WithServerPath("/mcp")}
		switch mode {
		case ModeSJ:
			opts = append(opts, mcp.WithPostSSEEnabled(false))
		case ModeSS:
			opts = append(opts, mcp.WithPostSSEEnabled(true))
		case ModeLJ:
			opts = append(opts, mcp.WithStatelessMode(true), mcp.WithPostSSEEnabled(false))
		case ModeLS:
			opts = append(opts, mcp.WithStatelessMode(true), mcp.WithPostSSEEnabled(true))
		case ModeNS:
			opts = append(opts, mcp.WithoutSession(), mcp.WithPostSSEEnabled(false))
		}
		opts = append(opts, o.ServerOpts...)
		w.Srv = mcp.NewServer(name, ver, opts...)
		r = w.Srv
	case mode == ModeLegacy:
		opts := []mcp.SSEOption{mcp.WithSSEServerLogger(nopLogger{}), mcp.WithKeepAlive(false)}
		opts = append(opts, o.SSEOpts...)
		w.SSE = mcp.NewSSEServer(name, ver, opts...)
		r = w.SSE
		w.unix = ServeUnix(w.SSE)
		w.peer = NewPeer(w.unix.Path)
	default:
		opts := []mcp.StdioServerOption{mcp.WithStdioServerLogger(nopLogger{})}
		opts = append(opts, o.StdioOpts...)
		w.Stdio = mcp.NewStdioServer(name, ver, opts...)
		r = w.Stdio
	}
	w.Register(RegistrarOf(r), reg)
	return w
}

// StartUnix serves a streamable server over a unix socket (for streaming properties).
func (w *World) StartUnix() {
	if w.unix == nil && w.Srv != nil {
		w.unix = ServeUnix(w.Srv.Handler())
		w.peer = NewPeer(w.unix.Path)
	}
}

// Unix returns the unix server, if any.
func (w *World) Unix() *UnixServer { return w.unix }

// Peer returns the raw HTTP peer bound to the unix server, if any.
func (w *World) Peer() *Peer { return w.peer }

// Close tears the world down.
func (w *World) Close() {
	if w.peer != nil {
		w.peer.Close()
	}
	if w.unix != nil {
		w.unix.Close()
	}
}

func (w *World) count(key string) {
	w.callMu.Lock()
	w.Calls[key]++
	w.callMu.Unlock()
}

// CallCount returns how often the handler keyed by key ran.
func (w *World) CallCount(key string) int {
	w.callMu.Lock()
	defer w.callMu.Unlock()
	return w.Calls[key]
}

// TotalCalls returns the total number of handler invocations.
func (w *World) TotalCalls() int {
	w.callMu.Lock()
	defer w.callMu.Unlock()
	n := 0
	for _, v := range w.Calls {
		n += v
	}
	return n
}

func nonceOf(args map[string]interface{}) string {
	if args == nil {
		return ""
	}
	if v, ok := args["nonce"]; ok {
		return fmt.Sprint(v)
	}
	return ""
}

// Register installs the registration set on any server kind.
func (w *World) Register(r Registrar, reg RegSpec) {
	for _, ts := range reg.Tools {
		ts := ts
		tool := mcp.NewTool(ts.Name, mcp.WithDescription(ts.Desc), mcp.WithString("nonce"))
		r.RegisterTool(tool, func(ctx context.Context, req *mcp.CallToolRequest) (*mcp.CallToolResult, error) {
			n := w.InFly.Add(1)
			for {
				m := w.MaxFly.Load()
				if n <= m || w.MaxFly.CompareAndSwap(m, n) {
					break
				}
			}
			defer w.InFly.Add(-1)
			w.count("tool:" + ts.Name + ":" + nonceOf(req.Params.Arguments))
			if w.ToolHook != nil {
				w.ToolHook(ctx, ts, req)
			}
			switch ts.Outcome {
			case OutGoErr:
				return nil, errors.New(ts.ErrMsg)
			case OutCtxDeadline:
				return nil, fmt.Errorf("%s: %w", ts.ErrMsg, context.DeadlineExceeded)
			case OutCtxCanceled:
				return nil, fmt.Errorf("%s: %w", ts.ErrMsg, context.Canceled)
			case OutIsError:
				return mcp.NewErrorResult(ts.ErrMsg), nil
			case OutNilContent:
				return &mcp.CallToolResult{}, nil
			case OutUnencodable:
				return &mcp.CallToolResult{Content: []mcp.Content{mcp.NewTextContent("x")}, StructuredContent: map[string]interface{}{"v": math.NaN()}}, nil
			case OutUnencChan:
				return &mcp.CallToolResult{Content: []mcp.Content{mcp.NewTextContent("x")}, StructuredContent: map[string]interface{}{"v": make(chan int)}}, nil
			}
			return mcp.NewTextResult(ToolText(ts.Name, req.Params.Arguments)), nil
		})
	}
	for _, ps := range reg.Prompts {
		ps := ps
		p := &mcp.Prompt{Name: ps.Name, Description: ps.Desc}
		for _, a := range ps.Args {
			p.Arguments = append(p.Arguments, mcp.PromptArgument{Name: a, Required: true})
		}
		r.RegisterPrompt(p, func(ctx context.Context, req *mcp.GetPromptRequest) (*mcp.GetPromptResult, error) {
			w.count("prompt:" + ps.Name + ":" + req.Params.Arguments["nonce"])
			if ps.Fail {
				return nil, errors.New(ps.ErrMsg)
			}
			b, _ := json.Marshal(req.Params.Arguments)
			return &mcp.GetPromptResult{Description: ps.Desc, Messages: []mcp.PromptMessage{
				{Role: mcp.RoleUser, Content: mcp.NewTextContent("prompt:" + ps.Name + ":" + string(b))},
				{Role: mcp.RoleAssistant, Content: mcp.NewTextContent("ok")},
			}}, nil
		})
	}
	for _, rs := range reg.Resources {
		rs := rs
		res := &mcp.Resource{URI: rs.URI, Name: rs.Name, MimeType: rs.Mime}
		one := func() mcp.ResourceContents {
			if rs.Blob {
				return mcp.BlobResourceContents{URI: rs.URI, MIMEType: rs.Mime, Blob: "QUJD"}
			}
			return mcp.TextResourceContents{URI: rs.URI, MIMEType: rs.Mime, Text: "res:" + rs.URI}
		}
		if rs.Multi {
			r.RegisterResources(res, func(ctx context.Context, req *mcp.ReadResourceRequest) ([]mcp.ResourceContents, error) {
				w.count("res:" + rs.URI + ":")
				if rs.Fail {
					return nil, errors.New(rs.ErrMsg)
				}
				return []mcp.ResourceContents{one(), mcp.TextResourceContents{URI: rs.URI + "#2", Text: "second"}}, nil
			})
		} else {
			r.RegisterResource(res, func(ctx context.Context, req *mcp.ReadResourceRequest) (mcp.ResourceContents, error) {
				w.count("res:" + rs.URI + ":")
				if rs.Fail {
					return nil, errors.New(rs.ErrMsg)
				}
				return one(), nil
			})
		}
	}
}

// ---------------------------------------------------------------------------
// raw connections

// Exchange is what one raw message provoked.
type Exchange struct {
	Status int         // HTTP status (0 on stdio)
	Header http.Header // HTTP response header (nil on stdio)
	Body   []byte      // raw HTTP body
	Kind   string      // "json", "sse", "empty", "other", "stdio"
	Frames [][]byte    // every message frame emitted in reaction, in order
	Err    error
	// SSE details for the event-stream kinds
	Events []SSEEvent
}

// Conn is a raw peer's connection / session with a World.
type Conn struct {
	W         *World
	SessionID string
	Extra     map[string]string // extra headers for every request

	// legacy SSE
	stream   *Stream
	endpoint string
	seen     int

	// stdio
	in     *stdinPipe
	out    *LockedBuffer
	cancel context.CancelFunc
	done   chan error
	lines  int
}

// stdinPipe is the write end of a stdio server's input. The pipe is synchronous: a server that stops reading would block the
// writer for ever, so every write gets a deadline; once one has missed it the pipe counts as stuck and is closed.
type stdinPipe struct {
	pw    *io.PipeWriter
	stuck atomic.Bool
}

var errStdinStuck = errors.New("the server does not read its input any more")

func (s *stdinPipe) Write(p []byte) (int, error) {
	if s.stuck.Load() {
		return 0, errStdinStuck
	}
	type res struct {
		n   int
		err error
	}
	done := make(chan res, 1)
	go func() { n, err := s.pw.Write(p); done <- res{n, err} }()
	select {
	case r := <-done:
		return r.n, r.err
	case <-time.After(Patience() + 5*time.Second):
		s.stuck.Store(true)
		s.pw.CloseWithError(errStdinStuck)
		return 0, errStdinStuck
	}
}

func (s *stdinPipe) Close() error { return s.pw.Close() }

// Stuck reports whether a write has waited in vain for the server to read.
func (s *stdinPipe) Stuck() bool { return s.stuck.Load() }

// InitRequest is the raw initialize request the harness sends.
func InitRequest(id string, version string) []byte {
	v, _ := json.Marshal(version)
	return []byte(fmt.Sprintf(`{"jsonrpc":"2.0","id":%s,"method":"initialize","params":{"protocolVersion":%s,"clientInfo":{"name":"verif-peer","version":"1"},"capabilities":{}}}`, id, v))
}

// Dial creates a connection without any handshake.
func (w *World) Dial() (*Conn, error) {
	c := &Conn{W: w}
	switch w.Mode {
	case ModeLegacy:
		s, err := w.peer.OpenStream("GET", "/sse", map[string]string{"Accept": "text/event-stream"}, nil)
		if err != nil {
			return nil, err
		}
		if s.Status != 200 {
			s.Close()
			return nil, fmt.Errorf("legacy connect: status %d", s.Status)
		}
		evs := s.WaitEvents(1, 5*time.Second)
		if len(evs) < 1 || evs[0].Event != "endpoint" {
			s.Close()
			return nil, fmt.Errorf("legacy connect: no endpoint event (%v)", evs)
		}
		c.stream, c.endpoint, c.seen = s, evs[0].Data, 1
		if i := strings.Index(c.endpoint, "sessionId="); i >= 0 {
			c.SessionID = c.endpoint[i+len("sessionId="):]
		}
	case ModeStdio:
		pr, pw := io.Pipe()
		c.in, c.out = &stdinPipe{pw: pw}, NewLockedBuffer()
		ctx, cancel := context.WithCancel(context.Background())
		c.cancel = cancel
		c.done = make(chan error, 1)
		go func() { c.done <- mcp.VerifServeStdio(ctx, w.Stdio, pr, c.out) }()
	}
	return c, nil
}

// Connect dials and performs the initialize handshake with the reference peer.
func (w *World) Connect() (*Conn, error) {
	c, err := w.Dial()
	if err != nil {
		return nil, err
	}
	ex := c.Send(InitRequest(`"init"`, "2025-03-26"), `"init"`, 5*time.Second)
	if ex.Err != nil {
		c.Close()
		return nil, ex.Err
	}
	if w.Mode.Stateful() {
		c.SessionID = ex.Header.Get("Mcp-Session-Id")
		if c.SessionID == "" {
			c.Close()
			return nil, fmt.Errorf("no session id issued: status %d body %q", ex.Status, ex.Body)
		}
	}
	if len(ex.Frames) != 1 {
		c.Close()
		return nil, fmt.Errorf("initialize: %d frames, status %d body %q", len(ex.Frames), ex.Status, ex.Body)
	}
	c.Send([]byte(`{"jsonrpc":"2.0","method":"notifications/initialized"}`), "", time.Second)
	return c, nil
}

// Close ends the connection.
func (c *Conn) Close() {
	if c.stream != nil {
		c.stream.Close()
	}
	if c.in != nil {
		_ = c.in.Close()
		c.cancel()
	}
}

// StdioOut returns the captured stdout of a stdio connection.
func (c *Conn) StdioOut() *LockedBuffer { return c.out }

// LegacyStream returns the event stream of a legacy SSE connection.
func (c *Conn) LegacyStream() *Stream { return c.stream }

func rawIDOf(frame []byte) (string, bool) {
	var m map[string]json.RawMessage
	if json.Unmarshal(frame, &m) != nil {
		return "", false
	}
	id, ok := m["id"]
	if !ok {
		return "", false
	}
	var buf bytes.Buffer
	if json.Compact(&buf, id) != nil {
		return "", false
	}
	return buf.String(), true
}

func isResponseFrame(frame []byte) bool {
	var m map[string]json.RawMessage
	if json.Unmarshal(frame, &m) != nil {
		return false
	}
	_, r := m["result"]
	_, e := m["error"]
	return r || e
}

// Send posts one raw message. expectID is the compact JSON text of the id a
// response is expected under ("" when none is): asynchronous transports wait
// for that frame up to bound; everything emitted since the send is returned.
func (c *Conn) Send(raw []byte, expectID string, bound time.Duration) Exchange {
	return c.SendWith(raw, expectID, bound, nil)
}

// SendWith is Send with per-request header overrides (Streamable / legacy HTTP only).
func (c *Conn) SendWith(raw []byte, expectID string, bound time.Duration, hdr map[string]string) Exchange {
	w := c.W
	switch {
	case w.Mode.IsStreamable():
		h := map[string]string{"Content-Type": "application/json", "Accept": "application/json"}
		if w.Mode.PostSSE() {
			h["Accept"] = "application/json, text/event-stream"
		}
		if c.SessionID != "" {
			h["Mcp-Session-Id"] = c.SessionID
		}
		for k, v := range c.Extra {
			h[k] = v
		}
		for k, v := range hdr {
			if v == "\x00" {
				delete(h, k)
			} else {
				h[k] = v
			}
		}
		return w.Direct("POST", w.Path, h, raw)
	case w.Mode == ModeLegacy:
		h := map[string]string{"Content-Type": "application/json"}
		for k, v := range c.Extra {
			h[k] = v
		}
		for k, v := range hdr {
			h[k] = v
		}
		before := c.seen
		r := w.peer.Do("POST", c.endpoint, h, raw, 10*time.Second)
		ex := Exchange{Status: r.Status, Header: r.Header, Body: r.Body, Err: r.Err, Kind: "other"}
		if r.Err != nil {
			return ex
		}
		if tb := bytes.TrimSpace(r.Body); len(tb) > 0 && tb[0] == '{' && json.Valid(tb) {
			// the legacy server reports some faults as a JSON-RPC error object in the POST body
			ex.Frames = append(ex.Frames, tb)
			ex.Kind = "json"
		}
		c.collectLegacy(&ex, before, expectID, bound, r.Status >= 200 && r.Status < 300)
		return ex
	default:
		before := c.lines
		line := append(append([]byte(nil), raw...), '\n')
		if _, err := c.in.Write(line); err != nil {
			return Exchange{Err: err, Kind: "stdio"}
		}
		ex := Exchange{Kind: "stdio"}
		deadline := time.Now().Add(bound)
		for {
			all, _ := SplitStdioLines(c.out.Bytes())
			found := expectID == ""
			for _, l := range all[before:] {
				if id, ok := rawIDOf(l); ok && id == expectID && isResponseFrame(l) {
					found = true
				}
			}
			if found || time.Now().After(deadline) {
				if expectID == "" {
					c.out.WaitQuiet(3*time.Millisecond, 50*time.Millisecond)
					all, _ = SplitStdioLines(c.out.Bytes())
				}
				for _, l := range all[before:] {
					ex.Frames = append(ex.Frames, l)
				}
				c.lines = len(all)
				return ex
			}
			c.out.WaitLines(len(all)+1, time.Until(deadline))
		}
	}
}

func (c *Conn) collectLegacy(ex *Exchange, before int, expectID string, bound time.Duration, accepted bool) {
	s := c.stream
	if expectID != "" && accepted {
		deadline := time.Now().Add(bound)
		n := before
		for {
			evs := s.Events()
			found := false
			for _, e := range evs[before:] {
				if id, ok := rawIDOf([]byte(e.Data)); ok && id == expectID && isResponseFrame([]byte(e.Data)) {
					found = true
				}
			}
			if found || s.EOF() || time.Now().After(deadline) {
				break
			}
			n = len(evs)
			s.WaitEvents(n+1, time.Until(deadline))
		}
	} else {
		s.WaitQuiet(3*time.Millisecond, 50*time.Millisecond)
	}
	evs := s.Events()
	for _, e := range evs[before:] {
		ex.Events = append(ex.Events, e)
		ex.Frames = append(ex.Frames, []byte(e.Data))
	}
	c.seen = len(evs)
}

// Direct drives the Streamable handler in-process with a recorder.
func (w *World) Direct(method, path string, hdr map[string]string, body []byte) Exchange {
	var rd io.Reader
	if body != nil {
		rd = bytes.NewReader(body)
	}
	req := httptest.NewRequest(method, "http://verif"+path, rd)
	for k, v := range hdr {
		req.Header[k] = []string{v}
	}
	rec := httptest.NewRecorder()
	var pan interface{}
	func() {
		defer func() { pan = recover() }()
		w.Srv.Handler().ServeHTTP(rec, req)
	}()
	if pan != nil {
		return Exchange{Err: fmt.Errorf("handler panic: %v", pan), Kind: "panic"}
	}
	return exchangeFromHTTP(rec.Code, rec.Result().Header, rec.Body.Bytes())
}

func exchangeFromHTTP(status int, h http.Header, body []byte) Exchange {
	ex := Exchange{Status: status, Header: h, Body: body}
	ct := h.Get("Content-Type")
	trim := bytes.TrimSpace(body)
	switch {
	case strings.Contains(ct, "text/event-stream"):
		ex.Kind = "sse"
		ex.Events, _ = ParseSSE(body)
		for _, e := range ex.Events {
			ex.Frames = append(ex.Frames, []byte(e.Data))
		}
	case len(trim) == 0:
		ex.Kind = "empty"
	case strings.Contains(ct, "json"), trim[0] == '{' && json.Valid(trim):
		// a JSON object is a message whatever the Content-Type says (a handler that sets the type after it has committed
		// the header sends the right body under a sniffed type)
		ex.Kind = "json"
		ex.Frames = append(ex.Frames, trim)
	default:
		ex.Kind = "other"
	}
	return ex
}

// handlerOf returns the http.Handler of an HTTP world.
func (w *World) handlerOf() http.Handler {
	if w.SSE != nil {
		return w.SSE
	}
	return w.Srv.Handler()
}
