package harness

import (
	"context"
	"fmt"
	"sync"
	"testing"
	"time"

	"pgregory.net/rapid"
	mcp "trpc.group/trpc-go/trpc-mcp-go"
)

// C11Client: the client half of "a newer listening stream owns the session; an old one's exit never evicts it". One
// library client object against a library server goes through generated histories of Initialize, Close followed
// (after a drawn gap) by a new Initialize, server notifications and server-issued roots/list requests. Each successful
// handshake opens a listening stream; the teardown of the previous one (still running in the background when the gap
// is short) must leave the new one alone: once the server has the new stream registered, it stays registered, every
// notification addressed to the session reaches the client's handler and every roots/list request is answered.

type C11ClientCase struct {
	Mode Mode     `json:"mode"` // ModeSJ or ModeSS
	Ops  []string `json:"ops"`  // reinit notify roots
	Gaps []int    `json:"gaps"` // cycled: microseconds between Close and the next Initialize
	Real bool     `json:"real"`
	Lag  int      `json:"lag,omitempty"` // microseconds a cancelled stream's reader needs to notice (in-process transport only)
}

func execC11Client(c C11ClientCase) *Failure {
	w := NewWorld(c.Mode, RegSpec{}, WorldOpt{})
	defer w.Close()
	type lister interface {
		ListRoots(ctx context.Context) (*mcp.ListRootsResult, error)
	}
	w.Srv.RegisterTool(mcp.NewTool("roots"), func(ctx context.Context, req *mcp.CallToolRequest) (*mcp.CallToolResult, error) {
		rctx, cancel := context.WithTimeout(ctx, Patience())
		defer cancel()
		res, err := mcp.GetServerFromContext(ctx).(lister).ListRoots(rctx)
		if err != nil {
			return mcp.NewTextResult("err:" + err.Error()), nil
		}
		return mcp.NewTextResult(fmt.Sprintf("roots:%d", len(res.Roots))), nil
	})
	lc, err := w.ConnectLib(c.Real, nil)
	if err != nil {
		return Failf("C11/client/connect", "%v", err)
	}
	defer lc.Close()
	if lc.Bridge != nil && c.Lag > 0 {
		lc.Bridge.CancelLagNs.Store(int64(c.Lag) * 1000)
	}
	cl := lc.C.(*mcp.Client)
	cl.SetRootsProvider(mcp.NewDefaultRootsProvider(mcp.Root{URI: "file:///a", Name: "a"}))
	var mu sync.Mutex
	got := map[string]int{}
	register := func() {
		cl.RegisterNotificationHandler("notifications/verif", func(n *mcp.JSONRPCNotification) error {
			tag, _ := n.Params.AdditionalFields["nonce"].(string)
			mu.Lock()
			got[tag]++
			mu.Unlock()
			return nil
		})
	}
	register()
	gen := 0
	waitStream := func(where string) *Failure {
		deadline := time.Now().Add(Patience())
		for mcp.VerifStreamCount(w.Srv) < 1 {
			if time.Now().After(deadline) {
				return TimingFailf("C11/client/no-listening-stream", "%s: the handshake succeeded but no listening stream of the client is registered at the server", where)
			}
			time.Sleep(200 * time.Microsecond)
		}
		return nil
	}
	if f := waitStream("first handshake"); f != nil {
		return f
	}
	for i, op := range c.Ops {
		where := fmt.Sprintf("%s op %d %s of %v (handshake generation %d, gaps %v)", c.Mode, i, op, c.Ops, gen, c.Gaps)
		switch op {
		case "reinit":
			cl.Close()
			if g := c.Gaps[gen%len(c.Gaps)]; g > 0 {
				time.Sleep(time.Duration(g) * time.Microsecond)
			}
			gen++
			ctx, cancel := context.WithTimeout(context.Background(), 10*time.Second)
			_, err := cl.Initialize(ctx, &mcp.InitializeRequest{})
			cancel()
			if err != nil {
				return Failf("C11/client/reinit-failed", "%s: Initialize after Close failed: %v", where, err)
			}
			register() // Close drops the registered handlers (documented in the transport)
			if f := waitStream(where); f != nil {
				return f
			}
			// the old stream's teardown may still be running: give it the time to do whatever it does
			time.Sleep(3*time.Millisecond + time.Duration(c.Lag)*time.Microsecond)
		case "notify":
			sid := cl.GetSessionID()
			nonce := fmt.Sprintf("n%d", i)
			// the stream is registered (waited for above); it must still be
			var serr error
			deadline := time.Now().Add(Bound())
			for {
				serr = w.Srv.SendNotification(sid, "notifications/verif", map[string]interface{}{"nonce": nonce})
				if serr == nil || time.Now().After(deadline) {
					break
				}
				time.Sleep(time.Millisecond)
			}
			if serr != nil {
				return TimingFailf("C11/client/send-fails", "%s: the server cannot reach session %s although the client's handshake (generation %d) had opened a listening stream: %v (streams registered now: %d)", where, sid, gen, serr, mcp.VerifStreamCount(w.Srv))
			}
			deadline = time.Now().Add(Patience())
			for {
				mu.Lock()
				n := got[nonce]
				mu.Unlock()
				if n == 1 {
					break
				}
				if n > 1 {
					return Failf("C11/client/duplicate-delivery", "%s: notification %s reached the handler %d times", where, nonce, n)
				}
				if time.Now().After(deadline) {
					return TimingFailf("C11/client/notification-lost", "%s: the server wrote notification %s to session %s, the client's handler never received it", where, nonce, sid)
				}
				time.Sleep(300 * time.Microsecond)
			}
		case "roots":
			ctx, cancel := context.WithTimeout(context.Background(), Patience()+2*time.Second)
			req := &mcp.CallToolRequest{}
			req.Params.Name = "roots"
			res, err := cl.CallTool(ctx, req)
			cancel()
			if err != nil || len(res.Content) != 1 {
				f := Failf("C11/client/roots-call", "%s: %v", where, err)
				f.Timing = true
				return f
			}
			if tc, _ := res.Content[0].(mcp.TextContent); tc.Text != "roots:1" {
				return TimingFailf("C11/client/roots-unanswered", "%s: the server's roots/list request inside the session was not answered by the client: %q", where, tc.Text)
			}
		}
	}
	return nil
}

func TestC11Client(t *testing.T) {
	RunProp(t, Prop[C11ClientCase]{ID: "C11",
		Gen: func(t *rapid.T) C11ClientCase {
			c := C11ClientCase{Mode: rapid.SampledFrom([]Mode{ModeSJ, ModeSS}).Draw(t, "mode"), Real: rapid.IntRange(0, 5).Draw(t, "real") == 0}
			n := rapid.IntRange(2, 8).Draw(t, "nops")
			for i := 0; i < n; i++ {
				c.Ops = append(c.Ops, rapid.SampledFrom([]string{"reinit", "reinit", "notify", "notify", "roots"}).Draw(t, "op"))
			}
			k := rapid.IntRange(1, 3).Draw(t, "ngaps")
			for i := 0; i < k; i++ {
				c.Gaps = append(c.Gaps, rapid.SampledFrom([]int{0, 0, 50, 200, 1000, 5000}).Draw(t, "gap"))
			}
			c.Lag = rapid.SampledFrom([]int{0, 0, 300, 2000, 6000}).Draw(t, "lag")
			return c
		},
		Exec: execC11Client,
		NT: func(c C11ClientCase) (bool, []string) {
			re, after := false, false
			for _, o := range c.Ops {
				if o == "reinit" {
					re = true
				} else if re {
					after = true
				}
			}
			return after, []string{"mode=" + c.Mode.String()}
		}})
}
