package harness

import (
	"context"
	"encoding/json"
	"fmt"
	"net/http"
	"strings"
	"testing"
	"time"

	"pgregory.net/rapid"
	mcp "trpc.group/trpc-go/trpc-mcp-go"
)

// C03Stream: messages a server writes on its own initiative - notifications addressed to a session or broadcast,
// requests it issues inside a session (roots/list, arbitrary methods through SendRequest), the notifications a tool
// handler emits during a call, and what it writes when a listening stream is opened or re-opened with a
// Last-Event-ID - are well-formed JSON-RPC 2.0 messages of their kind too. Reference peers hold the streams; every
// frame seen on any stream (current or replaced) and in any POST answer is judged by the C03 frame oracle.

type C03SOp struct {
	Op     string `json:"op"`               // get notify broadcast roots sendreq chatty
	LastID string `json:"lastid,omitempty"` // get: value of Last-Event-ID ("" = header absent)
	Method string `json:"method,omitempty"` // notify / broadcast / sendreq
	Params int    `json:"params,omitempty"` // index into c03sParams
	IDKind int    `json:"idkind,omitempty"` // sendreq: 0 none given (the server numbers it), 1 integer, 2 string
	Answer bool   `json:"answer,omitempty"` // roots / sendreq: the peer answers (otherwise the request ends with its context)
	Kinds  []int  `json:"kinds,omitempty"`  // chatty: what the handler emits (0 progress, 1 log, 2 custom via map, 3 hand-built Notification, 4 NewNotification with _meta)
}

type C03SCase struct {
	Legacy  bool     `json:"legacy"`
	PostSSE bool     `json:"postsse"`
	Ops     []C03SOp `json:"ops"`
}

var c03sMethods = []string{"notifications/message", "notifications/progress", "notifications/verif", "notifications/resources/updated", "notifications/tools/list_changed", "x", "sampling/createMessage", "roots/list", "ping", "a/b/c", "ünï/cödé", "%d%s"}

var c03sParams = []string{``, `{}`, `{"a":1}`, `{"nested":{"k":[1,2,{"z":null}]},"s":"line\nbreak"}`, `{"_meta":{"progressToken":"tok-1"},"progress":0.5}`, `{"level":"info","data":{"x":"  é 💥 % \\ \""}}`, `{"big":"` + strings.Repeat("q", 70000) + `"}`}

var c03sLastIDs = []string{"", "", "1", "evt-3", "0", "999999999999", "abc def", "é", "id with \"quotes\"", strings.Repeat("9", 300)}

func c03sParamsOf(i int) map[string]interface{} {
	s := c03sParams[i%len(c03sParams)]
	if s == "" {
		return nil
	}
	var m map[string]interface{}
	json.Unmarshal([]byte(s), &m)
	return m
}

func genC03S(t *rapid.T) C03SCase {
	c := C03SCase{Legacy: rapid.IntRange(0, 3).Draw(t, "legacy") == 0, PostSSE: rapid.Bool().Draw(t, "postsse")}
	n := rapid.IntRange(1, 8).Draw(t, "nops")
	for i := 0; i < n; i++ {
		op := C03SOp{Op: rapid.SampledFrom([]string{"get", "get", "notify", "notify", "broadcast", "roots", "sendreq", "chatty"}).Draw(t, "op")}
		switch op.Op {
		case "get":
			op.LastID = rapid.SampledFrom(c03sLastIDs).Draw(t, "lastid")
		case "notify", "broadcast", "sendreq":
			op.Method = rapid.SampledFrom(c03sMethods).Draw(t, "method")
			op.Params = rapid.IntRange(0, len(c03sParams)-1).Draw(t, "params")
			op.IDKind = rapid.IntRange(0, 2).Draw(t, "idkind")
			op.Answer = rapid.Bool().Draw(t, "answer")
		case "roots":
			op.Answer = rapid.Bool().Draw(t, "answer")
		case "chatty":
			k := rapid.IntRange(1, 5).Draw(t, "nkinds")
			for j := 0; j < k; j++ {
				op.Kinds = append(op.Kinds, rapid.IntRange(0, 4).Draw(t, "kind"))
			}
			op.Params = rapid.IntRange(0, len(c03sParams)-1).Draw(t, "params")
		}
		c.Ops = append(c.Ops, op)
	}
	return c
}

func ntC03S(c C03SCase) (bool, []string) {
	l := []string{fmt.Sprintf("legacy=%v", c.Legacy)}
	nt := false
	for _, o := range c.Ops {
		l = append(l, "op="+o.Op)
		if o.Op == "get" && o.LastID != "" {
			l = append(l, "resume")
		}
		if o.Op != "get" || o.LastID != "" {
			nt = true
		}
	}
	return nt, l
}

type c03sLister interface {
	ListRoots(ctx context.Context) (*mcp.ListRootsResult, error)
}

func execC03S(c C03SCase) *Failure {
	mode := ModeSJ
	if c.PostSSE {
		mode = ModeSS
	}
	if c.Legacy {
		mode = ModeLegacy
	}
	w := NewWorld(mode, RegSpec{}, WorldOpt{NoUnix: true})
	defer w.Close()
	reg := RegistrarOf(serverOf(w))
	reg.RegisterTool(mcp.NewTool("roots", mcp.WithNumber("ms")), func(ctx context.Context, req *mcp.CallToolRequest) (*mcp.CallToolResult, error) {
		ms, _ := req.Params.Arguments["ms"].(float64)
		cctx, cancel := context.WithTimeout(ctx, time.Duration(ms)*time.Millisecond)
		defer cancel()
		l, ok := mcp.GetServerFromContext(ctx).(c03sLister)
		if !ok {
			return mcp.NewTextResult("no server"), nil
		}
		_, err := l.ListRoots(cctx)
		return mcp.NewTextResult(fmt.Sprint("roots: ", err)), nil
	})
	reg.RegisterTool(mcp.NewTool("chatty"), func(ctx context.Context, req *mcp.CallToolRequest) (*mcp.CallToolResult, error) {
		sender, ok := mcp.GetNotificationSender(ctx)
		if !ok {
			return mcp.NewTextResult("no sender"), nil
		}
		kinds, _ := req.Params.Arguments["kinds"].([]interface{})
		pi, _ := req.Params.Arguments["params"].(float64)
		for _, k := range kinds {
			kf, _ := k.(float64)
			switch int(kf) {
			case 0:
				sender.SendProgress(0.25, "quarter   done")
			case 1:
				sender.SendLogMessage("warning", "log % line\nsecond")
			case 2:
				sender.SendCustomNotification("notifications/verif-custom", c03sParamsOf(int(pi)))
			case 3:
				sender.SendNotification(&mcp.Notification{Method: "notifications/verif-built", Params: mcp.NotificationParams{AdditionalFields: c03sParamsOf(int(pi))}})
			case 4:
				sender.SendNotification(mcp.NewNotification("notifications/verif-new", map[string]interface{}{"_meta": map[string]interface{}{"progressToken": 7}, "v": c03sParamsOf(int(pi))}))
			}
		}
		return mcp.NewTextResult("chatty-done"), nil
	})
	var h http.Handler
	if c.Legacy {
		h = w.SSE
	} else {
		h = w.Srv.Handler()
	}
	var streams []*LiveResp
	defer func() {
		for _, s := range streams {
			s.PeerGone()
		}
	}()
	judged := map[*LiveResp]int{}
	judge := func(where string) *Failure {
		for _, s := range streams {
			evs := s.Events()
			for i := judged[s]; i < len(evs); i++ {
				if evs[i].Event == "endpoint" {
					continue
				}
				if _, f := DecodeFrame([]byte(evs[i].Data)); f != nil {
					f.Msg = fmt.Sprintf("%s: on a listening stream (event %d, event type %q): %s", where, i, evs[i].Event, f.Msg)
					return f
				}
			}
			judged[s] = len(evs)
		}
		return nil
	}
	judgeEx := func(where string, ex Exchange) *Failure {
		if ex.Err != nil {
			return Failf("C03/stream/panic", "%s: %v", where, ex.Err)
		}
		for _, fr := range ex.Frames {
			if _, f := DecodeFrame(fr); f != nil {
				f.Msg = fmt.Sprintf("%s: in the answer to a POST: %s", where, f.Msg)
				return f
			}
		}
		return nil
	}
	hdr := map[string]string{"Content-Type": "application/json", "Accept": "application/json, text/event-stream"}
	sid, endpoint := "", ""
	var cur *LiveResp
	post := func(body string) *LiveResp {
		url := "http://verif/mcp"
		if c.Legacy {
			url = "http://verif" + endpoint
		}
		return StartLive(h, "POST", url, hdr, []byte(body), nil)
	}
	if c.Legacy {
		cur = StartLive(h, "GET", "http://verif/sse", map[string]string{"Accept": "text/event-stream"}, nil, nil)
		streams = append(streams, cur)
		evs := cur.WaitEvents(1, 2*time.Second)
		if len(evs) < 1 || evs[0].Event != "endpoint" {
			return TimingFailf("C03/stream/connect", "legacy: no endpoint event")
		}
		endpoint = evs[0].Data
		p := post(string(InitRequest(`"i"`, "2024-11-05")))
		p.WaitReturned(2 * time.Second)
		cur.WaitEvents(2, 2*time.Second)
		p = post(`{"jsonrpc":"2.0","method":"notifications/initialized"}`)
		p.WaitReturned(2 * time.Second)
	} else {
		ex := w.Direct("POST", "/mcp", hdr, InitRequest("0", "2025-03-26"))
		sid = ex.Header.Get("Mcp-Session-Id")
		if sid == "" {
			return Failf("C03/stream/connect", "no session id (status %d)", ex.Status)
		}
		hdr["Mcp-Session-Id"] = sid
		w.Direct("POST", "/mcp", hdr, []byte(`{"jsonrpc":"2.0","method":"notifications/initialized"}`))
	}
	// waitRequest waits for a server-issued request frame to appear on the current stream and returns its raw id.
	waitRequest := func(from int) (string, bool) {
		if cur == nil {
			return "", false
		}
		deadline := time.Now().Add(Bound())
		for {
			evs := cur.Events()
			for i := from; i < len(evs); i++ {
				var m struct {
					ID     json.RawMessage `json:"id"`
					Method string          `json:"method"`
				}
				if json.Unmarshal([]byte(evs[i].Data), &m) == nil && len(m.ID) > 0 && m.Method != "" {
					return string(m.ID), true
				}
			}
			if time.Now().After(deadline) {
				return "", false
			}
			time.Sleep(200 * time.Microsecond)
		}
	}
	for oi, op := range c.Ops {
		where := fmt.Sprintf("%s op %d %+v", mode, oi, C03SOp{Op: op.Op, LastID: op.LastID, Method: op.Method, Params: op.Params, IDKind: op.IDKind, Answer: op.Answer, Kinds: op.Kinds})
		switch op.Op {
		case "get":
			if c.Legacy {
				continue // one stream per legacy session, opened above
			}
			gh := map[string]string{"Accept": "text/event-stream", "Mcp-Session-Id": sid}
			if op.LastID != "" {
				gh[http.CanonicalHeaderKey("Last-Event-ID")] = op.LastID // as net/http delivers it to a handler
			}
			lr := StartLive(h, "GET", "http://verif/mcp", gh, nil, nil)
			streams = append(streams, lr)
			if !lr.WaitFlushedHeader(Bound()*4) || lr.Returned() {
				st, _, body, _, pan, _ := lr.Snapshot()
				if pan != nil {
					return Failf("C03/stream/panic", "%s: %v", where, pan)
				}
				return TimingFailf("C03/stream/get-not-opened", "%s: stream not opened (status %d body %.100q)", where, st, body)
			}
			cur = lr
			if op.LastID != "" {
				lr.WaitEvents(1, Bound()) // what the server says about the resumption, if anything
			}
		case "notify":
			if c.Legacy {
				continue
			}
			w.Srv.SendNotification(sid, op.Method, c03sParamsOf(op.Params))
		case "broadcast":
			if c.Legacy {
				continue
			}
			w.Srv.BroadcastNotification(op.Method, c03sParamsOf(op.Params))
		case "roots", "sendreq":
			from := 0
			if cur != nil {
				from = len(cur.Events())
			}
			done := make(chan struct{})
			var p *LiveResp
			if op.Op == "roots" {
				ms := 40
				if op.Answer {
					ms = 3000
				}
				p = post(fmt.Sprintf(`{"jsonrpc":"2.0","id":"call-%d","method":"tools/call","params":{"name":"roots","arguments":{"ms":%d}}}`, oi, ms))
				close(done)
			} else {
				req := &mcp.JSONRPCRequest{JSONRPC: "2.0", Request: mcp.Request{Method: op.Method}}
				if pm := c03sParamsOf(op.Params); pm != nil {
					req.Params = pm
				}
				switch op.IDKind {
				case 1:
					req.ID = int64(1000000 + oi)
				case 2:
					// the legacy SSE server keys its pending table by integer ids (SendRequest asserts int64): strings only on Streamable HTTP
					if c.Legacy {
						req.ID = int64(77000000 + oi)
					} else {
						req.ID = fmt.Sprintf("srv-%%-%d", oi)
					}
				}
				ms := 40
				if op.Answer {
					ms = 3000
				}
				go func() {
					defer close(done)
					ctx, cancel := context.WithTimeout(context.Background(), time.Duration(ms)*time.Millisecond)
					defer cancel()
					if c.Legacy {
						w.SSE.SendRequest(ctx, strings.TrimPrefix(endpoint[strings.Index(endpoint, "sessionId="):], "sessionId="), req)
					} else {
						w.Srv.SendRequest(ctx, sid, req)
					}
				}()
			}
			if id, ok := waitRequest(from); ok && op.Answer {
				a := post(fmt.Sprintf(`{"jsonrpc":"2.0","id":%s,"result":{"roots":[]}}`, id))
				a.WaitReturned(Patience())
				if f := judgeEx(where, a.Exchange()); f != nil {
					return f
				}
			}
			select {
			case <-done:
			case <-time.After(Patience() + 3*time.Second):
				return TimingFailf("C03/stream/request-does-not-end", "%s: the server-issued request did not end", where)
			}
			if p != nil {
				if !p.WaitReturned(Patience() + 3*time.Second) {
					return TimingFailf("C03/stream/call-does-not-end", "%s: the tool call did not end", where)
				}
				if !c.Legacy {
					if f := judgeEx(where, p.Exchange()); f != nil {
						return f
					}
				}
			}
		case "chatty":
			kinds, _ := json.Marshal(op.Kinds)
			p := post(fmt.Sprintf(`{"jsonrpc":"2.0","id":%d,"method":"tools/call","params":{"name":"chatty","arguments":{"kinds":%s,"params":%d},"_meta":{"progressToken":"pt"}}}`, 100+oi, kinds, op.Params))
			if !p.WaitReturned(Patience()) {
				return TimingFailf("C03/stream/call-does-not-end", "%s: the tool call did not end", where)
			}
			if !c.Legacy {
				if f := judgeEx(where, p.Exchange()); f != nil {
					return f
				}
			} else if cur != nil {
				// the answer arrives on the session stream
				deadline := time.Now().Add(Bound() * 4)
				want := fmt.Sprintf(`"id":%d`, 100+oi)
				for time.Now().Before(deadline) {
					found := false
					for _, e := range cur.Events() {
						if strings.Contains(e.Data, want) {
							found = true
						}
					}
					if found {
						break
					}
					time.Sleep(200 * time.Microsecond)
				}
			}
		}
		if f := judge(where); f != nil {
			return f
		}
	}
	// frames still in flight when the last operation returned
	time.Sleep(2 * time.Millisecond)
	return judge(fmt.Sprintf("%s after %d operations", mode, len(c.Ops)))
}

func TestC03Stream(t *testing.T) {
	RunProp(t, Prop[C03SCase]{ID: "C03", Gen: genC03S, Exec: execC03S, NT: ntC03S})
}
