package harness

import (
	"encoding/json"
	"os"
	"path/filepath"
	"testing"

	"pgregory.net/rapid"
	mcp "trpc.group/trpc-go/trpc-mcp-go"
)

// TestSelfSchemaPairs writes (schema, instance, verdict of the harness's validator) triples for
// ./check selftest, which compares the verdicts with python jsonschema (Draft 2020-12).
func TestSelfSchemaPairs(t *testing.T) {
	if os.Getenv("VERIF_SELFTEST") == "" {
		t.Skip("only run by ./check selftest")
	}
	f, err := os.Create(filepath.Join(outDir(), "pairs.jsonl"))
	if err != nil {
		t.Fatal(err)
	}
	defer f.Close()
	enc := json.NewEncoder(f)
	emit := func(schema []byte, inst interface{}) {
		doc, err := ParseSchema(schema)
		if err != nil {
			return
		}
		for _, ref := range doc.AllRefs() {
			if _, err := doc.ResolvePointer(ref); err != nil {
				return // dangling references are judged by the C18 check itself
			}
		}
		b, _ := json.Marshal(inst)
		v, _ := DecodeJSON(b)
		enc.Encode(map[string]interface{}{"schema": json.RawMessage(schema), "instance": json.RawMessage(b), "go_valid": doc.Validate(v) == nil})
	}
	rapid.Check(t, func(rt *rapid.T) {
		c := genC18(rt)
		types, err := c.buildTypes()
		if err != nil {
			return
		}
		root := types[len(types)-1]
		seed := c.Seed
		val := populate(root, "", &seed, 0)
		sb, err := json.Marshal(mcp.VerifSchemaForType(root, c.Style))
		if err != nil {
			return
		}
		vb, err := json.Marshal(val.Interface())
		if err != nil {
			return
		}
		var inst interface{}
		json.Unmarshal(vb, &inst)
		emit(sb, inst)
		// mutated instances: drop a member, retype a member, add a member
		if m, ok := inst.(map[string]interface{}); ok && len(m) > 0 {
			keys := sortedKeys(m)
			k := keys[rapid.IntRange(0, len(keys)-1).Draw(rt, "mutkey")]
			switch rapid.IntRange(0, 2).Draw(rt, "mut") {
			case 0:
				delete(m, k)
			case 1:
				m[k] = []interface{}{"retyped", 1.5, nil}
			default:
				m["zz-extra"] = map[string]interface{}{"a": 1}
			}
			emit(sb, m)
		}
	})
	// the MCP spec document against a few frames
	for _, fr := range []string{`{"jsonrpc":"2.0","id":1,"result":{}}`, `{"jsonrpc":"2.0","id":true,"result":{}}`, `{"jsonrpc":"2.0","id":1,"result":{},"error":{"code":1,"message":"x"}}`, `{"jsonrpc":"2.0","method":"m"}`} {
		var v interface{}
		json.Unmarshal([]byte(fr), &v)
		for _, kind := range []string{"response", "error", "notification", "request"} {
			sub := map[string]interface{}{"$ref": "#/$defs/" + kind}
			var spec map[string]interface{}
			json.Unmarshal(mcpSpecBytes, &spec)
			sub["$defs"] = spec["$defs"]
			sb, _ := json.Marshal(sub)
			emit(sb, v)
		}
	}
}
