package harness

import (
	"context"
	"encoding/json"
	"fmt"
	"net/http"
	"net/http/httptest"
	"runtime"
	"sort"
	"strings"
	"sync"
	"testing"
	"time"

	"pgregory.net/rapid"
	mcp "trpc.group/trpc-go/trpc-mcp-go"
)

// C05: server-initiated traffic reaches exactly the addressed session.

type C05Op struct {
	Op     string `json:"op"` // notify broadcast filtered roots close reopen
	Sess   int    `json:"sess"`
	Other  int    `json:"other,omitempty"`  // roots: the session that answers first when Answer=="foreign"
	Answer string `json:"answer,omitempty"` // roots: own foreign cancel
	Subset int    `json:"subset,omitempty"` // filtered: bit mask over sessions
	Pad    int    `json:"pad,omitempty"`
}

type C05Case struct {
	Kind  int     `json:"kind"` // 0 Streamable stateful, 1 legacy SSE, 2 stdio
	NSess int     `json:"nsess"`
	Ops   []C05Op `json:"ops"`
	MW    int     `json:"mw,omitempty"` // number of pass-through middlewares configured on the server (0..2)
	// IDBase: the server has already issued this many requests of its own (its id counter starts here)
	IDBase int64 `json:"idbase,omitempty"`
}

func genC05(t *rapid.T) C05Case {
	c := C05Case{Kind: rapid.SampledFrom([]int{0, 0, 0, 1, 2}).Draw(t, "kind")}
	c.NSess = rapid.IntRange(1, 5).Draw(t, "nsess")
	if c.Kind == 2 {
		c.NSess = 1
	}
	c.MW = rapid.SampledFrom([]int{0, 0, 1, 2}).Draw(t, "mw")
	c.IDBase = rapid.SampledFrom(c01IDBases).Draw(t, "idbase")
	n := rapid.IntRange(1, 12).Draw(t, "nops")
	for i := 0; i < n; i++ {
		ops := []string{"notify", "notify", "notify", "broadcast", "filtered", "roots", "roots", "rootspair", "close", "reopen", "burst"}
		if c.Kind != 0 {
			ops = []string{"roots", "roots", "roots", "rootspair", "notify"}
		}
		op := C05Op{Op: rapid.SampledFrom(ops).Draw(t, "op"), Sess: rapid.IntRange(0, c.NSess-1).Draw(t, "sess")}
		switch op.Op {
		case "rootspair":
			op.Other = rapid.IntRange(0, c.NSess-1).Draw(t, "pairother")
			op.Answer = rapid.SampledFrom([]string{"first-first", "second-first"}).Draw(t, "pairorder")
		case "roots":
			op.Answer = rapid.SampledFrom([]string{"own", "own", "own-error", "foreign", "foreign-error", "cancel", "precancel", "cancel-and-answer", "cancel-and-answer"}).Draw(t, "answer")
			op.Other = rapid.IntRange(0, c.NSess-1).Draw(t, "other")
			if (op.Answer == "foreign" || op.Answer == "foreign-error") && (op.Other == op.Sess || c.Kind == 2) {
				op.Answer = "own"
			}
			if (op.Answer == "foreign" || op.Answer == "foreign-error") && Excluded("C05/foreign-answer-accepted") {
				CountExcluded("C05/foreign-answer-accepted")
				op.Answer = "own"
			}
		case "filtered":
			op.Subset = rapid.IntRange(0, 1<<uint(c.NSess)-1).Draw(t, "subset")
		case "notify", "broadcast":
			if rapid.IntRange(0, 7).Draw(t, "big") == 0 {
				op.Pad = rapid.SampledFrom([]int{5000, 70000, 300000}).Draw(t, "pad")
			}
		}
		c.Ops = append(c.Ops, op)
	}
	return c
}

func ntC05(c C05Case) (bool, []string) {
	addressed := false
	for _, o := range c.Ops {
		if o.Op == "notify" || o.Op == "filtered" || (o.Op == "roots" && (o.Answer == "foreign" || o.Answer == "foreign-error")) {
			addressed = true
		}
	}
	return c.NSess >= 2 && addressed, []string{fmt.Sprintf("kind=%d", c.Kind)}
}

// refSess is a reference peer's session: a listening stream plus the means to post.
type refSess struct {
	id        string
	stream    *LiveResp // Streamable GET / legacy /sse
	endpoint  string    // legacy
	consumed  int       // events already accounted for
	open      bool
	expect    []string // nonces expected on the current stream since it was opened (in order)
	stdio     *Conn
	seenReq   map[string]bool // ids of server-issued requests already attributed to an operation
	unordered bool            // the expected nonces were sent concurrently: their order on the stream is open
}

type c05World struct {
	c       C05Case
	w       *World
	h       http.Handler
	sess    []*refSess
	cancels sync.Map // call nonce -> context.CancelFunc
}

func (cw *c05World) post(s *refSess, body string) (int, string) {
	url, hdr := "/mcp", http.Header{"Content-Type": {"application/json"}, "Accept": {"application/json"}}
	if cw.c.Kind == 1 {
		url = s.endpoint
	} else {
		hdr.Set("Mcp-Session-Id", s.id)
	}
	req := httptest.NewRequest("POST", "http://verif"+url, strings.NewReader(body))
	req.Header = hdr
	rec := httptest.NewRecorder()
	cw.h.ServeHTTP(rec, req)
	return rec.Code, rec.Body.String()
}

func (cw *c05World) openStream(s *refSess) *Failure {
	if cw.c.Kind == 1 {
		lr := StartLive(cw.h, "GET", "http://verif/sse", map[string]string{"Accept": "text/event-stream"}, nil, nil)
		evs := lr.WaitEvents(1, 2*time.Second)
		if len(evs) < 1 || evs[0].Event != "endpoint" {
			return Failf("C05/connect", "legacy: no endpoint event")
		}
		s.stream, s.endpoint, s.consumed, s.open = lr, evs[0].Data, 1, true
		s.id = s.endpoint[strings.Index(s.endpoint, "sessionId=")+len("sessionId="):]
		return nil
	}
	before := mcp.VerifStreamCount(cw.w.Srv)
	_ = before
	lr := StartLive(cw.h, "GET", "http://verif/mcp", map[string]string{"Accept": "text/event-stream", "Mcp-Session-Id": s.id}, nil, nil)
	if !lr.WaitFlushedHeader(2*time.Second) || lr.Returned() {
		return TimingFailf("C05/stream-not-opened", "GET for session %s did not open", s.id)
	}
	s.stream, s.consumed, s.open, s.expect = lr, 0, true, nil
	return nil
}

func execC05(c C05Case) *Failure {
	cw := &c05World{c: c}
	modes := []Mode{ModeSJ, ModeLegacy, ModeStdio}
	wo := WorldOpt{NoUnix: true}
	for i := 0; i < c.MW; i++ {
		pass := func(next mcp.HandlerFunc) mcp.HandlerFunc {
			return func(ctx context.Context, req *mcp.JSONRPCRequest) (mcp.JSONRPCMessage, error) { return next(ctx, req) }
		}
		wo.ServerOpts = append(wo.ServerOpts, mcp.WithMiddleware(pass))
		wo.SSEOpts = append(wo.SSEOpts, mcp.WithSSEMiddleware(pass))
	}
	cw.w = NewWorld(modes[c.Kind], RegSpec{}, wo)
	w := cw.w
	if c.IDBase > 0 {
		mcp.VerifSetServerRequestCounter(serverOf(w), c.IDBase)
	}
	if w.unix != nil {
		// the legacy world starts a unix server by default; this property drives the handler in-process
	}
	defer w.Close()
	type lister interface {
		ListRoots(ctx context.Context) (*mcp.ListRootsResult, error)
	}
	rootsTool := func(ctx context.Context, req *mcp.CallToolRequest) (*mcp.CallToolResult, error) {
		nonce, _ := req.Params.Arguments["nonce"].(string)
		cctx, cancel := context.WithCancel(ctx)
		cw.cancels.Store(nonce, cancel)
		defer cancel()
		if pre, _ := req.Params.Arguments["precancel"].(bool); pre {
			cancel() // the caller has given up before the request is issued
		}
		srv := mcp.GetServerFromContext(ctx)
		l, ok := srv.(lister)
		if !ok {
			return mcp.NewTextResult(fmt.Sprintf("err:no server in context (%T)", srv)), nil
		}
		res, err := l.ListRoots(cctx)
		if err != nil {
			return mcp.NewTextResult("err:" + err.Error()), nil
		}
		var uris []string
		for _, r := range res.Roots {
			uris = append(uris, r.URI)
		}
		return mcp.NewTextResult("roots:" + strings.Join(uris, ",")), nil
	}
	RegistrarOf(serverOf(w)).RegisterTool(mcp.NewTool("roots", mcp.WithString("nonce")), rootsTool)
	switch c.Kind {
	case 0:
		cw.h = w.Srv.Handler()
	case 1:
		cw.h = w.SSE
	}
	// sessions
	for i := 0; i < c.NSess; i++ {
		s := &refSess{}
		switch c.Kind {
		case 0:
			ex := w.Direct("POST", "/mcp", map[string]string{"Content-Type": "application/json", "Accept": "application/json"}, InitRequest("0", "2025-03-26"))
			s.id = ex.Header.Get("Mcp-Session-Id")
			if s.id == "" {
				return Failf("C05/connect", "no session id")
			}
			cw.post(s, `{"jsonrpc":"2.0","method":"notifications/initialized"}`)
			if f := cw.openStream(s); f != nil {
				return f
			}
		case 1:
			if f := cw.openStream(s); f != nil {
				return f
			}
			cw.post(s, string(InitRequest(`"i"`, "2024-11-05")))
			s.stream.WaitEvents(2, 2*time.Second)
			s.consumed = len(s.stream.Events())
			cw.post(s, `{"jsonrpc":"2.0","method":"notifications/initialized"}`)
		case 2:
			conn, err := w.Connect()
			if err != nil {
				return Failf("C05/connect", "%v", err)
			}
			defer conn.Close()
			s.stdio, s.open = conn, true
		}
		cw.sess = append(cw.sess, s)
	}
	defer func() {
		for _, s := range cw.sess {
			if s.stream != nil {
				s.stream.PeerGone()
			}
		}
	}()
	if c.Kind == 0 {
		waitRegistered(w.Srv, c.NSess)
	}
	seq := 0
	var olds []*LiveResp
	for oi, op := range c.Ops {
		seq++
		nonce := fmt.Sprintf("op%d", oi)
		s := cw.sess[op.Sess]
		where := fmt.Sprintf("kind=%d sessions=%d op %d %+v", c.Kind, c.NSess, oi, op)
		pad := strings.Repeat("q", op.Pad)
		switch op.Op {
		case "notify":
			if c.Kind != 0 {
				continue // legacy SSE refuses every session (see DESIGN: vacuous), stdio has no addressed notifications
			}
			err := w.Srv.SendNotification(s.id, "notifications/verif", map[string]interface{}{"nonce": nonce, "pad": pad})
			if s.open {
				if err != nil {
					return Failf("C05/send-to-open-session-failed", "%s: %v", where, err)
				}
				s.expect = append(s.expect, nonce)
			} else if err == nil {
				return Failf("C05/send-to-closed-session-succeeded", "%s: SendNotification reported success although the session has no stream", where)
			}
		case "broadcast", "filtered":
			if c.Kind != 0 {
				continue
			}
			wantN := 0
			var cnt int
			var err error
			if op.Op == "broadcast" {
				for _, x := range cw.sess {
					if x.open {
						wantN++
						x.expect = append(x.expect, nonce)
					}
				}
				cnt, err = w.Srv.BroadcastNotification("notifications/verif", map[string]interface{}{"nonce": nonce, "pad": pad})
			} else {
				ids := map[string]bool{}
				for i, x := range cw.sess {
					if op.Subset&(1<<uint(i)) != 0 {
						ids[x.id] = true
						if x.open {
							wantN++
							x.expect = append(x.expect, nonce)
						}
					}
				}
				cnt, _, err = w.Srv.SendFilteredNotification("notifications/verif", map[string]interface{}{"nonce": nonce}, func(id string) bool { return ids[id] })
			}
			_ = err // the statement fixes the count, not the accompanying error (DESIGN section 7)
			if cnt != wantN {
				return Failf("C05/"+op.Op+"-count", "%s: reported %d sessions reached, %d selected sessions have an open stream", where, cnt, wantN)
			}
		case "burst":
			// several goroutines broadcast and send filtered notifications at the same time (one of the filters consults the
			// server's session list while it is being asked): every open session gets every one of them, once
			if c.Kind != 0 {
				continue
			}
			for _, x := range cw.sess {
				if x.open {
					if f := cw.drain(x, where); f != nil {
						return f
					}
				}
			}
			wantN := 0
			for _, x := range cw.sess {
				if x.open {
					wantN++
				}
			}
			var bwg sync.WaitGroup
			var bmu sync.Mutex
			var all []string
			badCount := ""
			for g := 0; g < 3; g++ {
				bwg.Add(1)
				go func(g int) {
					defer bwg.Done()
					for k := 0; k < 4; k++ {
						n := fmt.Sprintf("%s-g%dk%d", nonce, g, k)
						var cnt int
						if (g+k)%2 == 0 {
							cnt, _ = w.Srv.BroadcastNotification("notifications/verif", map[string]interface{}{"nonce": n})
						} else {
							cnt, _, _ = w.Srv.SendFilteredNotification("notifications/verif", map[string]interface{}{"nonce": n}, func(id string) bool {
								if g == 1 {
									w.Srv.GetActiveSessions()
								}
								return true
							})
						}
						bmu.Lock()
						all = append(all, n)
						if cnt != wantN {
							badCount = fmt.Sprintf("send %s reported %d sessions reached, %d sessions have an open stream", n, cnt, wantN)
						}
						bmu.Unlock()
					}
				}(g)
			}
			bwg.Wait()
			if badCount != "" {
				return Failf("C05/burst-count", "%s: %s", where, badCount)
			}
			for _, x := range cw.sess {
				if x.open {
					x.expect = append([]string(nil), all...)
					x.unordered = true
					f := cw.drain(x, where)
					x.unordered = false
					if f != nil {
						return f
					}
				}
			}
		case "close":
			if c.Kind == 0 && s.open {
				if f := cw.drain(s, where); f != nil {
					return f
				}
				s.stream.PeerGone()
				s.stream.WaitReturned(2 * time.Second)
				olds = append(olds, s.stream)
				s.open = false
			}
		case "reopen":
			if c.Kind == 0 {
				if s.open {
					if f := cw.drain(s, where); f != nil {
						return f
					}
					olds = append(olds, s.stream)
				}
				old := s.stream
				if f := cw.openStream(s); f != nil {
					return f
				}
				if old != nil {
					old.WaitReturned(2 * time.Second)
				}
				// the new stream is registered once the old one's exit and the new registration have both happened
				deadline := time.Now().Add(2 * time.Second)
				for time.Now().Before(deadline) {
					if err := w.Srv.SendNotification(s.id, "notifications/probe", map[string]interface{}{"nonce": "probe"}); err == nil {
						s.expect = append(s.expect, "probe")
						break
					}
					time.Sleep(200 * time.Microsecond)
				}
			}
		case "roots":
			if !s.open {
				continue
			}
			if f := cw.roots(op, s, nonce, where); f != nil {
				return f
			}
		case "rootspair":
			o := cw.sess[op.Other]
			if !s.open || !o.open || o == s || c.Kind == 2 {
				continue
			}
			if f := cw.rootsPair(op, s, o, nonce, where); f != nil {
				return f
			}
		}
	}
	// final accounting: every stream carries exactly its expected frames, in order
	for i, s := range cw.sess {
		if s.open && s.stream != nil && c.Kind == 0 {
			if f := cw.drain(s, fmt.Sprintf("kind=%d final check of session %d", c.Kind, i)); f != nil {
				return f
			}
		}
	}
	for _, o := range olds {
		if _, _, _, _, _, late := o.Snapshot(); late > 0 {
			return Failf("C05/write-after-stream-ended", "the server wrote %d times to a listening stream whose handler had already returned", late)
		}
	}
	deadline := time.Now().Add(Bound() * 4)
	for mcp.VerifPendingServerRequests(serverOf(w)) != 0 {
		if time.Now().After(deadline) {
			return TimingFailf("C05/pending-left-behind", "kind=%d: %d server->client requests are still registered as pending after everything was answered or cancelled", c.Kind, mcp.VerifPendingServerRequests(serverOf(w)))
		}
		time.Sleep(time.Millisecond)
	}
	return nil
}

// drain compares the stream's notification frames since it was opened with the expected sequence.
func (cw *c05World) drain(s *refSess, where string) *Failure {
	want := s.expect
	evs := s.stream.WaitEvents(s.consumed+len(want), Bound()*4)
	s.stream.wait(func() bool { return false }, 3*time.Millisecond)
	evs = s.stream.Events()
	var got []string
	for _, e := range evs[s.consumed:] {
		var m struct {
			Method string `json:"method"`
			ID     interface{}
			Params struct {
				Nonce string `json:"nonce"`
			} `json:"params"`
		}
		if err := json.Unmarshal([]byte(e.Data), &m); err != nil {
			return Failf("C05/bad-frame", "%s: %.100q", where, e.Data)
		}
		if m.Method == "roots/list" || m.Method == "stream/resumed" {
			continue
		}
		got = append(got, m.Params.Nonce)
	}
	if s.unordered {
		got, want = append([]string(nil), got...), append([]string(nil), want...)
		sort.Strings(got)
		sort.Strings(want)
	}
	if strings.Join(got, ",") != strings.Join(want, ",") {
		key := "C05/delivery-mismatch"
		if len(got) < len(want) {
			f := TimingFailf(key, "%s: session %s received %v, sent to it (in order): %v", where, s.id, got, want)
			return f
		}
		return Failf(key, "%s: session %s received %v, sent to it (in order): %v", where, s.id, got, want)
	}
	s.consumed = len(evs)
	s.expect = nil
	return nil
}

func (s *refSess) markReq(id string) {
	if s.seenReq == nil {
		s.seenReq = map[string]bool{}
	}
	s.seenReq[id] = true
}

// staleRequests attributes every roots/list request frame visible now to the operation that just ended (a request given
// up before it was issued may still have been written).
func (cw *c05World) staleRequests(s *refSess) {
	time.Sleep(5 * time.Millisecond)
	var frames [][]byte
	if s.stdio != nil {
		frames, _ = SplitStdioLines(s.stdio.out.Bytes())
	} else if s.stream != nil {
		for _, e := range s.stream.Events() {
			frames = append(frames, []byte(e.Data))
		}
	}
	for _, fr := range frames {
		var m map[string]json.RawMessage
		if json.Unmarshal(fr, &m) == nil && string(m["method"]) == `"roots/list"` {
			s.markReq(string(m["id"]))
		}
	}
}

// nextRootsRequest waits for the roots/list request frame on a session's stream and returns its id.
func (cw *c05World) nextRootsRequest(s *refSess) (string, bool) {
	deadline := time.Now().Add(Patience())
	for time.Now().Before(deadline) {
		if s.stdio != nil {
			all, _ := SplitStdioLines(s.stdio.out.Bytes())
			for i := s.stdio.lines; i < len(all); i++ {
				var m map[string]json.RawMessage
				if json.Unmarshal(all[i], &m) == nil && string(m["method"]) == `"roots/list"` && !s.seenReq[string(m["id"])] {
					s.stdio.lines = i + 1
					s.markReq(string(m["id"]))
					return string(m["id"]), true
				}
			}
			time.Sleep(200 * time.Microsecond)
			continue
		}
		evs := s.stream.Events()
		for i := s.consumed; i < len(evs); i++ {
			var m map[string]json.RawMessage
			if json.Unmarshal([]byte(evs[i].Data), &m) == nil && string(m["method"]) == `"roots/list"` && !s.seenReq[string(m["id"])] {
				// frames before the request stay to be accounted by drain: only mark this one as seen by rewriting expectations
				s.markReq(string(m["id"]))
				return string(m["id"]), true
			}
		}
		s.stream.WaitEvents(len(evs)+1, 2*time.Millisecond)
	}
	return "", false
}

func (cw *c05World) roots(op C05Op, s *refSess, nonce, where string) *Failure {
	c := cw.c
	// account for earlier frames first so that the request frame is the next new event
	if c.Kind == 0 {
		if f := cw.drain(s, where); f != nil {
			return f
		}
	} else if s.stream != nil {
		s.consumed = len(s.stream.Events())
	}
	type callRes struct{ text string }
	resCh := make(chan callRes, 1)
	body := fmt.Sprintf(`{"jsonrpc":"2.0","id":"call-%s","method":"tools/call","params":{"name":"roots","arguments":{"nonce":%q,"precancel":%v}}}`, nonce, nonce, op.Answer == "precancel")
	extract := func(frame []byte) string {
		var m struct {
			Result struct {
				Content []struct {
					Text string `json:"text"`
				} `json:"content"`
			} `json:"result"`
		}
		json.Unmarshal(frame, &m)
		if len(m.Result.Content) == 1 {
			return m.Result.Content[0].Text
		}
		return "unparsed:" + string(frame)
	}
	switch c.Kind {
	case 0:
		go func() { _, b := cw.post(s, body); resCh <- callRes{extract([]byte(b))} }()
	case 1:
		cw.post(s, body)
	case 2:
		s.stdio.in.Write([]byte(body + "\n"))
	}
	id, ok := "", false
	if op.Answer == "precancel" {
		ok = true // whether a request that was cancelled before it was issued is still written is not decided by the statement
	} else {
		id, ok = cw.nextRootsRequest(s)
	}
	if !ok {
		return TimingFailf("C05/request-not-delivered", "%s: the roots/list request did not appear on the session's own stream", where)
	}
	// the request must not appear on any other session's stream
	for j, o := range cw.sess {
		if o == s || o.stream == nil || !o.open {
			continue
		}
		for _, e := range o.stream.Events()[o.consumed:] {
			if strings.Contains(e.Data, `"roots/list"`) {
				return Failf("C05/request-on-foreign-stream", "%s: the roots/list request issued inside session %d appeared on session %d's stream", where, op.Sess, j)
			}
		}
	}
	answer := func(from *refSess, tag string) {
		b := fmt.Sprintf(`{"jsonrpc":"2.0","id":%s,"result":{"roots":[{"uri":"file:///%s","name":"r"}]}}`, id, tag)
		if from.stdio != nil {
			from.stdio.in.Write([]byte(b + "\n"))
			return
		}
		cw.post(from, b)
	}
	switch op.Answer {
	case "foreign":
		answer(cw.sess[op.Other], fmt.Sprintf("foreign-%d", op.Other))
		time.Sleep(2 * time.Millisecond)
		answer(s, fmt.Sprintf("own-%d", op.Sess))
	case "foreign-error":
		// the other session answers with an error object under the same request id
		cw.post(cw.sess[op.Other], fmt.Sprintf(`{"jsonrpc":"2.0","id":%s,"error":{"code":-32000,"message":"foreign-%d says no"}}`, id, op.Other))
		time.Sleep(2 * time.Millisecond)
		answer(s, fmt.Sprintf("own-%d", op.Sess))
	case "own-error":
		// the addressed session refuses the request with a JSON-RPC error object
		eb := fmt.Sprintf(`{"jsonrpc":"2.0","id":%s,"error":{"code":-32601,"message":"own-%d does not list roots"}}`, id, op.Sess)
		if s.stdio != nil {
			s.stdio.in.Write([]byte(eb + "\n"))
		} else {
			cw.post(s, eb)
		}
	case "precancel":
		// nothing to answer: the request was given up before it was issued
	case "cancel":
		if cf, ok := cw.cancels.Load(nonce); ok {
			cf.(context.CancelFunc)()
		}
	case "cancel-and-answer":
		// the answer arrives at the moment the request is given up: whichever wins, the request is over afterwards
		var rw sync.WaitGroup
		rw.Add(2)
		go func() {
			defer rw.Done()
			if cf, ok := cw.cancels.Load(nonce); ok {
				if len(nonce)%2 == 0 {
					runtime.Gosched()
				}
				cf.(context.CancelFunc)()
			}
		}()
		go func() { defer rw.Done(); answer(s, "raced-"+nonce) }()
		rw.Wait()
	default:
		answer(s, fmt.Sprintf("own-%d", op.Sess))
	}
	// collect the tool result
	var text string
	switch c.Kind {
	case 0:
		select {
		case r := <-resCh:
			text = r.text
		case <-time.After(Patience()):
			return TimingFailf("C05/roots-call-stuck", "%s: the tool call that issued roots/list did not return", where)
		}
	default:
		deadline := time.Now().Add(Patience())
		want := fmt.Sprintf(`"call-%s"`, nonce)
		for text == "" && time.Now().Before(deadline) {
			var frames [][]byte
			if s.stdio != nil {
				all, _ := SplitStdioLines(s.stdio.out.Bytes())
				frames = all
			} else {
				for _, e := range s.stream.Events() {
					frames = append(frames, []byte(e.Data))
				}
			}
			for _, fr := range frames {
				if rid, ok := rawIDOf(fr); ok && rid == want && isResponseFrame(fr) {
					text = extract(fr)
				}
			}
			time.Sleep(300 * time.Microsecond)
		}
		if text == "" {
			return TimingFailf("C05/roots-call-stuck", "%s: the tool call that issued roots/list did not return", where)
		}
		if s.stream != nil {
			s.consumed = len(s.stream.Events())
		}
	}
	if c.Kind == 0 {
		// the request frame on the own stream has been handled
		s.consumed = len(s.stream.Events())
	}
	switch op.Answer {
	case "own-error":
		// an error answer is an answer: the request ends (with an error or an empty result, the statement does not say
		// which) and leaves nothing pending - checked when the case ends
		if strings.Contains(text, "file:///") {
			return Failf("C05/roots-result", "%s: ListRoots returned %q although the session answered with an error", where, text)
		}
	case "precancel":
		if !strings.HasPrefix(text, "err:") {
			return Failf("C05/cancel-result", "%s: a roots/list issued under a context that was already cancelled returned %q", where, text)
		}
		cw.staleRequests(s)
	case "cancel-and-answer":
		if text != "roots:file:///raced-"+nonce && !(strings.HasPrefix(text, "err:") && strings.Contains(text, "context canceled")) {
			return Failf("C05/cancel-result", "%s: a roots/list that was cancelled while its answer (raced-%s) arrived returned %q", where, nonce, text)
		}
	case "cancel":
		if !strings.HasPrefix(text, "err:") || !strings.Contains(text, "context canceled") {
			return Failf("C05/cancel-result", "%s: a cancelled roots/list returned %q", where, text)
		}
		// a late answer must change nothing
		answer(s, "late")
	case "foreign-error":
		if !strings.HasPrefix(text, "roots:") {
			return Failf("C05/foreign-answer-accepted", "%s: ListRoots inside session %d returned %q after session %d had posted an error answer under the same request id", where, op.Sess, text, op.Other)
		}
		fallthrough
	case "foreign":
		if strings.Contains(text, "foreign-") {
			return Failf("C05/foreign-answer-accepted", "%s: ListRoots inside session %d returned %q - the answer posted by session %d under the same request id", where, op.Sess, text, op.Other)
		}
		fallthrough
	default:
		if text != fmt.Sprintf("roots:file:///own-%d", op.Sess) {
			return Failf("C05/roots-result", "%s: ListRoots returned %q, the session answered file:///own-%d", where, text, op.Sess)
		}
	}
	return nil
}

// rootsPair: two sessions have a roots/list request pending at the same time; each must get its own answer.
func (cw *c05World) rootsPair(op C05Op, a, b *refSess, nonce, where string) *Failure {
	c := cw.c
	for _, s := range []*refSess{a, b} {
		if c.Kind == 0 {
			if f := cw.drain(s, where); f != nil {
				return f
			}
		} else {
			s.consumed = len(s.stream.Events())
		}
	}
	extract := func(frame []byte) string {
		var m struct {
			Result struct {
				Content []struct {
					Text string `json:"text"`
				} `json:"content"`
			} `json:"result"`
		}
		json.Unmarshal(frame, &m)
		if len(m.Result.Content) == 1 {
			return m.Result.Content[0].Text
		}
		return "unparsed:" + string(frame)
	}
	type pending struct {
		s   *refSess
		tag string
		id  string
		ch  chan string
	}
	var ps []*pending
	for i, s := range []*refSess{a, b} {
		p := &pending{s: s, tag: fmt.Sprintf("%s-%d", nonce, i), ch: make(chan string, 1)}
		body := fmt.Sprintf(`{"jsonrpc":"2.0","id":"call-%s","method":"tools/call","params":{"name":"roots","arguments":{"nonce":%q}}}`, p.tag, p.tag)
		if c.Kind == 0 {
			go func() { _, bd := cw.post(p.s, body); p.ch <- extract([]byte(bd)) }()
		} else {
			cw.post(s, body)
		}
		id, ok := cw.nextRootsRequest(s)
		if !ok {
			return TimingFailf("C05/request-not-delivered", "%s: the roots/list request of session %s did not appear on its own stream", where, s.id)
		}
		p.id = id
		ps = append(ps, p)
	}
	order := []*pending{ps[0], ps[1]}
	if op.Answer == "second-first" {
		order = []*pending{ps[1], ps[0]}
	}
	for _, p := range order {
		cw.post(p.s, fmt.Sprintf(`{"jsonrpc":"2.0","id":%s,"result":{"roots":[{"uri":"file:///own-%s","name":"r"}]}}`, p.id, p.tag))
	}
	for _, p := range ps {
		text := ""
		if c.Kind == 0 {
			select {
			case text = <-p.ch:
			case <-time.After(Patience()):
			}
		} else {
			deadline := time.Now().Add(Patience())
			want := fmt.Sprintf(`"call-%s"`, p.tag)
			for text == "" && time.Now().Before(deadline) {
				for _, e := range p.s.stream.Events() {
					if rid, ok := rawIDOf([]byte(e.Data)); ok && rid == want && isResponseFrame([]byte(e.Data)) {
						text = extract([]byte(e.Data))
					}
				}
				time.Sleep(300 * time.Microsecond)
			}
		}
		p.s.consumed = len(p.s.stream.Events())
		if text == "" {
			return TimingFailf("C05/overlapping-requests/stuck", "%s: with two roots/list requests pending in different sessions (request ids %s and %s) the call of session %s never returned", where, ps[0].id, ps[1].id, p.s.id)
		}
		if text != "roots:file:///own-"+p.tag {
			return Failf("C05/overlapping-requests/wrong-answer", "%s: with two roots/list requests pending in different sessions (request ids %s and %s) session %s got %q, it answered file:///own-%s", where, ps[0].id, ps[1].id, p.s.id, text, p.tag)
		}
	}
	return nil
}

func TestC05(t *testing.T) {
	RunProp(t, Prop[C05Case]{ID: "C05", Gen: genC05, Exec: execC05, NT: ntC05})
}

var _ = sort.Strings
