package harness

// Bridge: an mcp.HTTPReqHandler that runs an http.Handler in-process (no
// sockets) with TCP-like buffering, records every request the client emits and
// can inject transport faults. FakeServer: scripted MCP peers for the clients.

import (
	"bytes"
	"context"
	"encoding/json"
	"errors"
	"fmt"
	"io"
	"net"
	"net/http"
	"os"
	"strings"
	"sync"
	"sync/atomic"
	"syscall"
	"time"
)

// bufPipe is an unbounded in-memory pipe: writes never block (like a socket buffer).
type bufPipe struct {
	mu     sync.Mutex
	cond   *sync.Cond
	buf    []byte
	werr   error // set when the writer side is closed
	rerr   error // set when the reader side is closed
	onRead func()
}

func newBufPipe() *bufPipe {
	p := &bufPipe{}
	p.cond = sync.NewCond(&p.mu)
	return p
}

func (p *bufPipe) Write(b []byte) (int, error) {
	p.mu.Lock()
	defer p.mu.Unlock()
	if p.rerr != nil {
		return 0, p.rerr
	}
	if p.werr != nil {
		return 0, io.ErrClosedPipe
	}
	p.buf = append(p.buf, b...)
	p.cond.Broadcast()
	return len(b), nil
}

func (p *bufPipe) Read(b []byte) (int, error) {
	p.mu.Lock()
	defer p.mu.Unlock()
	for len(p.buf) == 0 {
		if p.rerr != nil {
			return 0, p.rerr
		}
		if p.werr != nil {
			return 0, p.werr
		}
		p.cond.Wait()
	}
	n := copy(b, p.buf)
	p.buf = p.buf[n:]
	return n, nil
}

func (p *bufPipe) CloseWrite(err error) {
	if err == nil {
		err = io.EOF
	}
	p.mu.Lock()
	if p.werr == nil {
		p.werr = err
	}
	p.cond.Broadcast()
	p.mu.Unlock()
}

func (p *bufPipe) CloseRead(err error) {
	if err == nil {
		err = io.ErrClosedPipe
	}
	p.mu.Lock()
	if p.rerr == nil {
		p.rerr = err
	}
	p.cond.Broadcast()
	p.mu.Unlock()
}

// SeenReq is one HTTP request as the peer received it.
type SeenReq struct {
	N       int
	Method  string
	Path    string
	Query   string
	Host    string
	Header  http.Header
	Body    []byte
	RPC     string // JSON-RPC method ("" when none)
	RPCKind string // request, notification, response, "" (not JSON-RPC)
	CtxVal  interface{}
}

// Bridge implements mcp.HTTPReqHandler.
type Bridge struct {
	H http.Handler
	// Fault, if set, is consulted before dispatch; a non-nil error is returned to the client as a transport error.
	Fault func(r *SeenReq) error
	// CtxKey: when set, ctx.Value(CtxKey) of the Handle call is recorded with the request.
	CtxKey interface{}
	// CancelLagNs: when the client's context ends, a reader blocked on the response body learns of it only this much
	// later (a socket whose teardown takes a while).
	CancelLagNs atomic.Int64

	mu   sync.Mutex
	Seen []*SeenReq
	n    atomic.Int64
	// Forwarded counts calls to Handle (what the "request handler" customisation saw).
	Forwarded atomic.Int64
	// HandedDead counts the requests handed over under a context that had already ended (nothing is sent for those).
	HandedDead atomic.Int64
	open       atomic.Int64
}

// SetFault installs the fault injector while requests may already be in flight.
func (b *Bridge) SetFault(f func(r *SeenReq) error) {
	b.mu.Lock()
	b.Fault = f
	b.mu.Unlock()
}

// OpenBodies is the number of response bodies handed to the client and not yet closed.
func (b *Bridge) OpenBodies() int { return int(b.open.Load()) }

// Requests returns a snapshot of the received requests.
func (b *Bridge) Requests() []*SeenReq {
	b.mu.Lock()
	defer b.mu.Unlock()
	return append([]*SeenReq(nil), b.Seen...)
}

// Count returns how many requests of a JSON-RPC method (or HTTP verb when rpc is "GET"/"DELETE") were received.
func (b *Bridge) Count(rpc string) int {
	n := 0
	for _, r := range b.Requests() {
		if r.RPC == rpc || (r.RPC == "" && r.Method == rpc) {
			n++
		}
	}
	return n
}

// Total is the number of requests received so far.
func (b *Bridge) Total() int {
	b.mu.Lock()
	defer b.mu.Unlock()
	return len(b.Seen)
}

type bridgeWriter struct {
	hdr    http.Header
	sent   http.Header // snapshot of the header at WriteHeader time: what the peer sees
	status int
	wrote  bool
	ready  chan struct{}
	once   sync.Once
	pipe   *bufPipe
}

func (w *bridgeWriter) Header() http.Header { return w.hdr }
func (w *bridgeWriter) WriteHeader(code int) {
	if !w.wrote {
		w.wrote = true
		w.status = code
		w.sent = w.hdr.Clone()
		w.once.Do(func() { close(w.ready) })
	}
}
func (w *bridgeWriter) Write(p []byte) (int, error) {
	if !w.wrote {
		w.WriteHeader(200)
	}
	return w.pipe.Write(p)
}
func (w *bridgeWriter) Flush() {
	if !w.wrote {
		w.WriteHeader(200)
	}
}

type bridgeBody struct {
	pipe   *bufPipe
	cancel context.CancelFunc
	b      *Bridge
	once   sync.Once
}

func (r *bridgeBody) Read(p []byte) (int, error) { return r.pipe.Read(p) }
func (r *bridgeBody) Close() error {
	r.once.Do(func() {
		r.b.open.Add(-1)
		r.pipe.CloseRead(nil)
		r.cancel()
	})
	return nil
}

func classifyRPC(body []byte) (method, kind string) {
	var m map[string]json.RawMessage
	if json.Unmarshal(body, &m) != nil {
		return "", ""
	}
	var meth string
	if raw, ok := m["method"]; ok {
		json.Unmarshal(raw, &meth)
	}
	_, hasID := m["id"]
	switch {
	case meth != "" && hasID:
		return meth, "request"
	case meth != "":
		return meth, "notification"
	case hasID:
		return "", "response"
	}
	return "", ""
}

// Handle implements mcp.HTTPReqHandler.
func (b *Bridge) Handle(ctx context.Context, _ *http.Client, req *http.Request) (*http.Response, error) {
	b.Forwarded.Add(1)
	var body []byte
	if req.Body != nil {
		body, _ = io.ReadAll(req.Body)
		req.Body.Close()
	}
	sr := &SeenReq{N: int(b.n.Add(1)), Method: req.Method, Path: req.URL.Path, Query: req.URL.RawQuery, Host: req.URL.Host, Header: req.Header.Clone(), Body: body}
	sr.RPC, sr.RPCKind = classifyRPC(body)
	if b.CtxKey != nil {
		sr.CtxVal = ctx.Value(b.CtxKey)
	}
	if err := ctx.Err(); err != nil {
		b.HandedDead.Add(1)
		return nil, err
	}
	// net/http's transport refuses to send a header value with control characters; so does the bridge
	for k, vs := range req.Header {
		for _, v := range vs {
			for i := 0; i < len(v); i++ {
				if c := v[i]; (c < 0x20 && c != '\t') || c == 0x7f {
					return nil, fmt.Errorf("net/http: invalid header field value for %q", k)
				}
			}
		}
	}
	b.mu.Lock()
	fault := b.Fault
	b.mu.Unlock()
	if fault != nil {
		if err := fault(sr); err != nil {
			b.mu.Lock()
			b.Seen = append(b.Seen, sr)
			b.mu.Unlock()
			return nil, err
		}
	}
	b.mu.Lock()
	b.Seen = append(b.Seen, sr)
	b.mu.Unlock()

	sctx, cancel := context.WithCancel(context.Background())
	sreq, err := http.NewRequestWithContext(sctx, req.Method, req.URL.String(), bytes.NewReader(body))
	if err != nil {
		cancel()
		return nil, err
	}
	sreq.Header = req.Header.Clone()
	sreq.RequestURI = req.URL.RequestURI()
	sreq.RemoteAddr = "bridge:1"
	pipe := newBufPipe()
	w := &bridgeWriter{hdr: http.Header{}, ready: make(chan struct{}), pipe: pipe}
	done := make(chan struct{})
	go func() {
		defer close(done)
		defer func() {
			if r := recover(); r != nil {
				if a, ok := r.(abortWith); ok {
					if !w.wrote {
						w.WriteHeader(200)
					}
					pipe.CloseWrite(a.err)
					return
				}
				pipe.CloseWrite(fmt.Errorf("unexpected EOF (handler panic: %v)", r))
				w.once.Do(func() { w.status = 0; close(w.ready) })
				return
			}
			if !w.wrote {
				w.WriteHeader(200)
			}
			pipe.CloseWrite(io.EOF)
		}()
		b.H.ServeHTTP(w, sreq)
	}()
	// the client's context ending is the peer going away
	go func() {
		select {
		case <-ctx.Done():
			if lag := b.CancelLagNs.Load(); lag > 0 {
				time.Sleep(time.Duration(lag))
			}
			pipe.CloseRead(ctx.Err())
			cancel()
		case <-done:
		}
	}()
	select {
	case <-w.ready:
	case <-ctx.Done():
		cancel()
		return nil, ctx.Err()
	}
	if w.status == 0 {
		cancel()
		return nil, errors.New("EOF")
	}
	b.open.Add(1)
	resp := &http.Response{
		Status: fmt.Sprintf("%d %s", w.status, http.StatusText(w.status)), StatusCode: w.status,
		Proto: "HTTP/1.1", ProtoMajor: 1, ProtoMinor: 1,
		Header: w.sent, Body: &bridgeBody{pipe: pipe, cancel: cancel, b: b}, ContentLength: -1, Request: req,
	}
	return resp, nil
}

// ---------------------------------------------------------------------------
// scripted peers

// FakeAction says how the scripted peer treats one incoming JSON-RPC message.
type FakeAction struct {
	Kind   string // "" / "ok", "rpc-error", "malformed", "http", "silent" (202, never answered), "raw"
	Status int    // for http
	Raw    string // for raw: bytes of the HTTP body / the SSE data / the stdio line ({{id}} is replaced)
	Code   int    // for rpc-error
	CT     string // for raw on Streamable HTTP: the Content-Type of the response
	Cut    int    // for fault: write only the first Cut bytes of Raw ...
	Split  bool   // for raw on event streams: written in pieces (see writeSplit)
	Then   string // ... then: "close" (end of stream), "reset" (read error), "stall" (nothing more until the peer leaves), "exit0" "exit3" "kill9" (stdio child)
}

// abortWith lets a scripted handler end its response with a chosen read error on the client's side.
type abortWith struct{ err error }

// DefaultResult is the valid result the scripted peers give for a method.
func DefaultResult(method string, params json.RawMessage) string {
	switch method {
	case "initialize":
		var p struct {
			ProtocolVersion string `json:"protocolVersion"`
		}
		json.Unmarshal(params, &p)
		if p.ProtocolVersion == "" {
			p.ProtocolVersion = "2025-03-26"
		}
		return fmt.Sprintf(`{"protocolVersion":%q,"capabilities":{"tools":{"listChanged":true}},"serverInfo":{"name":"fake","version":"1"}}`, p.ProtocolVersion)
	case "tools/list":
		return `{"tools":[{"name":"echo","description":"e","inputSchema":{"type":"object","properties":{}}}]}`
	case "tools/call":
		var p struct {
			Arguments json.RawMessage `json:"arguments"`
		}
		json.Unmarshal(params, &p)
		t, _ := json.Marshal("echo:" + string(p.Arguments))
		return `{"content":[{"type":"text","text":` + string(t) + `}]}`
	case "prompts/list":
		return `{"prompts":[{"name":"p","description":"d"}]}`
	case "prompts/get":
		return `{"description":"d","messages":[{"role":"user","content":{"type":"text","text":"hi"}}]}`
	case "resources/list":
		return `{"resources":[{"uri":"file:///x","name":"x"}]}`
	case "resources/read":
		return `{"contents":[{"uri":"file:///x","mimeType":"text/plain","text":"body"}]}`
	}
	return `{}`
}

// RenderAnswer builds the JSON-RPC frame an action stands for ("" = no frame).
func RenderAnswer(act FakeAction, method string, id, params json.RawMessage) string {
	switch act.Kind {
	case "", "ok":
		return fmt.Sprintf(`{"jsonrpc":"2.0","id":%s,"result":%s}`, id, DefaultResult(method, params))
	case "rpc-error":
		code := act.Code
		if code == 0 {
			code = -32000
		}
		return fmt.Sprintf(`{"jsonrpc":"2.0","id":%s,"error":{"code":%d,"message":"scripted failure"}}`, id, code)
	case "rpc-error-0":
		// an error object whose code is 0 (the member is there; no range is reserved for "not an error")
		return fmt.Sprintf(`{"jsonrpc":"2.0","id":%s,"error":{"code":0,"message":"scripted failure with code 0"}}`, id)
	case "malformed":
		return fmt.Sprintf(`{"jsonrpc":"2.0","id":%s,"result":"this is not an object"}`, id)
	case "raw":
		return strings.ReplaceAll(act.Raw, "{{id}}", string(id))
	}
	return ""
}

// FakeServer is a scripted Streamable-HTTP or legacy-SSE MCP server.
type FakeServer struct {
	Legacy   bool
	Stateful bool                                          // Streamable: issue a session id on initialize
	PostSSE  bool                                          // Streamable: answer requests as an event stream
	Plan     func(method, kind string, nth int) FakeAction // nil = everything ok
	// NoEndpoint (legacy): the event stream is accepted and its headers are flushed, but the endpoint event never comes.
	NoEndpoint bool
	// StallPosts: once set, every further POST is read and then left without a response until its peer gives up.
	StallPosts atomic.Bool
	Accepted   atomic.Int64 // legacy: requests acknowledged with 202
	// SessionSuffix, when set, replaces the tail of the issued session ids (ids are opaque: they may end in anything, digits included)
	SessionSuffix string

	mu      sync.Mutex
	counts  map[string]int
	streams map[string]chan string // legacy: session -> events to push
	seq     int
	GetOpen atomic.Int64
	// GetTotal counts the listening streams ever opened; EndAllGets makes every later GET end at once, too.
	GetTotal   atomic.Int64
	EndAllGets atomic.Bool
	// PushGET holds frames to be written on any Streamable GET stream that opens.
	getChans []chan string
}

func (f *FakeServer) plan(method, kind string) FakeAction {
	f.mu.Lock()
	if f.counts == nil {
		f.counts = map[string]int{}
	}
	n := f.counts[kind+":"+method]
	f.counts[kind+":"+method] = n + 1
	f.mu.Unlock()
	if f.Plan == nil {
		return FakeAction{}
	}
	return f.Plan(method, kind, n)
}

// PushToStreams writes a frame on every open Streamable GET stream / legacy stream.
func (f *FakeServer) PushToStreams(frame string) int {
	f.mu.Lock()
	defer f.mu.Unlock()
	n := 0
	for _, ch := range f.getChans {
		select {
		case ch <- frame:
			n++
		default:
		}
	}
	for _, ch := range f.streams {
		select {
		case ch <- frame:
			n++
		default:
		}
	}
	return n
}

func (f *FakeServer) ServeHTTP(w http.ResponseWriter, r *http.Request) {
	if f.Legacy {
		f.serveLegacy(w, r)
		return
	}
	switch r.Method {
	case http.MethodGet:
		if !f.Stateful {
			http.Error(w, "no stream", http.StatusMethodNotAllowed)
			return
		}
		ch := make(chan string, 256)
		f.mu.Lock()
		f.getChans = append(f.getChans, ch)
		f.mu.Unlock()
		f.GetOpen.Add(1)
		f.GetTotal.Add(1)
		defer f.GetOpen.Add(-1)
		w.Header().Set("Content-Type", "text/event-stream")
		w.WriteHeader(200)
		w.(http.Flusher).Flush()
		if f.EndAllGets.Load() {
			return
		}
		for {
			select {
			case fr := <-ch:
				if fr == "END:" {
					return // the server ends the listening stream (a clean end of the response body)
				}
				if strings.HasPrefix(fr, "RAWSPLIT:") {
					writeSplit(w, fr[len("RAWSPLIT:"):])
				} else if strings.HasPrefix(fr, "RAW:") {
					io.WriteString(w, fr[4:])
				} else {
					fmt.Fprintf(w, "id: g%d\ndata: %s\n\n", time.Now().UnixNano(), fr)
				}
				w.(http.Flusher).Flush()
			case <-r.Context().Done():
				return
			}
		}
	case http.MethodDelete:
		w.WriteHeader(200)
		return
	case http.MethodPost:
	default:
		http.Error(w, "method", http.StatusMethodNotAllowed)
		return
	}
	body, _ := io.ReadAll(r.Body)
	var m struct {
		ID     json.RawMessage `json:"id"`
		Method string          `json:"method"`
		Params json.RawMessage `json:"params"`
	}
	json.Unmarshal(body, &m)
	if f.StallPosts.Load() {
		<-r.Context().Done() // read and never answered, until the peer gives up
		return
	}
	method, kind := classifyRPC(body)
	act := f.plan(method, kind)
	if f.Stateful && act.Kind != "http" {
		if method == "initialize" {
			f.mu.Lock()
			f.seq++
			sid := f.sessionID(f.seq)
			f.mu.Unlock()
			w.Header().Set("Mcp-Session-Id", sid)
		} else if sid := r.Header.Get("Mcp-Session-Id"); sid != "" {
			w.Header().Set("Mcp-Session-Id", sid)
		}
	}
	if act.Kind == "http" {
		http.Error(w, "scripted status", act.Status)
		return
	}
	if act.Kind == "fault" && kind == "request" {
		ct := act.CT
		if ct == "" {
			ct = "application/json"
		}
		w.Header().Set("Content-Type", ct)
		w.WriteHeader(200)
		body := renderRaw(act.Raw, method, m.ID, m.Params)
		cut := act.Cut
		if cut > len(body) {
			cut = len(body)
		}
		io.WriteString(w, body[:cut])
		w.(http.Flusher).Flush()
		finishFault(act.Then, r)
		return
	}
	if act.Kind == "raw" && kind == "request" {
		ct := act.CT
		if ct == "" {
			ct = "application/json"
		}
		w.Header().Set("Content-Type", ct)
		w.WriteHeader(200)
		if act.Split && strings.Contains(ct, "event-stream") {
			writeSplit(w, renderRaw(act.Raw, method, m.ID, m.Params))
		} else {
			io.WriteString(w, renderRaw(act.Raw, method, m.ID, m.Params))
		}
		return
	}
	if kind != "request" {
		w.WriteHeader(http.StatusAccepted)
		return
	}
	if act.Kind == "silent" {
		w.WriteHeader(http.StatusAccepted)
		return
	}
	frame := RenderAnswer(act, method, m.ID, m.Params)
	if f.PostSSE {
		w.Header().Set("Content-Type", "text/event-stream")
		w.WriteHeader(200)
		fmt.Fprintf(w, "id: e1\ndata: %s\n\n", frame)
		return
	}
	w.Header().Set("Content-Type", "application/json")
	w.WriteHeader(200)
	io.WriteString(w, frame)
}

func (f *FakeServer) serveLegacy(w http.ResponseWriter, r *http.Request) {
	switch {
	case strings.HasSuffix(r.URL.Path, "/sse") && r.Method == http.MethodGet:
		f.mu.Lock()
		f.seq++
		sid := fmt.Sprintf("s%d", f.seq)
		ch := make(chan string, 256)
		if f.streams == nil {
			f.streams = map[string]chan string{}
		}
		f.streams[sid] = ch
		f.mu.Unlock()
		defer func() {
			f.mu.Lock()
			delete(f.streams, sid)
			f.mu.Unlock()
		}()
		w.Header().Set("Content-Type", "text/event-stream")
		w.WriteHeader(200)
		if f.NoEndpoint {
			w.(http.Flusher).Flush()
			<-r.Context().Done()
			return
		}
		fmt.Fprintf(w, "event: endpoint\ndata: /message?sessionId=%s\n\n", sid)
		w.(http.Flusher).Flush()
		for {
			select {
			case fr := <-ch:
				if strings.HasPrefix(fr, "FAULT:") {
					p := strings.SplitN(fr, ":", 3)
					io.WriteString(w, p[2])
					w.(http.Flusher).Flush()
					finishFault(p[1], r)
					return
				}
				if strings.HasPrefix(fr, "RAWSPLIT:") {
					writeSplit(w, fr[len("RAWSPLIT:"):])
				} else if strings.HasPrefix(fr, "RAW:") {
					io.WriteString(w, fr[4:])
				} else {
					fmt.Fprintf(w, "event: message\ndata: %s\n\n", fr)
				}
				w.(http.Flusher).Flush()
			case <-r.Context().Done():
				return
			}
		}
	case strings.HasSuffix(r.URL.Path, "/message") && r.Method == http.MethodPost:
		sid := r.URL.Query().Get("sessionId")
		f.mu.Lock()
		ch := f.streams[sid]
		f.mu.Unlock()
		if ch == nil {
			http.Error(w, "no session", 404)
			return
		}
		body, _ := io.ReadAll(r.Body)
		if f.StallPosts.Load() {
			<-r.Context().Done()
			return
		}
		var m struct {
			ID     json.RawMessage `json:"id"`
			Method string          `json:"method"`
			Params json.RawMessage `json:"params"`
		}
		json.Unmarshal(body, &m)
		method, kind := classifyRPC(body)
		act := f.plan(method, kind)
		if act.Kind == "http" {
			http.Error(w, "scripted status", act.Status)
			return
		}
		w.WriteHeader(http.StatusAccepted)
		f.Accepted.Add(1)
		if kind == "request" && act.Kind == "fault" {
			body := "event: message\ndata: " + renderRaw(act.Raw, method, m.ID, m.Params) + "\n\n"
			cut := act.Cut
			if cut > len(body) {
				cut = len(body)
			}
			ch <- "FAULT:" + act.Then + ":" + body[:cut]
		} else if kind == "request" && act.Kind == "raw" {
			pfx := "RAW:"
			if act.Split {
				pfx = "RAWSPLIT:"
			}
			ch <- pfx + strings.ReplaceAll(renderRaw(act.Raw, method, m.ID, m.Params), "{{endpoint}}", "/message?sessionId="+sid)
		} else if kind == "request" && act.Kind != "silent" {
			if fr := RenderAnswer(act, method, m.ID, m.Params); fr != "" {
				ch <- fr
			}
		}
	default:
		http.Error(w, "not found", 404)
	}
}

func readAll(rc io.ReadCloser) ([]byte, error) {
	defer rc.Close()
	return io.ReadAll(rc)
}

// readAllAndRestore reads a request body and puts it back.
func readAllAndRestore(r *http.Request) ([]byte, error) {
	b, err := io.ReadAll(r.Body)
	r.Body.Close()
	r.Body = io.NopCloser(bytes.NewReader(b))
	return b, err
}

func (f *FakeServer) openStreams() int {
	f.mu.Lock()
	defer f.mu.Unlock()
	if f.Legacy {
		return len(f.streams)
	}
	return int(f.GetOpen.Load())
}

// lastIssued returns the session id the fake issued last ("" if none).
func (f *FakeServer) lastIssued() string {
	f.mu.Lock()
	defer f.mu.Unlock()
	if f.seq == 0 || f.Legacy {
		return ""
	}
	return f.sessionID(f.seq)
}

func (f *FakeServer) sessionID(n int) string {
	if f.SessionSuffix != "" {
		return fmt.Sprintf("fake-session-%04d-%s", n, f.SessionSuffix)
	}
	return fmt.Sprintf("fake-session-%04d-0123456789abcdef", n)
}

// statusWriter records the status code of a response.
type statusWriter struct {
	http.ResponseWriter
	status int
}

func (s *statusWriter) WriteHeader(c int) { s.status = c; s.ResponseWriter.WriteHeader(c) }
func (s *statusWriter) Write(p []byte) (int, error) {
	if s.status == 0 {
		s.status = 200
	}
	return s.ResponseWriter.Write(p)
}
func (s *statusWriter) Flush() {
	if s.status == 0 {
		s.status = 200
	}
	if f, ok := s.ResponseWriter.(http.Flusher); ok {
		f.Flush()
	}
}

// writeSplit writes an event stream in pieces: every frame's terminating blank line reaches the reader in a later
// read than the frame's last field line (what a network does to large frames).
func writeSplit(w http.ResponseWriter, raw string) {
	for {
		i := strings.Index(raw, "\n\n")
		if i < 0 {
			io.WriteString(w, raw)
			return
		}
		io.WriteString(w, raw[:i+1])
		w.(http.Flusher).Flush()
		time.Sleep(3 * time.Millisecond)
		raw = raw[i+1:]
	}
}

// renderRaw substitutes {{id}} and {{valid}} (the valid JSON-RPC answer frame) in a raw script.
func renderRaw(raw, method string, id, params json.RawMessage) string {
	valid := RenderAnswer(FakeAction{}, method, id, params)
	// the valid frame split after its first member: a multi-line rendering of the same JSON value
	cut := strings.Index(valid, ",") + 1
	raw = strings.ReplaceAll(raw, "{{valid-a}}", valid[:cut])
	raw = strings.ReplaceAll(raw, "{{valid-b}}", valid[cut:])
	return strings.ReplaceAll(strings.ReplaceAll(raw, "{{valid}}", valid), "{{id}}", string(id))
}

// finishFault ends a scripted response the way the fault says.
func finishFault(then string, r *http.Request) {
	switch then {
	case "reset":
		panic(abortWith{&net.OpError{Op: "read", Net: "tcp", Err: os.NewSyscallError("read", syscall.ECONNRESET)}})
	case "truncate":
		panic(abortWith{io.ErrUnexpectedEOF})
	case "stall":
		<-r.Context().Done()
	}
	// "close": just return (end of stream)
}
