package harness

import (
	"bytes"
	"context"
	"encoding/json"
	"fmt"
	"net/http"
	"net/http/httptest"
	"strings"
	"sync/atomic"
	"testing"
	"time"

	"pgregory.net/rapid"
	mcp "trpc.group/trpc-go/trpc-mcp-go"
)

// C06: servers survive arbitrary peer input.

type C06Op struct {
	Verb    string `json:"verb,omitempty"`    // HTTP verb (HTTP servers)
	Path    string `json:"path,omitempty"`    // "" = the right path
	Sess    string `json:"sess,omitempty"`    // live none never garbage dup
	Accept  string `json:"accept,omitempty"`  // "" default; "-" absent
	CT      string `json:"ct,omitempty"`      // "" default; "-" absent
	LastEv  string `json:"lastev,omitempty"`  // Last-Event-ID value
	Body    string `json:"body"`              // body kind
	N       int    `json:"n,omitempty"`       // size / index parameter
	Variant int    `json:"variant,omitempty"` // seed for deterministic garbage
	Vanish  bool   `json:"vanish,omitempty"`  // peer goes away while the handler runs (streams)
	Chunked bool   `json:"chunked,omitempty"` // the body is sent without a Content-Length (Transfer-Encoding: chunked)
	// Dup (stdio): the line is a tools/call of a tool that issues roots/list; the peer answers that request Dup times at
	// once (answers to a request are "responses to requests that were never sent" from the second one on)
	Dup int `json:"dup,omitempty"`
}

type C06Case struct {
	Kind    int     `json:"kind"` // 0 stateful, 1 stateless, 2 sessions disabled, 3 legacy SSE, 4 stdio
	PostSSE bool    `json:"postsse,omitempty"`
	Ops     []C06Op `json:"ops"`
	Filter  bool    `json:"filter,omitempty"` // the HTTP servers are built with a tool list filter that hides one of the two tools
}

var c06Cursors = []string{`"1"`, `"2"`, `"3"`, `"0"`, `"-1"`, `"abc"`, `""`, `1`, `2`, `null`, `"99999999999999999999"`, `{"a":1}`, `[2]`, `"MQ=="`, `"Mg=="`, `true`, `1.5`}

var c06Bodies = []string{"list-cursor", "blank-lines", "valid-ping", "valid-call", "valid-list", "valid-notif", "valid-init", "valid-initialized", "valid-initialized", "response-unsolicited", "lattice", "lattice", "lattice",
	"weird-id-error", "truncated", "garbage", "garbage", "invalid-utf8", "deep-array", "deep-object", "large", "nonobject", "empty", "trailing", "bom", "nul", "huge-number", "float-id", "long-method", "ws-only"}

var (
	c06LatticeOnce []ReqStep
)

func c06Lattice() []ReqStep {
	if c06LatticeOnce == nil {
		for _, m := range append(append([]string(nil), CommonMethods...), HTTPOnlyMethods...) {
			target := "alpha"
			if strings.HasPrefix(m, "resources/") {
				target = "file:///a.txt"
			}
			c06LatticeOnce = append(c06LatticeOnce, AllMutants(m, oInt(77), target, "nn")...)
		}
	}
	return c06LatticeOnce
}

func lcgBytes(n, seed int, noNL bool) []byte {
	b := make([]byte, n)
	x := uint32(seed)*2654435761 + 12345
	for i := range b {
		x = x*1664525 + 1013904223
		c := byte(x >> 24)
		if noNL && (c == '\n' || c == '\r') {
			c = ' '
		}
		b[i] = c
	}
	return b
}

const validCall = `{"jsonrpc":"2.0","id":5,"method":"tools/call","params":{"name":"alpha","arguments":{"nonce":"v"}}}`

// c06Body builds the bytes of a body kind; malformed=true when a conforming server cannot serve it.
func c06Body(op C06Op, stdio bool) (body []byte, malformed bool, expectID string) {
	switch op.Body {
	case "valid-ping":
		return []byte(`{"jsonrpc":"2.0","id":"p1","method":"ping"}`), false, `"p1"`
	case "valid-call":
		return []byte(validCall), false, "5"
	case "valid-list":
		return []byte(`{"jsonrpc":"2.0","id":6,"method":"tools/list"}`), false, "6"
	case "list-cursor":
		// a paging cursor the server never issued, of every JSON type
		m := []string{"tools/list", "tools/list", "prompts/list", "resources/list", "resources/templates/list"}[op.Variant%5]
		return []byte(`{"jsonrpc":"2.0","id":6,"method":"` + m + `","params":{"cursor":` + c06Cursors[op.N%len(c06Cursors)] + `}}`), false, ""
	case "blank-lines":
		return []byte{}, !stdio, ""
	case "valid-init":
		return InitRequest("\"i2\"", "2025-03-26"), false, `"i2"`
	case "valid-initialized":
		return []byte(`{"jsonrpc":"2.0","method":"notifications/initialized"}`), false, ""
	case "valid-notif":
		return []byte(`{"jsonrpc":"2.0","method":"notifications/verif-custom","params":{"a":1}}`), false, ""
	case "response-unsolicited":
		return []byte(fmt.Sprintf(`{"jsonrpc":"2.0","id":%d,"result":{"roots":[]}}`, op.N)), false, ""
	case "lattice":
		l := c06Lattice()
		st := l[op.N%len(l)]
		return []byte(st.Raw), false, ""
	case "weird-id-error":
		// two things wrong at once: an id that is neither a string nor a number, and something the server must refuse
		ids := []string{`[1]`, `{"a":1}`, `true`, `[]`, `{}`, `false`, `[[1,"x"]]`}
		reqs := []string{`"method":"zz/unknown"`, `"method":"tools/call","params":{"name":"no-such-tool","arguments":{}}`, `"method":"tools/call","params":{"name":7}`, `"method":"initialize","params":{"protocolVersion":5}`, `"method":"prompts/get","params":{}`, `"method":"resources/read","params":{"uri":"file:///nope"}`}
		return []byte(`{"jsonrpc":"2.0","id":` + ids[op.N%len(ids)] + `,` + reqs[op.Variant%len(reqs)] + `}`), true, ""
	case "truncated":
		k := 1 + op.N%(len(validCall)-1)
		return []byte(validCall[:k]), true, ""
	case "garbage":
		n := 1 + op.N%2048
		b := lcgBytes(n, op.Variant, stdio)
		if json.Valid(b) || len(bytes.TrimSpace(b)) == 0 {
			return b, false, ""
		}
		return b, true, ""
	case "invalid-utf8":
		return []byte("{\"jsonrpc\":\"2.0\",\"id\":5,\"method\":\"tools/call\",\"params\":{\"name\":\"alpha\",\"arguments\":{\"nonce\":\"\xff\xfe\xc0\"}}}"), false, ""
	case "deep-array":
		n := 10 + op.N%20000
		return []byte(`{"jsonrpc":"2.0","id":5,"method":"tools/call","params":{"name":"alpha","arguments":{"nonce":` + strings.Repeat("[", n) + strings.Repeat("]", n) + `}}}`), false, ""
	case "deep-object":
		n := 10 + op.N%20000
		return []byte(`{"jsonrpc":"2.0","id":5,"method":"tools/call","params":{"name":"alpha","arguments":` + strings.Repeat(`{"a":`, n) + "1" + strings.Repeat("}", n) + `}}`), false, ""
	case "large":
		n := 1024 * (1 + op.N%4096)
		return []byte(`{"jsonrpc":"2.0","id":5,"method":"tools/call","params":{"name":"alpha","arguments":{"nonce":"` + strings.Repeat("x", n) + `"}}}`), false, "5"
	case "nonobject":
		v := []string{`[]`, `[{"jsonrpc":"2.0","id":1,"method":"ping"}]`, `1`, `"x"`, `null`, `true`, `[1,2`, `{`}
		return []byte(v[op.N%len(v)]), true, ""
	case "empty":
		return []byte{}, !stdio, ""
	case "trailing":
		return []byte(validCall + " }}garbage"), false, ""
	case "bom":
		return append([]byte{0xEF, 0xBB, 0xBF}, validCall...), false, ""
	case "nul":
		return bytes.Repeat([]byte{0}, 1+op.N%64), true, ""
	case "huge-number":
		return []byte(`{"jsonrpc":"2.0","id":1e400,"method":"ping"}`), false, ""
	case "float-id":
		return []byte(`{"jsonrpc":"2.0","id":1.5,"method":"ping"}`), false, ""
	case "long-method":
		return []byte(`{"jsonrpc":"2.0","id":5,"method":"` + strings.Repeat("m", 1000*(1+op.N%200)) + `"}`), false, "5"
	case "ws-only":
		return []byte("  \t "), !stdio, ""
	}
	return []byte(validCall), false, "5"
}

func genC06(t *rapid.T) C06Case {
	c := C06Case{Kind: rapid.SampledFrom([]int{0, 0, 1, 2, 3, 3, 4, 4}).Draw(t, "kind"), PostSSE: rapid.Bool().Draw(t, "postsse"), Filter: rapid.Bool().Draw(t, "filter")}
	n := rapid.IntRange(1, 8).Draw(t, "nops")
	for i := 0; i < n; i++ {
		op := C06Op{Body: rapid.SampledFrom(c06Bodies).Draw(t, "body"), N: rapid.IntRange(0, 1<<20).Draw(t, "n"), Variant: rapid.IntRange(0, 1<<16).Draw(t, "variant")}
		if c.Kind <= 3 {
			op.Verb = rapid.SampledFrom([]string{"POST", "POST", "POST", "POST", "GET", "DELETE", "PUT", "PATCH", "HEAD", "OPTIONS"}).Draw(t, "verb")
			op.Path = rapid.SampledFrom([]string{"", "", "", "", "/", "/mcp/", "/mcp/x", "//mcp", "/sse", "/message", "/MCP"}).Draw(t, "path")
			op.Sess = rapid.SampledFrom([]string{"live", "live", "live", "none", "never", "garbage", "dup"}).Draw(t, "sess")
			op.Accept = rapid.SampledFrom([]string{"", "", "-", "*/*", "text/event-stream", "garbage/;;q=x", "application/json;q=0"}).Draw(t, "accept")
			op.CT = rapid.SampledFrom([]string{"", "", "-", "text/plain", "application/x-www-form-urlencoded", "\x7f"}).Draw(t, "ct")
			op.LastEv = rapid.SampledFrom([]string{"", "", "evt-1-1", "garbage\x01", strings.Repeat("9", 300), "evt-17", "evt-", "evt-1759000000000", "evt--", "evt-1-x", "evt-x-1", "-", "evt-99999999999999999999-1"}).Draw(t, "lastev")
			op.Vanish = rapid.Bool().Draw(t, "vanish")
			op.Chunked = rapid.IntRange(0, 3).Draw(t, "chunked") == 0
		}
		if c.Kind == 4 && rapid.IntRange(0, 5).Draw(t, "dup") == 0 {
			op.Body, op.Dup = "dup-answers", rapid.IntRange(2, 12).Draw(t, "ndup")
		}
		if op.Body == "large" && Excluded("C06/large") {
			op.Body = "valid-call"
		}
		c.Ops = append(c.Ops, op)
	}
	return c
}

func ntC06(c C06Case) (bool, []string) {
	nt := false
	labels := []string{fmt.Sprintf("kind=%d", c.Kind)}
	for _, op := range c.Ops {
		labels = append(labels, "body="+op.Body)
		if !strings.HasPrefix(op.Body, "valid-") || (op.Verb != "" && op.Verb != "POST") || op.Path != "" || (op.Sess != "live" && op.Sess != "") {
			nt = true
		}
	}
	return nt, labels
}

var c06Reg = RegSpec{
	Tools:     []ToolSpec{{Name: "alpha", Desc: "d"}, {Name: "beta", Outcome: OutGoErr, ErrMsg: "boom"}},
	Prompts:   []PromptSpec{{Name: "alpha", Args: []string{"nonce"}}},
	Resources: []ResSpec{{URI: "file:///a.txt", Name: "r0"}},
}

func isErrorAnswer(ex Exchange) bool {
	if ex.Status >= 400 {
		return true
	}
	for _, fr := range ex.Frames {
		var m map[string]json.RawMessage
		if json.Unmarshal(fr, &m) == nil {
			if _, ok := m["error"]; ok {
				return true
			}
		}
	}
	return false
}

func execC06(c C06Case) *Failure {
	before := LibGoroutines()
	var f *Failure
	switch c.Kind {
	case 4:
		f = execC06Stdio(c)
	default:
		f = execC06HTTP(c)
	}
	if f != nil {
		return f
	}
	if d := WaitNoLeak(before, 2*time.Second); len(d) > 0 {
		return TimingFailf("C06/goroutine-leak/"+strings.SplitN(d[0], " (", 2)[0], "kind=%d: library goroutines left behind after every peer connection was closed: %v", c.Kind, d)
	}
	return nil
}

func c06OpNames(c C06Case) string {
	var n []string
	for _, op := range c.Ops {
		n = append(n, op.Body)
	}
	return strings.Join(n, ",")
}

func execC06Stdio(c C06Case) *Failure {
	w := NewWorld(ModeStdio, c06Reg, WorldOpt{})
	defer w.Close()
	type lister interface {
		ListRoots(ctx context.Context) (*mcp.ListRootsResult, error)
	}
	w.Stdio.RegisterTool(mcp.NewTool("askroots"), func(ctx context.Context, req *mcp.CallToolRequest) (*mcp.CallToolResult, error) {
		rctx, cancel := context.WithTimeout(ctx, 2*time.Second)
		defer cancel()
		l, ok := mcp.GetServerFromContext(ctx).(lister)
		if !ok {
			return mcp.NewTextResult("no server"), nil
		}
		_, err := l.ListRoots(rctx)
		return mcp.NewTextResult(fmt.Sprint("roots: ", err)), nil
	})
	conn, err := w.Connect()
	if err != nil {
		return Failf("C06/connect", "stdio: %v", err)
	}
	defer func() {
		conn.Close()
		select {
		case <-conn.done:
		case <-time.After(2 * time.Second):
		}
	}()
	for i, op := range c.Ops {
		if op.Body == "dup-answers" {
			// the server asks this peer for its roots; the peer answers op.Dup times in one write
			before := conn.lines
			conn.in.Write([]byte(fmt.Sprintf(`{"jsonrpc":"2.0","id":"dup%d","method":"tools/call","params":{"name":"askroots","arguments":{}}}`+"\n", i)))
			id := ""
			deadline := time.Now().Add(Patience())
			for id == "" && time.Now().Before(deadline) {
				all, _ := SplitStdioLines(conn.out.Bytes())
				for _, l := range all[before:] {
					var m map[string]json.RawMessage
					if json.Unmarshal(l, &m) == nil && string(m["method"]) == `"roots/list"` {
						id = string(m["id"])
					}
				}
				time.Sleep(200 * time.Microsecond)
			}
			if id == "" {
				return TimingFailf("C06/stdio-server-request-missing", "stdio op %d: the tool's roots/list request did not appear", i)
			}
			ans := fmt.Sprintf(`{"jsonrpc":"2.0","id":%s,"result":{"roots":[{"uri":"file:///%s","name":"r"}]}}`+"\n", id, strings.Repeat("p", op.N%3000))
			conn.in.Write([]byte(strings.Repeat(ans, op.Dup)))
			conn.out.WaitQuiet(3*time.Millisecond, 80*time.Millisecond)
			all, _ := SplitStdioLines(conn.out.Bytes())
			conn.lines = len(all)
			continue
		}
		if op.Body == "blank-lines" {
			// empty, blank and bare-CR lines carry no message: they are skipped, however many there are
			k := 1 + op.N%300
			forms := []string{"\n", "\r\n", "  \t\n", "\n"}
			var sb strings.Builder
			for j := 0; j < k; j++ {
				sb.WriteString(forms[(j+op.Variant)%len(forms)])
			}
			conn.in.Write([]byte(sb.String()))
			continue
		}
		body, malformed, wantID := c06Body(op, true)
		body = bytes.ReplaceAll(body, []byte("\n"), []byte(" "))
		expect := ""
		if malformed {
			expect = "null"
		}
		ex := conn.sendStdioAny(body, malformed || wantID != "", Bound())
		if served := op.Body == "valid-ping" || op.Body == "valid-call" || op.Body == "valid-list" || op.Body == "large"; served && !malformed && wantID != "" {
			// a well-formed request among the abuse (however long its line) is served normally
			ok := false
			for _, fr := range ex.Frames {
				if id, has := rawIDOf(fr); has && id == wantID && isResponseFrame(fr) && !bytes.Contains(fr, []byte(`"error"`)) {
					ok = true
				}
			}
			if !ok {
				f := TimingFailf("C06/stdio-well-formed-not-served/"+op.Body, "stdio op %d: the well-formed request %s (%d bytes) was not answered with its result (frames %.300q)", i, op.Body, len(body), ex.Frames)
				if len(ex.Frames) > 0 {
					f.Timing = false
				}
				return f
			}
		}
		for _, fr := range ex.Frames {
			if _, fail := decodeFrame(fr, true); fail != nil {
				fail.Key = "C06/" + strings.TrimPrefix(fail.Key, "C03/")
				fail.Msg = fmt.Sprintf("stdio op %d (%s): %s", i, op.Body, fail.Msg)
				return fail
			}
		}
		if malformed && !isErrorAnswer(ex) {
			return TimingFailf("C06/stdio-malformed-not-answered/"+op.Body, "stdio op %d: malformed line %.80q (%s) was not answered with a JSON-RPC error (frames %d)", i, body, op.Body, len(ex.Frames))
		}
		_ = expect
	}
	if conn.in.Stuck() {
		return TimingFailf("C06/stdio-stops-reading", "stdio: after ops %s the server stopped reading its input (a write of one line waited %v in vain)", c06OpNames(c), Patience()+5*time.Second)
	}
	// the next well-formed request is served normally
	ex := conn.Send([]byte(`{"jsonrpc":"2.0","id":"after","method":"ping"}`), `"after"`, Patience())
	if conn.in.Stuck() {
		return TimingFailf("C06/stdio-stops-reading", "stdio: after ops %s the server stopped reading its input (a write of one line waited %v in vain)", c06OpNames(c), Patience()+5*time.Second)
	}
	ok := false
	for _, fr := range ex.Frames {
		if id, has := rawIDOf(fr); has && id == `"after"` && isResponseFrame(fr) && !bytes.Contains(fr, []byte(`"error"`)) {
			ok = true
		}
	}
	if !ok {
		return TimingFailf("C06/stdio-stops-serving", "stdio: ping after the abusive lines was not answered (frames %q)", ex.Frames)
	}
	select {
	case err := <-conn.done:
		conn.done <- err
		return Failf("C06/stdio-loop-ended", "stdio: the server loop ended while stdin was still open: %v", err)
	default:
	}
	return nil
}

// sendStdioAny writes one raw line and collects whatever the server writes until it is quiet.
func (c *Conn) sendStdioAny(line []byte, waitForError bool, bound time.Duration) Exchange {
	before := c.lines
	if _, err := c.in.Write(append(append([]byte(nil), line...), '\n')); err != nil {
		return Exchange{Err: err}
	}
	if waitForError {
		c.out.WaitLines(before+1, bound)
	}
	c.out.WaitQuiet(3*time.Millisecond, 60*time.Millisecond)
	all, _ := SplitStdioLines(c.out.Bytes())
	ex := Exchange{Kind: "stdio"}
	for _, l := range all[before:] {
		ex.Frames = append(ex.Frames, l)
	}
	c.lines = len(all)
	return ex
}

func c06HideBeta(ctx context.Context, tools []*mcp.Tool) []*mcp.Tool {
	var out []*mcp.Tool
	for _, t := range tools {
		if t.Name != "beta" {
			out = append(out, t)
		}
	}
	return out
}

func execC06HTTP(c C06Case) *Failure {
	legacy := c.Kind == 3
	var h http.Handler
	var srv *mcp.Server
	var sse *mcp.SSEServer
	basePath := "/mcp"
	w := &World{Calls: map[string]int{}}
	if legacy {
		sopts := []mcp.SSEOption{mcp.WithSSEServerLogger(nopLogger{}), mcp.WithKeepAlive(false)}
		if c.Filter {
			sopts = append(sopts, mcp.WithSSEToolListFilter(c06HideBeta))
		}
		sse = mcp.NewSSEServer("c06", "1", sopts...)
		w.Register(RegistrarOf(sse), c06Reg)
		h = sse
	} else {
		opts := []mcp.ServerOption{mcp.WithServerLogger(nopLogger{}), mcp.WithServerPath("/mcp"), mcp.WithPostSSEEnabled(c.PostSSE)}
		if c.Kind == 1 {
			opts = append(opts, mcp.WithStatelessMode(true))
		} else if c.Kind == 2 {
			opts = append(opts, mcp.WithoutSession())
		}
		if c.Filter {
			opts = append(opts, mcp.WithToolListFilter(c06HideBeta))
		}
		srv = mcp.NewServer("c06", "1", opts...)
		w.Register(RegistrarOf(srv), c06Reg)
		h = srv.Handler()
	}
	var lives []*LiveResp
	defer func() {
		for _, l := range lives {
			l.PeerGone()
		}
		for _, l := range lives {
			l.WaitReturned(2 * time.Second)
		}
	}()
	hung := false
	var record func(method, url string, hdr http.Header, body []byte) (Exchange, interface{})
	record = func(method, url string, hdr http.Header, body []byte) (Exchange, interface{}) {
		req := httptest.NewRequest(method, "http://verif"+url, bytes.NewReader(body))
		for k, v := range hdr {
			req.Header[k] = v
		}
		if hdr.Get("X-Verif-Chunked") != "" {
			// what net/http hands a handler for a request sent with Transfer-Encoding: chunked
			req.Header.Del("X-Verif-Chunked")
			req.ContentLength = -1
			req.TransferEncoding = []string{"chunked"}
		}
		rec := httptest.NewRecorder()
		done := make(chan interface{}, 1)
		go func() {
			defer func() { done <- recover() }()
			h.ServeHTTP(rec, req)
		}()
		select {
		case pan := <-done:
			return exchangeFromHTTP(rec.Code, rec.Result().Header, rec.Body.Bytes()), pan
		case <-time.After(Patience()):
			hung = true
			return Exchange{Status: 599}, nil
		}
	}
	// a live session through the reference handshake
	sessionID, endpoint := "", ""
	var stream *LiveResp
	if legacy {
		stream = StartLive(h, "GET", "http://verif/sse", map[string]string{"Accept": "text/event-stream"}, nil, nil)
		lives = append(lives, stream)
		evs := stream.WaitEvents(1, 2*time.Second)
		if len(evs) < 1 || evs[0].Event != "endpoint" {
			return Failf("C06/connect", "legacy: no endpoint event")
		}
		endpoint = evs[0].Data
		basePath = endpoint
	} else if c.Kind == 0 {
		ex, pan := record("POST", "/mcp", http.Header{"Content-Type": {"application/json"}, "Accept": {"application/json"}}, InitRequest("0", "2025-03-26"))
		if pan != nil || ex.Status != 200 {
			return Failf("C06/connect", "initialize: status %d panic %v", ex.Status, pan)
		}
		sessionID = ex.Header.Get("Mcp-Session-Id")
	}
	ping := func(sid string, id string) *Failure {
		hdr := http.Header{"Content-Type": {"application/json"}, "Accept": {"application/json"}}
		if sid != "" {
			hdr.Set("Mcp-Session-Id", sid)
		}
		body := []byte(fmt.Sprintf(`{"jsonrpc":"2.0","id":%q,"method":"ping"}`, id))
		if legacy {
			n := len(stream.Events())
			ex, pan := record("POST", endpoint, hdr, body)
			if pan != nil || ex.Status >= 300 {
				return Failf("C06/stops-serving", "legacy: ping after abuse: status %d panic %v", ex.Status, pan)
			}
			deadline := time.Now().Add(Patience())
			for {
				for _, e := range stream.Events()[n:] {
					if rid, ok := rawIDOf([]byte(e.Data)); ok && rid == fmt.Sprintf("%q", id) && strings.Contains(e.Data, `"result"`) {
						return nil
					}
				}
				if time.Now().After(deadline) {
					return TimingFailf("C06/stops-serving", "legacy: ping after abuse was accepted but never answered on the stream")
				}
				stream.WaitEvents(len(stream.Events())+1, 20*time.Millisecond)
			}
		}
		ex, pan := record("POST", "/mcp", hdr, body)
		if pan != nil {
			return Failf("C06/panic/follow-up", "ping after abuse panicked: %v", pan)
		}
		if hung {
			return TimingFailf("C06/stops-serving/hang", "kind=%d: ping after the abuse did not return within %v", c.Kind, Patience())
		}
		if ex.Status != 200 || len(ex.Frames) != 1 || !bytes.Contains(ex.Frames[0], []byte(`"result"`)) {
			return Failf("C06/stops-serving", "kind=%d: ping after abuse: status %d body %.200q", c.Kind, ex.Status, ex.Body)
		}
		return nil
	}
	for i, op := range c.Ops {
		body, malformed, _ := c06Body(op, false)
		hdr := http.Header{}
		switch op.Accept {
		case "":
			if c.PostSSE {
				hdr.Set("Accept", "application/json, text/event-stream")
			} else {
				hdr.Set("Accept", "application/json")
			}
		case "-":
		default:
			hdr.Set("Accept", op.Accept)
		}
		switch op.CT {
		case "":
			hdr.Set("Content-Type", "application/json")
		case "-":
		default:
			hdr.Set("Content-Type", op.CT)
		}
		if op.LastEv != "" {
			hdr.Set("Last-Event-ID", op.LastEv)
		}
		if op.Chunked {
			hdr.Set("X-Verif-Chunked", "1")
		}
		url := basePath
		if op.Path != "" {
			url = op.Path
		}
		rightPath := op.Path == ""
		sess := op.Sess
		if legacy {
			// the legacy server carries the session in the query string
			switch sess {
			case "none":
				if rightPath {
					url = "/message"
				}
			case "never":
				if rightPath {
					url = "/message?sessionId=sse-00000000-0000-0000-0000-000000000000"
				}
			case "garbage":
				if rightPath {
					url = "/message?sessionId=%00%ff&sessionId=x&x=" + strings.Repeat("y", 2000)
				}
			case "dup":
				if rightPath {
					url = endpoint + "&sessionId=other"
				}
			}
		} else {
			switch sess {
			case "live":
				if sessionID != "" {
					hdr.Set("Mcp-Session-Id", sessionID)
				}
			case "never":
				hdr.Set("Mcp-Session-Id", "0123456789abcdef0123456789abcdef")
			case "garbage":
				hdr.Set("Mcp-Session-Id", "../\x01garbage")
			case "dup":
				hdr["Mcp-Session-Id"] = []string{sessionID, "other"}
			}
		}
		verb := op.Verb
		where := fmt.Sprintf("kind=%d op %d %s %.60s sess=%s body=%s", c.Kind, i, verb, url, sess, op.Body)
		streaming := verb == "GET" && (legacy && strings.HasPrefix(url, "/sse") || !legacy && rightPath)
		if streaming {
			hm := map[string]string{}
			for k, v := range hdr {
				hm[k] = v[0]
			}
			lr := StartLive(h, verb, "http://verif"+url, hm, body, nil)
			lives = append(lives, lr)
			lr.WaitHeader(Bound() * 4)
			if op.Vanish {
				lr.PeerGone()
				if !lr.WaitReturned(2 * time.Second) {
					return TimingFailf("C06/stream-handler-stuck", "%s: handler still running 2s after the peer vanished", where)
				}
			}
			if _, _, _, _, pan, _ := lr.Snapshot(); pan != nil {
				return Failf("C06/panic/get", "%s: handler panicked: %v", where, pan)
			}
			continue
		}
		ex, pan := record(verb, url, hdr, body)
		if pan != nil {
			return Failf("C06/panic/"+strings.ToLower(verb), "%s: handler panicked: %v", where, pan)
		}
		if hung {
			return TimingFailf("C06/handler-hangs", "%s: the handler did not return within %v", where, Patience())
		}
		for _, fr := range ex.Frames {
			if _, fail := decodeFrame(fr, true); fail != nil {
				fail.Key = "C06/" + strings.TrimPrefix(fail.Key, "C03/")
				fail.Msg = where + ": " + fail.Msg
				return fail
			}
		}
		if !rightPath && !(legacy && (strings.HasPrefix(url, "/sse") || strings.HasPrefix(url, "/message"))) && ex.Status < 400 {
			return Failf("C06/wrong-path-served", "%s: status %d", where, ex.Status)
		}
		if rightPath && verb != "POST" && verb != "DELETE" && verb != "GET" && ex.Status < 400 {
			return Failf("C06/wrong-verb-served", "%s: status %d", where, ex.Status)
		}
		if legacy && op.Body == "weird-id-error" {
			malformed = false // the legacy server answers requests on the session's stream; survival is judged below
		}
		if rightPath && verb == "POST" && malformed && !isErrorAnswer(ex) {
			return Failf("C06/malformed-not-refused/"+op.Body, "%s: malformed body %.80q answered with status %d body %.120q", where, body, ex.Status, ex.Body)
		}
		if verb == "DELETE" && rightPath && (sess == "live" || sess == "dup") && ex.Status < 300 {
			sessionID = "" // the session is gone; later live ops use a fresh one
			if c.Kind == 0 {
				ex2, _ := record("POST", "/mcp", http.Header{"Content-Type": {"application/json"}, "Accept": {"application/json"}}, InitRequest("0", "2025-03-26"))
				sessionID = ex2.Header.Get("Mcp-Session-Id")
			}
		}
	}
	// let asynchronous legacy handlers finish before judging survival
	if f := ping(sessionID, "after-same"); f != nil {
		return f
	}
	if !legacy && c.Kind == 0 {
		ex, pan := record("POST", "/mcp", http.Header{"Content-Type": {"application/json"}, "Accept": {"application/json"}}, InitRequest("9", "2025-03-26"))
		if hung {
			return TimingFailf("C06/stops-serving/hang", "a new client's initialize after the abuse did not return within %v", Patience())
		}
		if pan != nil || ex.Status != 200 || ex.Header.Get("Mcp-Session-Id") == "" {
			return Failf("C06/stops-serving", "a new client cannot initialize after the abuse: status %d panic %v", ex.Status, pan)
		}
		if f := ping(ex.Header.Get("Mcp-Session-Id"), "after-fresh"); f != nil {
			return f
		}
	}
	return nil
}

func TestC06(t *testing.T) {
	RunProp(t, Prop[C06Case]{ID: "C06", Gen: genC06, Exec: execC06, NT: ntC06})
}

// TestC06Lattice walks the complete field x JSON-type lattice on every server kind, judged for survival.
func TestC06Lattice(t *testing.T) {
	var cases []C06Case
	for kind := 0; kind <= 4; kind++ {
		for i := range c06Lattice() {
			cases = append(cases, C06Case{Kind: kind, Ops: []C06Op{{Verb: "POST", Sess: "live", Body: "lattice", N: i}}})
		}
	}
	exec := func(c C06Case) *Failure {
		if c.Kind == 4 {
			return execC06Stdio(c)
		}
		return execC06HTTP(c)
	}
	RunEnum(t, "C06", cases, exec, ntC06)
}

// ---------------------------------------------------------------------------
// a peer that stops reading its stream, floods the server with requests and then leaves

type C06Flood struct {
	N    int    `json:"n"`    // requests posted while the stream is stalled
	Body string `json:"body"` // unknown-tool unknown-method bad-params valid-call valid-ping mixed
	Pad  int    `json:"pad"`  // bytes of padding in each request (echoed in error texts)
}

func (c C06Flood) body(i int) string {
	pad := strings.Repeat("x", c.Pad)
	kind := c.Body
	if kind == "mixed" {
		kind = []string{"unknown-tool", "valid-call", "unknown-method", "bad-params", "valid-ping"}[i%5]
	}
	switch kind {
	case "unknown-tool":
		return fmt.Sprintf(`{"jsonrpc":"2.0","id":"f%d","method":"tools/call","params":{"name":"nope-%s","arguments":{}}}`, i, pad)
	case "unknown-method":
		return fmt.Sprintf(`{"jsonrpc":"2.0","id":"f%d","method":"verif/%s"}`, i, pad)
	case "bad-params":
		return fmt.Sprintf(`{"jsonrpc":"2.0","id":"f%d","method":"tools/call","params":"%s"}`, i, pad)
	case "valid-call":
		return fmt.Sprintf(`{"jsonrpc":"2.0","id":"f%d","method":"tools/call","params":{"name":"alpha","arguments":{"nonce":"%s"}}}`, i, pad)
	}
	return fmt.Sprintf(`{"jsonrpc":"2.0","id":"f%d","method":"ping"}`, i)
}

func execC06Flood(c C06Flood) *Failure {
	before := LibGoroutines()
	sse := mcp.NewSSEServer("c06", "1", mcp.WithSSEServerLogger(nopLogger{}), mcp.WithKeepAlive(false))
	w := &World{Calls: map[string]int{}}
	w.Register(RegistrarOf(sse), c06Reg)
	var stalled atomic.Bool
	gate := make(chan struct{})
	hook := func(kind string, n int) {
		if stalled.Load() {
			<-gate
		}
	}
	stream := StartLive(sse, "GET", "http://verif/sse", map[string]string{"Accept": "text/event-stream"}, nil, hook)
	released := false
	release := func() {
		if !released {
			released = true
			stream.PeerGone()
			close(gate)
		}
	}
	defer release()
	evs := stream.WaitEvents(1, 2*time.Second)
	if len(evs) < 1 || evs[0].Event != "endpoint" {
		return Failf("C06/connect", "legacy: no endpoint event")
	}
	endpoint := evs[0].Data
	post := func(body string) int {
		rec := httptest.NewRecorder()
		sse.ServeHTTP(rec, httptest.NewRequest("POST", "http://verif"+endpoint, strings.NewReader(body)))
		return rec.Code
	}
	post(string(InitRequest("0", "2025-03-26")))
	stream.WaitEvents(2, 2*time.Second)
	post(`{"jsonrpc":"2.0","method":"notifications/initialized"}`)
	// the peer stops reading; everything the server writes from now on blocks
	stalled.Store(true)
	for i := 0; i < c.N; i++ {
		if code := post(c.body(i)); code >= 500 {
			return Failf("C06/flood-5xx", "legacy: request %d of the flood (%s) answered with HTTP %d", i, c.Body, code)
		}
	}
	time.Sleep(5 * time.Millisecond)
	// another client is still served while the first one is stuck
	other := StartLive(sse, "GET", "http://verif/sse", map[string]string{"Accept": "text/event-stream"}, nil, nil)
	oevs := other.WaitEvents(1, Patience())
	if len(oevs) < 1 {
		other.PeerGone()
		return TimingFailf("C06/stops-serving-others", "legacy: while one peer is not reading its stream (%d %s requests queued) a new client got no endpoint event", c.N, c.Body)
	}
	orec := httptest.NewRecorder()
	sse.ServeHTTP(orec, httptest.NewRequest("POST", "http://verif"+oevs[0].Data, bytes.NewReader(InitRequest("7", "2025-03-26"))))
	if got := other.WaitEvents(2, Patience()); len(got) < 2 {
		other.PeerGone()
		return TimingFailf("C06/stops-serving-others", "legacy: while one peer is not reading its stream (%d %s requests queued) a new client's initialize was not answered (POST status %d %.100q)", c.N, c.Body, orec.Code, orec.Body.String())
	}
	other.PeerGone()
	other.WaitReturned(Patience())
	// the stuck peer leaves
	release()
	if !stream.WaitReturned(Patience()) {
		return TimingFailf("C06/stream-handler-stuck", "legacy: the stream handler did not return after the flooding peer left")
	}
	// its session ended with its stream: a message posted to that endpoint now cannot be served and is refused, whatever of the
	// flood is still being worked off
	if code := post(`{"jsonrpc":"2.0","id":"late","method":"ping"}`); code < 400 {
		return Failf("C06/ended-session-served", "legacy: after the peer that queued %d %s requests had left and its stream handler had returned, a ping posted to its endpoint was acknowledged with HTTP %d", c.N, c.Body, code)
	}
	if d := WaitNoLeak(before, Patience()); len(d) > 0 {
		return TimingFailf("C06/goroutine-leak/"+strings.SplitN(d[0], " (", 2)[0], "legacy: after a peer that queued %d %s requests without reading left, library goroutines remain: %v", c.N, c.Body, d)
	}
	return nil
}

func TestC06Flood(t *testing.T) {
	RunProp(t, Prop[C06Flood]{ID: "C06",
		Gen: func(t *rapid.T) C06Flood {
			return C06Flood{N: rapid.SampledFrom([]int{1, 20, 99, 100, 101, 140, 300}).Draw(t, "n"),
				Body: rapid.SampledFrom([]string{"unknown-tool", "unknown-method", "bad-params", "valid-call", "valid-ping", "mixed"}).Draw(t, "body"),
				Pad:  rapid.SampledFrom([]int{0, 100, 5000}).Draw(t, "pad")}
		},
		Exec: execC06Flood,
		NT:   func(c C06Flood) (bool, []string) { return c.N > 100, []string{"body=" + c.Body} }})
}
