// Package harness holds the property-based checks for trpc-mcp-go.
package harness

import _ "pgregory.net/rapid"
import _ "trpc.group/trpc-go/trpc-mcp-go"
