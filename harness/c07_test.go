package harness

import (
	"context"
	"fmt"
	"os"
	"path/filepath"
	"strings"
	"sync"
	"sync/atomic"
	"testing"
	"time"

	"pgregory.net/rapid"
	mcp "trpc.group/trpc-go/trpc-mcp-go"
)

// C07: clients survive arbitrary server output.

type C07Elem struct {
	Kind string `json:"kind"`
	N    int    `json:"n,omitempty"`
}

type C07Case struct {
	Client string    `json:"client"`          // streamable-json streamable-sse streamable-get legacy stdio
	Script []C07Elem `json:"script"`          // what the server emits in reaction to the affected call ("valid" = the valid answer)
	Extra  int       `json:"extra"`           // other calls pending at the same time (answered normally)
	Pad    int       `json:"pad,omitempty"`   // bytes of padding in the affected call's arguments (the valid answer echoes them)
	Split  bool      `json:"split,omitempty"` // event streams: each frame's terminating blank line arrives in a later read than the frame
	// GetEnds (streamable-get): after the script the server ends the listening stream cleanly, and every stream the client
	// opens afterwards ends at once as well (a server or proxy that does not keep such streams open)
	GetEnds bool `json:"getends,omitempty"`
	// FillMB (legacy, streamable-get): the client uses the library's own HTTP handler over loopback TCP, and before the
	// script the event stream has already carried this many MiB of comments and unknown events (a long-lived stream)
	FillMB int `json:"fillmb,omitempty"`
}

var c07Junk = []string{"odd-result", "odd-result", "comment", "blank", "nonjson", "notification", "unknown-request", "unknown-id", "id-bool", "id-object", "id-string", "no-result", "both", "giant", "garbage", "bom", "cr-valid",
	"unknown-event", "endpoint-again", "multiline-valid", "empty-data", "huge-id", "truncated", "null", "array", "ctl-id", "giant", "valid-again", "valid-again", "valid-again"}

// answers to the call whose result is JSON of the wrong shape somewhere inside: an error or any value may come back, never a crash
var c07OddResults = []string{
	`{"content":[{"type":"text","text":"t","annotations":{"audience":[1,null,{}],"priority":"high"}}]}`,
	`{"content":[{"type":"text","text":5}]}`,
	`{"content":[{"type":"image","data":7,"mimeType":[]}]}`,
	`{"content":[{"type":"resource","resource":{"uri":3,"text":{}}}]}`,
	`{"content":[null,7,"x",[]]}`,
	`{"content":{"type":"text"}}`,
	`{"content":[{"type":"text","text":"t","annotations":[]}]}`,
	`{"content":[{"type":"text","text":"t","annotations":{"audience":"user","priority":[]}}]}`,
	`{"content":[{"type":"audio","data":null,"annotations":{"audience":[true]}}]}`,
	`{"content":[{"type":"resource_link","uri":1}]}`,
	`{"content":[],"isError":"yes","structuredContent":[1]}`,
	`{"content":[{"type":"text","text":"t","_meta":7}],"_meta":"x"}`,
	`{"content":[{"type":["text"]}]}`,
	`{"content":[{"type":"resource","resource":[]}]}`,
	`{"content":[{"type":"resource","resource":{"uri":"u","blob":5,"annotations":{"audience":[{}]}}}]}`,
	`{"content":[{"type":"image","data":"AA==","mimeType":"image/png","annotations":{"audience":[7],"priority":2}}]}`,
	`[]`, `"text"`, `7`, `{"content":"text"}`, `{"content":[{"text":"no type"}]}`,
}

var c07Harmless = map[string]bool{"comment": true, "blank": true, "notification": true, "unknown-event": true, "unknown-id": true, "unknown-request": true, "id-bool": true, "id-object": true, "id-string": true}

// c07HarmlessBeforeValid: the script holds the valid answer and, besides it, only skippable elements (junk of other kinds
// may make the affected call fail wherever it stands, also behind the answer).
func c07HarmlessBeforeValid(script []C07Elem) bool {
	valid := false
	for _, e := range script {
		if e.Kind == "valid" {
			valid = true
		} else if !c07Harmless[e.Kind] {
			return false
		}
	}
	return valid
}

// c07Observe, when set (probing only), sees what the affected call returned.
var c07Observe func(c C07Case, text string, err error)

func genC07(t *rapid.T) C07Case {
	c := C07Case{Client: rapid.SampledFrom([]string{"streamable-json", "streamable-sse", "streamable-get", "legacy", "legacy", "stdio", "stdio"}).Draw(t, "client")}
	n := rapid.IntRange(1, 6).Draw(t, "nelems")
	hasValid := false
	// one script in four is made of skippable elements only (around them the answer must still arrive)
	pool := append([]string{"valid", "valid"}, c07Junk...)
	if rapid.IntRange(0, 3).Draw(t, "harmless") == 0 {
		pool = []string{"valid", "valid", "comment", "blank", "notification", "unknown-event", "unknown-event", "unknown-id", "unknown-request", "id-bool", "id-object", "id-string"}
	}
	for i := 0; i < n; i++ {
		k := rapid.SampledFrom(pool).Draw(t, "elem")
		if k == "valid" {
			if hasValid {
				k = "comment"
			}
			hasValid = true
		}
		switch {
		case k == "endpoint-again" && Excluded("C07/legacy/second-endpoint-event"):
			CountExcluded("C07/legacy/second-endpoint-event")
			k = "comment"
		case k == "giant" && c.Client == "streamable-get" && Excluded("C07/get-stream/giant-frame"):
			CountExcluded("C07/get-stream/giant-frame")
			k = "comment"
		case c.Client == "stdio" && Excluded("C07/stdio/non-json-line") && (k == "nonjson" || k == "garbage" || k == "truncated" || k == "comment" || k == "bom" || k == "unknown-event" || k == "endpoint-again" || k == "multiline-valid" || k == "empty-data" || k == "cr-valid"):
			CountExcluded("C07/stdio/non-json-line")
			k = "notification"
		}
		e := C07Elem{Kind: k}
		if k == "odd-result" {
			e.N = rapid.IntRange(0, len(c07OddResults)-1).Draw(t, "odd")
		}
		if k == "giant" {
			e.N = rapid.SampledFrom([]int{600, 5000, 70000, 300000, 1 << 20}).Draw(t, "giantsize")
		}
		c.Script = append(c.Script, e)
	}
	c.Extra = rapid.IntRange(0, 3).Draw(t, "extra")
	c.Pad = rapid.SampledFrom([]int{0, 0, 0, 3000, 200000}).Draw(t, "pad")
	c.Split = rapid.IntRange(0, 2).Draw(t, "split") == 0
	if c.Client == "streamable-get" && rapid.IntRange(0, 3).Draw(t, "getends") == 0 {
		c.GetEnds = true
	}
	if (c.Client == "legacy" || c.Client == "streamable-get") && !c.GetEnds && rapid.IntRange(0, 11).Draw(t, "long") == 0 {
		c.FillMB = rapid.SampledFrom([]int{3, 20}).Draw(t, "fillmb")
	}
	return c
}

func ntC07(c C07Case) (bool, []string) {
	junk := false
	labels := []string{"client=" + c.Client}
	for _, e := range c.Script {
		if e.Kind != "valid" {
			junk = true
		}
		labels = append(labels, "elem="+e.Kind)
	}
	return junk, labels
}

// frame renders one script element as a JSON text ("" when the element is not a JSON frame).
func (e C07Elem) frame() string {
	switch e.Kind {
	case "valid", "valid-again":
		return "{{valid}}"
	case "nonjson":
		return "this is not json"
	case "notification":
		return `{"jsonrpc":"2.0","method":"notifications/verif-junk","params":{"x":1}}`
	case "unknown-request":
		return `{"jsonrpc":"2.0","id":"srv-1","method":"verif/unknown","params":{}}`
	case "unknown-id":
		return `{"jsonrpc":"2.0","id":987654321,"result":{}}`
	case "id-bool":
		return `{"jsonrpc":"2.0","id":true,"result":{}}`
	case "id-object":
		return `{"jsonrpc":"2.0","id":{"a":[1]},"result":{}}`
	case "id-string":
		return `{"jsonrpc":"2.0","id":"not-a-number","result":{}}`
	case "odd-result":
		return `{"jsonrpc":"2.0","id":{{id}},"result":` + c07OddResults[e.N%len(c07OddResults)] + `}`
	case "no-result":
		return `{"jsonrpc":"2.0","id":{{id}}}`
	case "both":
		return `{"jsonrpc":"2.0","id":987654322,"result":{},"error":{"code":1,"message":"x"}}`
	case "giant":
		return `{"jsonrpc":"2.0","method":"notifications/verif-giant","params":{"pad":"` + strings.Repeat("g", e.N) + `"}}`
	case "garbage":
		return "\x00\xff\xfe{{{]]\x1b[31m"
	case "huge-id":
		return `{"jsonrpc":"2.0","id":1e999,"result":{}}`
	case "truncated":
		return `{"jsonrpc":"2.0","id":{{id}},"result":{"content":[{"type":"te`
	case "null":
		return `null`
	case "array":
		return `[{"jsonrpc":"2.0","id":{{id}},"result":{}}]`
	}
	return ""
}

// sseBytes renders the script as an event stream (legacy=true adds "event: message").
func c07SSE(script []C07Elem, legacy bool) string {
	var b strings.Builder
	ev := ""
	if legacy {
		ev = "event: message\n"
	}
	for _, e := range script {
		switch e.Kind {
		case "comment":
			b.WriteString(": a comment line\n\n")
		case "blank":
			b.WriteString("\n\n\n")
		case "bom":
			b.WriteString("\xEF\xBB\xBF\n\n")
		case "cr-valid":
			// CRLF line ends (a lone CR cannot end a line for a reader that splits at LF: whatever follows is glued to it)
			b.WriteString(strings.ReplaceAll(ev, "\n", "\r\n") + "id: c1\r\ndata: {{valid}}\r\n\r\n")
		case "unknown-event":
			b.WriteString("event: verif-unknown\ndata: {\"x\":1}\n\n")
		case "endpoint-again":
			b.WriteString("event: endpoint\ndata: {{endpoint}}\n\n")
		case "multiline-valid":
			b.WriteString(ev + "data: {{valid-a}}\ndata: {{valid-b}}\n\n")
		case "empty-data":
			b.WriteString(ev + "data:\n\n")
		case "ctl-id":
			// an event id no HTTP header can carry (the client echoes ids as Last-Event-ID)
			b.WriteString(ev + "id: a\x01b\x7f\ndata: " + C07Elem{Kind: "notification"}.frame() + "\n\n")
		default:
			if f := e.frame(); f != "" {
				b.WriteString(ev + "id: e\ndata: " + f + "\n\n")
			}
		}
	}
	return b.String()
}

func c07Lines(script []C07Elem) string {
	var b strings.Builder
	for _, e := range script {
		switch e.Kind {
		case "comment":
			b.WriteString(": a comment line\n")
		case "blank":
			b.WriteString("\n\n")
		case "bom":
			b.WriteString("\xEF\xBB\xBF\n")
		case "cr-valid":
			b.WriteString("{{valid}}\r\n")
		case "unknown-event", "endpoint-again", "empty-data", "ctl-id":
			b.WriteString("event: endpoint\n")
		case "multiline-valid":
			b.WriteString("{{valid-a}}\n{{valid-b}}\n")
		default:
			if f := e.frame(); f != "" {
				b.WriteString(f + "\n")
			}
		}
	}
	return b.String()
}

func hasValid(script []C07Elem) bool {
	for _, e := range script {
		if e.Kind == "valid" {
			return true
		}
	}
	return false
}

const c07ValidText = `echo:{"a":1}`

func callEcho(ctx context.Context, cl mcp.Connector) (string, error) { return callEchoPad(ctx, cl, 0) }

// c07ValidTextPad is the valid answer to callEchoPad.
func c07ValidTextPad(pad int) string {
	if pad == 0 {
		return c07ValidText
	}
	return `echo:{"a":1,"pad":"` + strings.Repeat("p", pad) + `"}`
}

func callEchoPad(ctx context.Context, cl mcp.Connector, pad int) (string, error) {
	req := &mcp.CallToolRequest{}
	req.Params.Name = "echo"
	req.Params.Arguments = map[string]interface{}{"a": 1}
	if pad > 0 {
		req.Params.Arguments["pad"] = strings.Repeat("p", pad)
	}
	res, err := cl.CallTool(ctx, req)
	if err != nil {
		return "", err
	}
	if len(res.Content) == 1 {
		if tc, ok := res.Content[0].(mcp.TextContent); ok {
			return tc.Text, nil
		}
	}
	return fmt.Sprintf("unexpected result %+v", res), nil
}

func execC07(c C07Case) *Failure { return runC07WithFake(c, nil) }

// runC07WithFake runs the C07 oracle; a non-nil preset (HTTP clients only) replaces the scripted peer built from c.Script.
func runC07WithFake(c C07Case, preset *FakeServer) *Failure {
	where := fmt.Sprintf("%s script %v extra=%d pad=%d", c.Client, scriptNames(c.Script), c.Extra, c.Pad)
	var cl mcp.Connector
	var fake *FakeServer
	var affected atomic.Bool // the next tools/call is the affected one
	planRaw := func(raw, ct string) func(method, kind string, nth int) FakeAction {
		return func(method, kind string, nth int) FakeAction {
			if method == "tools/call" && affected.CompareAndSwap(true, false) {
				return FakeAction{Kind: "raw", Raw: raw, CT: ct, Split: c.Split}
			}
			return FakeAction{}
		}
	}
	var notifSeen atomic.Int64
	cleanup := func() {}
	switch c.Client {
	case "stdio":
		dir, _ := os.MkdirTemp("", "c07")
		defer os.RemoveAll(dir)
		// the caller that got its answer cleans up while the reader is between looking up and delivering a repeated answer
		mcp.VerifSetYield(func(point string) {
			if point == "stdio-client:response-looked-up" {
				time.Sleep(300 * time.Microsecond)
			}
		})
		defer mcp.VerifSetYield(nil)
		// the child plays the script on the 1st tools/call; calls are numbered so "extra" calls come later
		plan := map[string][]FakeAction{"request:tools/call": {{Kind: "raw", Raw: c07Lines(c.Script)}}}
		cfg := mcp.StdioTransportConfig{ServerParams: ChildCommand(ChildSpec{Role: "fake", Log: filepath.Join(dir, "log"), Plan: plan}), Timeout: LongWait()}
		sc, err := mcp.NewStdioClient(cfg, mcp.Implementation{Name: "c", Version: "1"}, mcp.WithStdioLogger(nopLogger{}))
		if err != nil {
			return Failf("C07/new-client", "%v", err)
		}
		cl = sc
	default:
		fake = &FakeServer{Legacy: c.Client == "legacy", Stateful: c.Client != "legacy", PostSSE: false}
		switch c.Client {
		case "streamable-json":
			var b strings.Builder
			for _, e := range c.Script {
				b.WriteString(e.frame())
			}
			fake.Plan = planRaw(b.String(), "application/json")
		case "streamable-sse":
			fake.Plan = planRaw(c07SSE(c.Script, false), "text/event-stream")
		case "legacy":
			fake.Plan = planRaw(c07SSE(c.Script, true), "")
		case "streamable-get":
			// the affected call is answered normally; the junk goes to the listening stream
		}
		if preset != nil {
			fake = preset
		}
		br := &Bridge{H: fake}
		opts := []mcp.ClientOption{mcp.WithHTTPReqHandler(br), mcp.WithClientLogger(nopLogger{})}
		base := "http://c07.invalid"
		if c.FillMB > 0 {
			ts := ServeTCP(fake)
			prev := cleanup
			cleanup = func() { prev(); ts.CloseClientConnections(); ts.Close() }
			base = ts.URL
			opts = []mcp.ClientOption{mcp.WithClientLogger(nopLogger{})}
		}
		var err error
		var hc *mcp.Client
		if c.Client == "legacy" {
			hc, err = mcp.NewSSEClient(base+"/sse", mcp.Implementation{Name: "c", Version: "1"}, opts...)
		} else {
			hc, err = mcp.NewClient(base+"/mcp", mcp.Implementation{Name: "c", Version: "1"}, opts...)
		}
		if err != nil {
			return Failf("C07/new-client", "%v", err)
		}
		cl = hc
	}
	cl.RegisterNotificationHandler("notifications/verif-after", func(n *mcp.JSONRPCNotification) error { notifSeen.Add(1); return nil })
	var giantSeen atomic.Int64
	cl.RegisterNotificationHandler("notifications/verif-giant", func(n *mcp.JSONRPCNotification) error { giantSeen.Add(1); return nil })
	closed := false
	defer func() {
		if !closed {
			cl.Close()
		}
		cleanup()
	}()
	ictx, icancel := context.WithTimeout(context.Background(), 5*time.Second)
	_, err := cl.Initialize(ictx, &mcp.InitializeRequest{})
	icancel()
	if err != nil {
		return Failf("C07/handshake", "%s: %v", where, err)
	}
	if c.Client == "streamable-get" {
		deadline := time.Now().Add(2 * time.Second)
		for fake.GetOpen.Load() == 0 && time.Now().Before(deadline) {
			time.Sleep(200 * time.Microsecond)
		}
		if fake.GetOpen.Load() == 0 {
			return TimingFailf("C07/no-listening-stream", "%s: the client did not open its listening stream", where)
		}
		pfx := "RAW:"
		if c.Split {
			pfx = "RAWSPLIT:"
		}
		fake.PushToStreams(pfx + strings.ReplaceAll(strings.ReplaceAll(c07SSE(c.Script, false), "{{valid}}", `{"jsonrpc":"2.0","method":"notifications/verif-junk2"}`), "{{id}}", "1"))
		if c.GetEnds {
			fake.EndAllGets.Store(true)
			fake.PushToStreams("END:")
		}
	}
	if c.FillMB > 0 && fake != nil {
		// the stream has been up for a long time
		chunk := "RAW:" + strings.Repeat(": keep-alive comment on a long-lived stream, nothing to see here ........................................\n", 10000) + "event: tick\ndata: {}\n\n"
		for i := 0; i < c.FillMB; i++ {
			for fake.PushToStreams(chunk) == 0 {
				time.Sleep(time.Millisecond) // the channel of the stream is full: the reader is behind
			}
			time.Sleep(200 * time.Microsecond)
		}
	}
	// the affected call, with other calls pending
	type res struct {
		text string
		err  error
	}
	affected.Store(true)
	ares := make(chan res, 1)
	go func() {
		ctx, cancel := context.WithTimeout(context.Background(), Bound()*2)
		defer cancel()
		t, err := callEchoPad(ctx, cl, c.Pad)
		ares <- res{t, err}
	}()
	if c.Client == "stdio" {
		time.Sleep(2 * time.Millisecond) // the scripted call must be the child's first tools/call
	} else {
		deadline := time.Now().Add(time.Second)
		for preset == nil && affected.Load() && time.Now().Before(deadline) && c.Client != "streamable-get" {
			time.Sleep(100 * time.Microsecond)
		}
	}
	var wg sync.WaitGroup
	extra := make([]res, c.Extra)
	for i := 0; i < c.Extra; i++ {
		wg.Add(1)
		go func(i int) {
			defer wg.Done()
			ctx, cancel := context.WithTimeout(context.Background(), LongWait())
			defer cancel()
			t, err := callEcho(ctx, cl)
			extra[i] = res{t, err}
		}(i)
	}
	var a res
	select {
	case a = <-ares:
	case <-time.After(LongWait() + 4*time.Second):
		return TimingFailf("C07/call-does-not-return/"+c.Client, "%s: the affected call did not return 5 s after its context deadline", where)
	}
	wg.Wait()
	if c07Observe != nil {
		c07Observe(c, a.text, a.err)
	}
	if (c.Client == "streamable-sse" || c.Client == "legacy") && a.err != nil && c07HarmlessBeforeValid(c.Script) {
		// comments, blank lines, events of another type, notifications, requests, answers under unknown or mistyped ids: the
		// statement names them as things that never stop the processing of later well-formed frames - the answer is one
		f := Failf("C07/later-frames-dropped/"+c.Client, "%s: everything around the well-formed answer was skippable (%v), yet the call failed: %v", where, c.Script, a.err)
		f.Timing = isTimeoutText(a.err.Error())
		return f
	}
	odd := false
	for _, e := range c.Script {
		odd = odd || e.Kind == "odd-result"
	}
	if a.err == nil && a.text != c07ValidTextPad(c.Pad) && !odd {
		return Failf("C07/wrong-value/"+c.Client, "%s: the affected call returned %.200q (neither an error nor the valid answer)", where, a.text)
	}
	for i, e := range extra {
		if e.err != nil || e.text != c07ValidText {
			f := Failf("C07/other-pending-call-fails/"+c.Client, "%s: pending call %d next to the affected one returned %q / %v", where, i, e.text, e.err)
			f.Timing = e.err != nil && isTimeoutText(e.err.Error())
			return f
		}
	}
	// the client's own API still works (a reader that died or wedged holding a lock shows here)
	rdone := make(chan struct{})
	go func() {
		cl.RegisterNotificationHandler("notifications/verif-late", func(n *mcp.JSONRPCNotification) error { return nil })
		cl.UnregisterNotificationHandler("notifications/verif-late")
		close(rdone)
	}()
	select {
	case <-rdone:
	case <-time.After(Patience()):
		return TimingFailf("C07/handler-registration-hangs/"+c.Client, "%s: RegisterNotificationHandler / UnregisterNotificationHandler did not return after the junk", where)
	}
	// a later well-formed call on the same client completes
	lctx, lcancel := context.WithTimeout(context.Background(), LongWait())
	lt, lerr := callEcho(lctx, cl)
	lcancel()
	if lerr != nil || lt != c07ValidText {
		f := Failf("C07/later-call-fails/"+c.Client, "%s: a later well-formed call returned %q / %v (the affected call: %.100q / %v)", where, lt, lerr, a.text, a.err)
		f.Timing = lerr != nil && isTimeoutText(lerr.Error())
		f = classifyC07(c, f)
		return f
	}
	if c.Client == "streamable-get" && c.GetEnds {
		// whether the client re-opens a listening stream that ended is its business; re-opening it in a loop is spinning
		g0, t0, c0 := fake.GetTotal.Load(), time.Now(), CPUTime()
		time.Sleep(150 * time.Millisecond)
		if n := fake.GetTotal.Load() - g0; n > 15 {
			return Failf("C07/spin/"+c.Client, "%s: after the server ended the listening stream the idle client opened %d new streams in %v", where, n, time.Since(t0).Round(time.Millisecond))
		}
		if used := CPUTime() - c0; float64(used) > 0.5*float64(time.Since(t0)) {
			return classifyC07(c, TimingFailf("C07/spin/"+c.Client, "%s: the idle client used %v CPU in %v", where, used, time.Since(t0)))
		}
		cdone := make(chan error, 1)
		go func() { cdone <- cl.Close() }()
		closed = true
		select {
		case <-cdone:
		case <-time.After(8 * time.Second):
			return TimingFailf("C07/close-hangs/"+c.Client, "%s: Close did not return within 8 s", where)
		}
		return nil
	}
	// later well-formed frames on the stream are still processed
	if c.Client == "streamable-get" || c.Client == "legacy" {
		if c.Client == "legacy" {
			hc := cl.(*mcp.Client)
			_ = hc
		}
		if c.Client == "streamable-get" {
			fake.PushToStreams(`{"jsonrpc":"2.0","method":"notifications/verif-after","params":{}}`)
			deadline := time.Now().Add(Patience())
			for notifSeen.Load() == 0 && time.Now().Before(deadline) {
				time.Sleep(300 * time.Microsecond)
			}
			if notifSeen.Load() == 0 {
				return classifyC07(c, TimingFailf("C07/stream-stops-processing/"+c.Client, "%s: a well-formed notification sent after the junk never reached its handler", where))
			}
		}
	}
	// the well-formed (if large) notifications among the junk reached their handler, on the stream that outlives the call
	// (the legacy SSE client has no notification handlers to deliver to)
	if c.Client == "streamable-get" {
		giants := 0
		for _, e := range c.Script {
			if e.Kind == "giant" {
				giants++
			}
		}
		deadline := time.Now().Add(Patience())
		for int(giantSeen.Load()) < giants && time.Now().Before(deadline) {
			time.Sleep(300 * time.Microsecond)
		}
		if got := int(giantSeen.Load()); got != giants {
			return classifyC07(c, TimingFailf("C07/well-formed-frame-dropped/"+c.Client, "%s split=%v: %d of the %d well-formed large notifications among the junk reached their handler", where, c.Split, got, giants))
		}
	}
	// idle client must not burn CPU
	if c.Client == "stdio" {
		t0, c0 := time.Now(), CPUTime()
		time.Sleep(120 * time.Millisecond)
		if used := CPUTime() - c0; float64(used) > 0.5*float64(time.Since(t0)) {
			return classifyC07(c, TimingFailf("C07/spin/"+c.Client, "%s: the idle client used %v CPU in %v", where, used, time.Since(t0)))
		}
	}
	cdone := make(chan error, 1)
	go func() { cdone <- cl.Close() }()
	closed = true
	select {
	case <-cdone:
	case <-time.After(8 * time.Second):
		return TimingFailf("C07/close-hangs/"+c.Client, "%s: Close did not return within 8 s", where)
	}
	return nil
}

func scriptNames(s []C07Elem) []string {
	var out []string
	for _, e := range s {
		out = append(out, e.Kind)
	}
	return out
}

// classifyC07 attributes failures to the known classes when the script contains their trigger.
func classifyC07(c C07Case, f *Failure) *Failure {
	has := func(k string) bool {
		for _, e := range c.Script {
			if e.Kind == k {
				return true
			}
		}
		return false
	}
	switch {
	case c.Client == "streamable-get" && has("giant"):
		f.Key = "C07/get-stream/giant-frame"
	case c.Client == "stdio" && (has("nonjson") || has("garbage") || has("truncated") || has("comment") || has("bom") || has("unknown-event") || has("endpoint-again") || has("empty-data") || has("cr-valid") || has("multiline-valid")):
		f.Key = "C07/stdio/non-json-line"
	}
	return f
}

func TestC07(t *testing.T) {
	RunProp(t, Prop[C07Case]{ID: "C07", Gen: genC07, Exec: execC07, NT: ntC07})
}
