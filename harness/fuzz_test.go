package harness

import (
	"bytes"
	"net/http"
	"net/http/httptest"
	"strings"
	"testing"
	"time"

	mcp "trpc.group/trpc-go/trpc-mcp-go"
)

// Native coverage-guided fuzz targets (thorough tier, time-boxed). The semantic oracle sits inside
// the target: no panic, every emitted frame well-formed, a follow-up ping is served.

func fuzzSeeds(f *testing.F) {
	for _, s := range []string{
		`{"jsonrpc":"2.0","id":1,"method":"ping"}`,
		`{"jsonrpc":"2.0","id":"a","method":"tools/call","params":{"name":"alpha","arguments":{"nonce":"x"}}}`,
		`{"jsonrpc":"2.0","method":"notifications/initialized"}`,
		`{"jsonrpc":"2.0","id":7,"result":{"roots":[]}}`,
		`{"jsonrpc":"2.0","id":1,"method":"initialize","params":{"protocolVersion":"2025-03-26","clientInfo":{"name":"p","version":"1"},"capabilities":{}}}`,
		`[{"jsonrpc":"2.0","id":1,"method":"ping"}]`, `{"id":{}}`, `{"jsonrpc":"2.0","id":1e400,"method":"ping"}`, "\xef\xbb\xbf{}", `{"jsonrpc":"2.0","id":1,"method":"prompts/get","params":{"name":[]}}`,
	} {
		f.Add([]byte(s))
	}
}

func FuzzC06HTTP(f *testing.F) {
	Quiet()
	fuzzSeeds(f)
	f.Fuzz(func(t *testing.T, body []byte) {
		srv := mcp.NewServer("fz", "1", mcp.WithServerLogger(nopLogger{}), mcp.WithServerPath("/mcp"), mcp.WithPostSSEEnabled(len(body)%2 == 0))
		w := &World{Calls: map[string]int{}, Srv: srv, Path: "/mcp", Mode: ModeSJ}
		w.Register(RegistrarOf(srv), c06Reg)
		ex := w.Direct("POST", "/mcp", map[string]string{"Content-Type": "application/json", "Accept": "application/json"}, InitRequest("0", "2025-03-26"))
		sid := ex.Header.Get("Mcp-Session-Id")
		req := httptest.NewRequest("POST", "http://verif/mcp", bytes.NewReader(body))
		req.Header = http.Header{"Content-Type": {"application/json"}, "Accept": {"application/json, text/event-stream"}, "Mcp-Session-Id": {sid}}
		rec := httptest.NewRecorder()
		srv.Handler().ServeHTTP(rec, req) // a panic fails the target
		ex2 := exchangeFromHTTP(rec.Code, rec.Result().Header, rec.Body.Bytes())
		for _, fr := range ex2.Frames {
			if _, fail := decodeFrame(fr, true); fail != nil {
				t.Fatalf("%s (input %q)", fail.Error(), body)
			}
		}
		if rec.Code >= 200 && rec.Code < 300 && rec.Code != 202 && len(ex2.Frames) == 0 {
			t.Fatalf("status %d with no message for input %q", rec.Code, body)
		}
		p := w.Direct("POST", "/mcp", map[string]string{"Content-Type": "application/json", "Accept": "application/json", "Mcp-Session-Id": sid}, []byte(`{"jsonrpc":"2.0","id":"after","method":"ping"}`))
		if p.Status != 200 || len(p.Frames) != 1 {
			t.Fatalf("ping after %q: status %d", body, p.Status)
		}
	})
}

func FuzzC06Stdio(f *testing.F) {
	Quiet()
	fuzzSeeds(f)
	f.Fuzz(func(t *testing.T, line []byte) {
		line = bytes.ReplaceAll(line, []byte("\n"), []byte(" "))
		w := NewWorld(ModeStdio, c06Reg, WorldOpt{})
		conn, err := w.Connect()
		if err != nil {
			t.Fatal(err)
		}
		defer conn.Close()
		ex := conn.sendStdioAny(line, false, Bound())
		for _, fr := range ex.Frames {
			if _, fail := decodeFrame(fr, true); fail != nil {
				t.Fatalf("%s (input %q)", fail.Error(), line)
			}
		}
		p := conn.Send([]byte(`{"jsonrpc":"2.0","id":"after","method":"ping"}`), `"after"`, Patience())
		ok := false
		for _, fr := range p.Frames {
			if id, has := rawIDOf(fr); has && id == `"after"` && isResponseFrame(fr) {
				ok = true
			}
		}
		if !ok {
			t.Fatalf("ping after line %q was not answered", line)
		}
	})
}

// FuzzC07Stream: arbitrary bytes as the event stream a legacy SSE server emits in reaction to a call.
func FuzzC07Stream(f *testing.F) {
	Quiet()
	boundOverride = 30 * time.Millisecond
	for _, s := range []string{"event: message\ndata: {{valid}}\n\n", ": c\n\n", "data: x\n\n", "\xef\xbb\xbfevent: message\r\ndata: {{valid}}\r\n\r\n", "event: message\ndata: {\"jsonrpc\":\"2.0\",\"id\":true,\"result\":{}}\n\n"} {
		f.Add([]byte(s))
	}
	f.Fuzz(func(t *testing.T, stream []byte) {
		// a changed endpoint is a legitimate instruction the client follows; repeated endpoint events are C07's rapid class
		script := strings.ReplaceAll(string(stream), "endpoint", "endpoinX")
		if !bytes.HasSuffix(stream, []byte("\n\n")) {
			script += "\n\n" // an unterminated tail would swallow whatever follows: not a client matter
		}
		c := C07Case{Client: "legacy"}
		fake := &FakeServer{Legacy: true}
		var armed = true
		fake.Plan = func(method, kind string, nth int) FakeAction {
			if method == "tools/call" && armed {
				armed = false
				return FakeAction{Kind: "raw", Raw: script}
			}
			return FakeAction{}
		}
		if fl := runC07WithFake(c, fake); fl != nil && !fl.Timing {
			t.Fatalf("%s (stream %q)", fl.Error(), stream)
		}
	})
}
