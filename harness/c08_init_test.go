package harness

import (
	"context"
	"fmt"
	"os"
	"path/filepath"
	"strconv"
	"strings"
	"syscall"
	"testing"
	"time"

	"pgregory.net/rapid"
	mcp "trpc.group/trpc-go/trpc-mcp-go"
)

// C08Init: the handshake is a call like any other, and Close may come at any time. For every client kind the first
// call (Initialize) meets a generated fate - answered, answered with an HTTP error status, with a JSON-RPC error, with a
// malformed result, never answered, the child exits - and Close is issued either after it returned or a drawn number of
// microseconds after it was started (while the connection / the child process is still being set up). Whatever the
// order: Initialize returns, Close returns, and afterwards nothing the library created is left - goroutines,
// response bodies (connections), descriptors, pending entries, child processes (also ones forked after Close began).

type C08InitCase struct {
	Client  string `json:"client"`  // streamable legacy stdio
	Init    string `json:"init"`    // ok http503 rpc-error malformed silent exit0
	CloseUs int    `json:"closeus"` // -1: Close after Initialize has returned; >= 0: Close this many microseconds after Initialize was started
	Ctx     string `json:"ctx"`     // none deadline
	Rounds  int    `json:"rounds"`  // the scenario is repeated with fresh clients (the window of a race is small)
	Again   bool   `json:"again"`   // Close is called a second time afterwards
}

var c08InitFates = map[string][]string{
	"streamable": {"ok", "http503", "rpc-error", "malformed", "silent"},
	"legacy":     {"ok", "http503", "rpc-error", "malformed", "silent"},
	"stdio":      {"ok", "rpc-error", "malformed", "silent", "exit0"},
}

// childPIDs returns the live (or zombie) child processes of this process.
func childPIDs() map[int]string {
	out := map[int]string{}
	ents, err := os.ReadDir("/proc")
	if err != nil {
		return out
	}
	self := strconv.Itoa(os.Getpid())
	for _, e := range ents {
		pid, err := strconv.Atoi(e.Name())
		if err != nil {
			continue
		}
		b, err := os.ReadFile(filepath.Join("/proc", e.Name(), "stat"))
		if err != nil {
			continue
		}
		s := string(b)
		i := strings.LastIndex(s, ")")
		if i < 0 {
			continue
		}
		f := strings.Fields(s[i+1:])
		if len(f) >= 2 && f[1] == self {
			out[pid] = f[0]
		}
	}
	return out
}

func execC08Init(c C08InitCase) *Failure {
	goBefore := LibGoroutines()
	fdBefore := FDCount()
	kidsBefore := childPIDs()
	rounds := c.Rounds
	if rounds < 1 {
		rounds = 1
	}
	for round := 0; round < rounds; round++ {
		where := fmt.Sprintf("%s initialize=%s close=%dus ctx=%s round %d", c.Client, c.Init, c.CloseUs, c.Ctx, round)
		var cl mcp.Connector
		var br *Bridge
		var fake *FakeServer
		act := FakeAction{Kind: c.Init}
		switch c.Init {
		case "http503":
			act = FakeAction{Kind: "http", Status: 503}
		case "exit0":
			act = FakeAction{Kind: "fault", Raw: "{{valid}}", Cut: 0, Then: "exit0"}
		}
		switch c.Client {
		case "stdio":
			cfg := mcp.StdioTransportConfig{ServerParams: ChildCommand(ChildSpec{Role: "fake", Plan: map[string][]FakeAction{"request:initialize": {act}}}), Timeout: LongWait()}
			sc, err := mcp.NewStdioClient(cfg, mcp.Implementation{Name: "c", Version: "1"}, mcp.WithStdioLogger(nopLogger{}))
			if err != nil {
				return Failf("C08/new-client", "%v", err)
			}
			cl = sc
		default:
			fake = &FakeServer{Legacy: c.Client == "legacy", Stateful: c.Client != "legacy"}
			fake.Plan = func(method, kind string, nth int) FakeAction {
				if method == "initialize" {
					if act.Kind == "silent" && !fake.Legacy {
						return FakeAction{Kind: "fault", Raw: "", CT: "application/json", Cut: 0, Then: "stall"}
					}
					return act
				}
				return FakeAction{}
			}
			br = &Bridge{H: fake}
			opts := []mcp.ClientOption{mcp.WithHTTPReqHandler(br), mcp.WithClientLogger(nopLogger{})}
			var hc *mcp.Client
			var err error
			if c.Client == "legacy" {
				hc, err = mcp.NewSSEClient("http://c08.invalid/sse", mcp.Implementation{Name: "c", Version: "1"}, opts...)
			} else {
				hc, err = mcp.NewClient("http://c08.invalid/mcp", mcp.Implementation{Name: "c", Version: "1"}, opts...)
			}
			if err != nil {
				return Failf("C08/new-client", "%v", err)
			}
			cl = hc
		}
		limit := Bound() / 2
		ictx, icancel := context.WithCancel(context.Background())
		if c.Ctx == "deadline" || (c.Init == "silent" && c.CloseUs < 0) {
			// an unanswered handshake that nothing else ends is only required to end with a deadline
			ictx, icancel = context.WithTimeout(context.Background(), limit)
		}
		idone := make(chan error, 1)
		t0 := time.Now()
		go func() { _, err := cl.Initialize(ictx, &mcp.InitializeRequest{}); idone <- err }()
		closeIt := func() *Failure {
			cdone := make(chan error, 1)
			go func() { cdone <- cl.Close() }()
			select {
			case <-cdone:
			case <-time.After(8 * time.Second):
				return TimingFailf("C08/close-hangs/"+c.Client, "%s: Close did not return within 8 s", where)
			}
			return nil
		}
		var ierr error
		if c.CloseUs >= 0 {
			time.Sleep(time.Duration(c.CloseUs) * time.Microsecond)
			if f := closeIt(); f != nil {
				icancel()
				return f
			}
			// a call that nothing answers is obliged to end with its context (the statement does not make Close end it)
			if c.Ctx == "none" {
				icancel()
			}
			select {
			case ierr = <-idone:
			case <-time.After(limit + Patience()):
				icancel()
				return TimingFailf("C08/call-survives-close/"+c.Client, "%s: Initialize is still blocked %v after Close returned and its context ended (started %v ago)", where, Patience(), time.Since(t0).Round(time.Millisecond))
			}
			// whatever the first Close met half-built is torn down by Close once the call has returned
			if f := closeIt(); f != nil {
				icancel()
				return f
			}
		} else {
			select {
			case ierr = <-idone:
			case <-time.After(limit + Patience()):
				icancel()
				return TimingFailf("C08/call-does-not-end/"+c.Client+"/init-"+c.Init, "%s: Initialize is still blocked %v after its context ended (started %v ago)", where, Patience(), time.Since(t0).Round(time.Millisecond))
			}
			if c.Init != "ok" && ierr == nil {
				icancel()
				return Failf("C08/partial-result/"+c.Client, "%s: Initialize succeeded", where)
			}
			if f := closeIt(); f != nil {
				icancel()
				return f
			}
		}
		icancel()
		if c.Again {
			if f := closeIt(); f != nil {
				return f
			}
		}
		_ = ierr
		if f := c08Released(C08Case{Client: map[string]string{"streamable": "streamable-json", "legacy": "legacy", "stdio": "stdio"}[c.Client]}, where, cl, br, 0, goBefore, fdBefore); f != nil {
			return f
		}
		if fake != nil {
			deadline := time.Now().Add(Patience())
			for fake.openStreams() > 0 && time.Now().Before(deadline) {
				time.Sleep(time.Millisecond)
			}
			if n := fake.openStreams(); n > 0 {
				return TimingFailf("C08/stream-left-open/"+c.Client, "%s: %d event streams are still open at the server after Close", where, n)
			}
		}
		deadline := time.Now().Add(Patience())
		var extra []string
		for {
			extra = extra[:0]
			for pid, st := range childPIDs() {
				if _, ok := kidsBefore[pid]; !ok {
					extra = append(extra, fmt.Sprintf("%d(%s)", pid, st))
				}
			}
			if len(extra) == 0 || time.Now().After(deadline) {
				break
			}
			time.Sleep(2 * time.Millisecond)
		}
		if len(extra) > 0 {
			for pid := range childPIDs() {
				if _, ok := kidsBefore[pid]; !ok {
					syscall.Kill(pid, syscall.SIGKILL)
				}
			}
			return TimingFailf("C08/child-left-running", "%s: child processes started by the client are still there after Close: %v", where, extra)
		}
	}
	return nil
}

func TestC08Init(t *testing.T) {
	RunProp(t, Prop[C08InitCase]{ID: "C08",
		Gen: func(t *rapid.T) C08InitCase {
			c := C08InitCase{Client: rapid.SampledFrom([]string{"streamable", "legacy", "legacy", "stdio", "stdio"}).Draw(t, "client")}
			c.Init = rapid.SampledFrom(c08InitFates[c.Client]).Draw(t, "init")
			c.CloseUs = -1
			if rapid.Bool().Draw(t, "concurrent") {
				c.CloseUs = rapid.SampledFrom([]int{0, 20, 50, 100, 150, 200, 250, 300, 400, 500, 700, 1000, 1500, 3000}).Draw(t, "closeus")
			}
			c.Ctx = rapid.SampledFrom([]string{"none", "deadline"}).Draw(t, "ctx")
			c.Rounds = rapid.IntRange(1, 6).Draw(t, "rounds")
			c.Again = rapid.Bool().Draw(t, "again")
			return c
		},
		Exec: execC08Init,
		NT: func(c C08InitCase) (bool, []string) {
			return c.Init != "ok" || c.CloseUs >= 0, []string{"client=" + c.Client, "init=" + c.Init, fmt.Sprintf("concurrent=%v", c.CloseUs >= 0)}
		}})
}
