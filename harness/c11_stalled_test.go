package harness

import (
	"context"
	"encoding/json"
	"fmt"
	"sync/atomic"
	"testing"
	"time"

	"pgregory.net/rapid"
	mcp "trpc.group/trpc-go/trpc-mcp-go"
)

// C11Stalled: the old listening stream's peer has stopped taking bytes (a write to it does not return) when the client
// opens a new stream for the session. From the moment the new stream's headers have been received, sends to the session
// succeed and arrive on the new stream - they do not wait for the write that is stuck on the replaced stream.

type C11StalledCase struct {
	Parked int   `json:"parked"` // senders whose write is stuck on / queued behind the old stream
	Sends  []int `json:"sends"`  // after the reopen: 0 notification, 1 server request (nobody answers; it must be written)
	Pad    int   `json:"pad"`
}

func execC11Stalled(c C11StalledCase) *Failure {
	w := NewWorld(ModeSJ, RegSpec{}, WorldOpt{})
	defer w.Close()
	conn, err := w.Connect()
	if err != nil {
		return Failf("C11/connect", "%v", err)
	}
	hdr := map[string]string{"Accept": "text/event-stream", "Mcp-Session-Id": conn.SessionID}
	var hold atomic.Bool
	gate := make(chan struct{})
	old := StartLive(w.Srv.Handler(), "GET", "http://verif/mcp", hdr, nil, func(kind string, n int) {
		if hold.Load() {
			<-gate
		}
	})
	released := false
	release := func() {
		if !released {
			released = true
			close(gate)
		}
	}
	defer func() { release(); old.PeerGone() }()
	if !old.WaitFlushedHeader(2 * time.Second) {
		return TimingFailf("C11/stream-not-opened", "the first stream did not open")
	}
	waitRegistered(w.Srv, 1)
	hold.Store(true)
	pad := StrSpec{Class: "ascii", N: c.Pad, Seed: 1}.Expand()
	parkedDone := make(chan error, c.Parked)
	for i := 0; i < c.Parked; i++ {
		go func(i int) {
			parkedDone <- w.Srv.SendNotification(conn.SessionID, "notifications/verif", map[string]interface{}{"nonce": fmt.Sprintf("parked%d", i), "pad": pad})
		}(i)
	}
	time.Sleep(2 * time.Millisecond) // one sender is inside its write to the old stream
	neu := StartLive(w.Srv.Handler(), "GET", "http://verif/mcp", hdr, nil, nil)
	defer neu.PeerGone()
	if !neu.WaitFlushedHeader(Patience()) || neu.Returned() {
		return TimingFailf("C11/stream-not-opened", "the second stream did not open while a write to the first one was stuck")
	}
	where := fmt.Sprintf("%d senders stuck on the replaced stream (its peer takes no bytes), then sends %v to the session", c.Parked, c.Sends)
	for k, kind := range c.Sends {
		nonce := fmt.Sprintf("after%d", k)
		done := make(chan error, 1)
		go func() {
			if kind == 0 {
				done <- w.Srv.SendNotification(conn.SessionID, "notifications/verif", map[string]interface{}{"nonce": nonce})
				return
			}
			ctx, cancel := context.WithTimeout(context.Background(), Bound()/2)
			defer cancel()
			_, err := w.Srv.SendRequest(ctx, conn.SessionID, &mcp.JSONRPCRequest{JSONRPC: "2.0", ID: "rq-" + nonce, Request: mcp.Request{Method: "verif/request"}, Params: map[string]interface{}{"nonce": nonce}})
			if err == context.DeadlineExceeded {
				err = nil // written; nobody answers it here
			}
			done <- err
		}()
		select {
		case err := <-done:
			if err != nil {
				return Failf("C11/send-fails-although-stream-open", "%s: send %d failed after the new stream's headers had been received: %v", where, k, err)
			}
		case <-time.After(Bound() * 3):
			return TimingFailf("C11/send-waits-for-replaced-stream", "%s: send %d has not returned %v after the new stream's headers were received (the write stuck on the old stream is still stuck)", where, k, Bound()*3)
		}
		found := false
		deadline := time.Now().Add(Bound())
		for !found && time.Now().Before(deadline) {
			for _, e := range neu.Events() {
				var m struct {
					Params struct {
						Nonce string `json:"nonce"`
					} `json:"params"`
				}
				if json.Unmarshal([]byte(e.Data), &m) == nil && m.Params.Nonce == nonce {
					found = true
				}
			}
			time.Sleep(200 * time.Microsecond)
		}
		if !found {
			return TimingFailf("C11/frame-not-on-newest-stream", "%s: send %d returned nil but its frame is not on the new stream", where, k)
		}
	}
	release()
	for i := 0; i < c.Parked; i++ {
		select {
		case <-parkedDone:
		case <-time.After(Patience()):
			return TimingFailf("C11/held-send-stuck", "%s: a sender stuck on the old stream did not return after its peer let go", where)
		}
	}
	if !old.WaitReturned(Patience()) {
		return TimingFailf("C11/old-stream-not-closed", "%s: the replaced stream is still open", where)
	}
	return nil
}

func TestC11Stalled(t *testing.T) {
	RunProp(t, Prop[C11StalledCase]{ID: "C11",
		Gen: func(t *rapid.T) C11StalledCase {
			c := C11StalledCase{Parked: rapid.IntRange(1, 4).Draw(t, "parked"), Pad: rapid.SampledFrom([]int{0, 4000, 70000}).Draw(t, "pad")}
			n := rapid.IntRange(1, 5).Draw(t, "nsends")
			for i := 0; i < n; i++ {
				c.Sends = append(c.Sends, rapid.IntRange(0, 1).Draw(t, "kind"))
			}
			return c
		},
		Exec: execC11Stalled,
		NT:   func(c C11StalledCase) (bool, []string) { return true, []string{fmt.Sprintf("parked=%d", c.Parked)} }})
}
