package harness

import (
	"bytes"
	"context"
	"encoding/json"
	"fmt"
	"io"
	"os"
	"path/filepath"
	"runtime"
	"sort"
	"strings"
	"sync"
	"sync/atomic"
	"testing"
	"time"

	"pgregory.net/rapid"
	mcp "trpc.group/trpc-go/trpc-mcp-go"
)

// C09: one message per frame — SSE events and stdio lines never interleave.

type C09Case struct {
	Target   string `json:"target"`            // stdio-server, get-stream, legacy-sse, stdio-client
	Writers  int    `json:"writers"`           // concurrent writers
	Sizes    []int  `json:"sizes"`             // payload size per writer (bytes of padding)
	Class    string `json:"class"`             // string class of the padding
	StallMs  int    `json:"stallms,omitempty"` // get-stalled: how long the peer takes no bytes
	Jitter   []int  `json:"jitter"`            // per-write delay seeds (k*20us), cycled
	Schedule string `json:"schedule"`          // optional exact order of write steps for the first writers, e.g. "abab"
	Rounds   int    `json:"rounds"`
}

var c09Sizes = []int{0, 10, 4000, 4090, 4096, 4100, 8192, 65500, 65536, 65600, 200000}

func genC09(t *rapid.T) C09Case {
	c := C09Case{Target: rapid.SampledFrom([]string{"stdio-server", "stdio-server", "get-stream", "get-reconnect", "get-multi", "legacy-sse", "stdio-client", "post-stream"}).Draw(t, "target")}
	if c.Target == "stdio-client" && Excluded("C09/stdio-client-unlocked-error-writer") {
		CountExcluded("C09/stdio-client-unlocked-error-writer")
		c.Target = "stdio-server"
	}
	c.Writers = rapid.IntRange(2, 16).Draw(t, "writers")
	if rapid.IntRange(0, 9).Draw(t, "many") == 0 {
		c.Writers = rapid.IntRange(17, 64).Draw(t, "manywriters")
	}
	for i := 0; i < c.Writers; i++ {
		c.Sizes = append(c.Sizes, rapid.SampledFrom(c09Sizes).Draw(t, "size"))
	}
	c.Class = rapid.SampledFrom([]string{"ascii", "lines", "seps", "sse", "bmp", "quotes"}).Draw(t, "class")
	nj := rapid.IntRange(0, 8).Draw(t, "njitter")
	for i := 0; i < nj; i++ {
		c.Jitter = append(c.Jitter, rapid.IntRange(0, 10).Draw(t, "jit"))
	}
	if rapid.IntRange(0, 3).Draw(t, "sched") == 0 {
		c.Schedule = rapid.SampledFrom([]string{"abab", "abba", "baab", "aabb", "abcabc", "acbbca", "ababab"}).Draw(t, "schedule")
	}
	c.Rounds = rapid.IntRange(1, 3).Draw(t, "rounds")
	if rapid.IntRange(0, 39).Draw(t, "stalled") == 0 {
		// a peer that stops reading for seconds: rare, each such case costs its stall in wall time
		c.Target = "get-stalled"
		c.StallMs = rapid.SampledFrom([]int{300, 5600, 5600}).Draw(t, "stallms")
		if c.Writers > 6 {
			c.Writers = 6
		}
	}
	return c
}

func ntC09(c C09Case) (bool, []string) {
	return c.Writers >= 2, []string{"target=" + c.Target, fmt.Sprintf("schedule=%v", c.Schedule != "")}
}

func goid() string {
	var b [64]byte
	n := runtime.Stack(b[:], false)
	f := strings.Fields(string(b[:n]))
	if len(f) >= 2 {
		return f[1]
	}
	return "?"
}

// writeController perturbs / orders Write calls of a harness-owned writer.
type writeController struct {
	mu       sync.Mutex
	cond     *sync.Cond
	jitter   []int
	n        int
	schedule string
	pos      int
	label    map[string]byte // goroutine id -> writer label
	nonces   map[string]byte // nonce text -> label
	inside   int
	Overlaps int
}

func newWriteController(c C09Case, nonces []string) *writeController {
	w := &writeController{jitter: c.Jitter, schedule: c.Schedule, label: map[string]byte{}, nonces: map[string]byte{}}
	w.cond = sync.NewCond(&w.mu)
	for i, n := range nonces {
		if i < 26 {
			w.nonces[n] = byte('a' + i)
		}
	}
	return w
}

// before is called at the start of every Write with its bytes.
func (w *writeController) before(p []byte) {
	g := goid()
	w.mu.Lock()
	w.inside++
	if w.inside > 1 {
		w.Overlaps++
	}
	lab, ok := w.label[g]
	if !ok {
		for n, l := range w.nonces {
			if bytes.Contains(p, []byte(n)) {
				lab = l
				w.label[g] = l
				break
			}
		}
	}
	k := 0
	if len(w.jitter) > 0 {
		k = w.jitter[w.n%len(w.jitter)]
	}
	w.n++
	// exact ordering for the scheduled prefix: wait (briefly) for this writer's turn
	if lab != 0 && w.pos < len(w.schedule) && strings.IndexByte(w.schedule[w.pos:], lab) >= 0 {
		deadline := time.Now().Add(3 * time.Millisecond)
		for w.pos < len(w.schedule) && w.schedule[w.pos] != lab && time.Now().Before(deadline) {
			w.mu.Unlock()
			time.Sleep(50 * time.Microsecond)
			w.mu.Lock()
		}
		if w.pos < len(w.schedule) && w.schedule[w.pos] == lab {
			w.pos++
		} else if w.pos < len(w.schedule) {
			// infeasible order (the code serialises these steps): skip to after this writer's next step
			if i := strings.IndexByte(w.schedule[w.pos:], lab); i >= 0 {
				w.pos += i + 1
			}
		}
	}
	w.mu.Unlock()
	if k > 0 {
		time.Sleep(time.Duration(k) * 20 * time.Microsecond)
	}
}

func (w *writeController) after() {
	w.mu.Lock()
	w.inside--
	w.mu.Unlock()
}

type ctlWriter struct {
	buf *LockedBuffer
	ctl *writeController
}

func (c ctlWriter) Write(p []byte) (int, error) {
	c.ctl.before(p)
	defer c.ctl.after()
	return c.buf.Write(p)
}

func padOf(c C09Case, i int) string {
	return StrSpec{Class: c.Class, N: c.Sizes[i%len(c.Sizes)], Seed: i}.Expand()
}

// execC09GetMulti: several sessions, each with its own listening stream, are written to at the same time (addressed
// notifications from one sender per message, plus broadcasts). The streams are independent byte streams: every event on a
// stream parses on its own and is a message that was addressed to that session, each once.
func execC09GetMulti(c C09Case) *Failure {
	w := padWorld(ModeSJ, WorldOpt{})
	defer w.Close()
	nsess := 2 + c.Writers%4
	type sess struct {
		id string
		lr *LiveResp
	}
	var ss []sess
	for i := 0; i < nsess; i++ {
		conn, err := w.Connect()
		if err != nil {
			return Failf("C09/connect", "%v", err)
		}
		k := 0
		lr := StartLive(w.Srv.Handler(), "GET", "http://verif/mcp", map[string]string{"Accept": "text/event-stream", "Mcp-Session-Id": conn.SessionID}, nil, func(kind string, n int) {
			// the bytes handed to Write are on their way for a while (a socket that takes them in pieces)
			if len(c.Jitter) > 0 && kind == "write" {
				k++
				time.Sleep(time.Duration(c.Jitter[k%len(c.Jitter)]) * 30 * time.Microsecond)
			}
		})
		defer lr.PeerGone()
		if !lr.WaitFlushedHeader(2 * time.Second) {
			return TimingFailf("C09/get-not-open", "stream did not open")
		}
		ss = append(ss, sess{conn.SessionID, lr})
	}
	waitRegistered(w.Srv, nsess)
	var wg sync.WaitGroup
	var mu sync.Mutex
	sendErr := map[string]error{}
	for r := 0; r < c.Rounds; r++ {
		for si := range ss {
			for i := 0; i < 1+c.Writers/4; i++ {
				wg.Add(1)
				go func(si, i, r int) {
					defer wg.Done()
					nonce := fmt.Sprintf("M%ds%dr%dx", i, si, r)
					e := w.Srv.SendNotification(ss[si].id, "notifications/verif", map[string]interface{}{"nonce": nonce, "to": si, "pad": StrSpec{Class: c.Class, N: c.Sizes[(i+si)%len(c.Sizes)], Seed: si*7 + i}.Expand()})
					mu.Lock()
					sendErr[nonce] = e
					mu.Unlock()
				}(si, i, r)
			}
		}
		wg.Add(1)
		go func(r int) {
			defer wg.Done()
			w.Srv.BroadcastNotification("notifications/verif", map[string]interface{}{"nonce": fmt.Sprintf("B%dx", r), "to": -1, "pad": StrSpec{Class: c.Class, N: c.Sizes[r%len(c.Sizes)] % 70000, Seed: r}.Expand()})
		}(r)
	}
	wg.Wait()
	time.Sleep(3 * time.Millisecond)
	where := fmt.Sprintf("%d sessions written to at the same time (%d rounds, sizes %v, class %s)", nsess, c.Rounds, c.Sizes, c.Class)
	for si, s := range ss {
		seen := map[string]int{}
		for i, e := range s.lr.Events() {
			var m struct {
				Params struct {
					Nonce string `json:"nonce"`
					To    int    `json:"to"`
					Pad   string `json:"pad"`
				} `json:"params"`
			}
			if err := json.Unmarshal([]byte(e.Data), &m); err != nil || m.Params.Nonce == "" {
				return Failf("C09/get-stream/torn-event", "%s: event %d of session %d's stream does not parse on its own (%v): %.200q", where, i, si, err, e.Data)
			}
			if m.Params.To != -1 && m.Params.To != si {
				return Failf("C09/get-stream/foreign-message", "%s: session %d's stream carries %s, a message addressed to session %d", where, si, m.Params.Nonce, m.Params.To)
			}
			seen[m.Params.Nonce]++
		}
		if s.lr.Overlaps > 0 {
			return Failf("C09/get-stream/concurrent-writes", "%s: %d Write / Flush calls on session %d's stream overlapped in time", where, s.lr.Overlaps, si)
		}
		for r := 0; r < c.Rounds; r++ {
			for i := 0; i < 1+c.Writers/4; i++ {
				nonce := fmt.Sprintf("M%ds%dr%dx", i, si, r)
				n := seen[nonce]
				if n > 1 || (sendErr[nonce] == nil && n != 1) {
					return TimingFailf("C09/get-stream/message-multiset", "%s: notification %s (send error: %v) recovered %d times from session %d's stream", where, nonce, sendErr[nonce], n, si)
				}
			}
			if n := seen[fmt.Sprintf("B%dx", r)]; n > 1 {
				return Failf("C09/get-stream/message-multiset", "%s: broadcast B%dx recovered %d times from session %d's stream", where, r, n, si)
			}
		}
	}
	return nil
}

// execC09GetStalled: the peer of a listening stream stops taking bytes for several seconds (the flush of one event does
// not return) while further events are sent to the session: the stalled write is still one writer's business, nobody
// else touches the stream until it is done, and every message arrives once.
func execC09GetStalled(c C09Case) *Failure {
	w := padWorld(ModeSJ, WorldOpt{})
	defer w.Close()
	conn, err := w.Connect()
	if err != nil {
		return Failf("C09/connect", "%v", err)
	}
	var stall atomic.Bool
	gate := make(chan struct{})
	lr := StartLive(w.Srv.Handler(), "GET", "http://verif/mcp", map[string]string{"Accept": "text/event-stream", "Mcp-Session-Id": conn.SessionID}, nil, func(kind string, n int) {
		if kind == "flush" && stall.CompareAndSwap(true, false) {
			<-gate
		}
	})
	defer lr.PeerGone()
	if !lr.WaitFlushedHeader(2 * time.Second) {
		return TimingFailf("C09/get-not-open", "stream did not open")
	}
	waitRegistered(w.Srv, 1)
	stall.Store(true)
	var wg sync.WaitGroup
	errs := make([]error, c.Writers+1)
	send := func(i int) {
		defer wg.Done()
		errs[i] = w.Srv.SendNotification(conn.SessionID, "notifications/verif", map[string]interface{}{"nonce": fmt.Sprintf("S%dx", i), "pad": StrSpec{Class: c.Class, N: c.Sizes[i%len(c.Sizes)] % 9000, Seed: i}.Expand()})
	}
	wg.Add(1)
	go send(0) // its flush is the one that stalls
	time.Sleep(20 * time.Millisecond)
	for i := 1; i <= c.Writers; i++ {
		wg.Add(1)
		go send(i)
	}
	time.Sleep(time.Duration(c.StallMs) * time.Millisecond)
	over := lr.Overlaps
	close(gate)
	wg.Wait()
	time.Sleep(3 * time.Millisecond)
	where := fmt.Sprintf("GET stream whose peer took no bytes for %d ms during one event's flush, %d more senders meanwhile (class %s)", c.StallMs, c.Writers, c.Class)
	if over > 0 || lr.Overlaps > 0 {
		return Failf("C09/get-stream/concurrent-writes", "%s: %d Write / Flush calls on the stream overlapped the stalled flush", where, lr.Overlaps)
	}
	seen := map[string]int{}
	for i, e := range lr.Events() {
		var m struct {
			Params struct {
				Nonce string `json:"nonce"`
			} `json:"params"`
		}
		if err := json.Unmarshal([]byte(e.Data), &m); err != nil || m.Params.Nonce == "" {
			return Failf("C09/get-stream/torn-event", "%s: event %d does not parse on its own (%v): %.200q", where, i, err, e.Data)
		}
		seen[m.Params.Nonce]++
	}
	for i := 0; i <= c.Writers; i++ {
		n := seen[fmt.Sprintf("S%dx", i)]
		if n > 1 || (errs[i] == nil && n != 1) {
			return TimingFailf("C09/get-stream/message-multiset", "%s: notification S%dx (send error: %v) recovered %d times from the stream", where, i, errs[i], n)
		}
	}
	return nil
}

func execC09(c C09Case) *Failure {
	switch c.Target {
	case "get-stream":
		return execC09GetStream(c)
	case "get-reconnect":
		return execC09GetReconnect(c)
	case "get-stalled":
		return execC09GetStalled(c)
	case "get-multi":
		return execC09GetMulti(c)
	case "post-stream":
		return execC09PostStream(c)
	case "legacy-sse":
		return execC09Legacy(c)
	case "stdio-client":
		return execC09StdioClient(c)
	}
	return execC09StdioServer(c)
}

// padTool echoes its padding argument so that frames of chosen sizes are produced.
func padWorld(mode Mode, opt WorldOpt) *World {
	w := NewWorld(mode, RegSpec{}, opt)
	var srv interface{}
	switch {
	case w.Srv != nil:
		srv = w.Srv
	case w.SSE != nil:
		srv = w.SSE
	default:
		srv = w.Stdio
	}
	RegistrarOf(srv).RegisterTool(mcp.NewTool("pad", mcp.WithString("pad"), mcp.WithString("nonce")), func(ctx context.Context, req *mcp.CallToolRequest) (*mcp.CallToolResult, error) {
		n, _ := req.Params.Arguments["nonce"].(string)
		p, _ := req.Params.Arguments["pad"].(string)
		w.count("tool:pad:" + n)
		if w.ToolHook != nil {
			w.ToolHook(ctx, ToolSpec{Name: "pad"}, req)
		}
		if ask, _ := req.Params.Arguments["ask"].(bool); ask {
			// a server-issued request written while responses are being written (nobody answers it; it ends with the case)
			rctx, cancel := context.WithTimeout(ctx, 300*time.Millisecond)
			go func() {
				defer cancel()
				switch srv := mcp.GetServerFromContext(ctx).(type) {
				case *mcp.StdioServer:
					srv.ListRoots(rctx)
				case *mcp.Server:
					srv.ListRoots(rctx)
				case *mcp.SSEServer:
					srv.ListRoots(rctx)
				}
			}()
		}
		return mcp.NewTextResult(n + "|" + p), nil
	})
	return w
}

func padRequest(id string, nonce, pad string) []byte { return padRequestAsk(id, nonce, pad, false) }

func padRequestAsk(id string, nonce, pad string, ask bool) []byte {
	b, _ := json.Marshal(map[string]interface{}{"jsonrpc": "2.0", "id": json.RawMessage(id), "method": "tools/call",
		"params": map[string]interface{}{"name": "pad", "arguments": map[string]interface{}{"nonce": nonce, "pad": pad, "ask": ask}}})
	return b
}

func execC09StdioServer(c C09Case) *Failure {
	w := padWorld(ModeStdio, WorldOpt{})
	defer w.Close()
	for round := 0; round < c.Rounds; round++ {
		var nonces []string
		for i := 0; i < c.Writers; i++ {
			nonces = append(nonces, fmt.Sprintf("N%dx%dx", round, i))
		}
		ctl := newWriteController(c, nonces)
		out := NewLockedBuffer()
		pr, pw := io.Pipe()
		ctx, cancel := context.WithCancel(context.Background())
		done := make(chan error, 1)
		go func() { done <- mcp.VerifServeStdio(ctx, w.Stdio, pr, ctlWriter{out, ctl}) }()
		var input bytes.Buffer
		for i := 0; i < c.Writers; i++ {
			input.Write(padRequestAsk(fmt.Sprintf("%d", i+1), nonces[i], padOf(c, i), i%3 == 1))
			input.WriteByte('\n')
		}
		pw.Write(input.Bytes())
		asks := 0
		for i := 0; i < c.Writers; i++ {
			if i%3 == 1 {
				asks++
			}
		}
		ok := out.WaitLines(c.Writers+asks, Patience())
		out.WaitQuiet(5*time.Millisecond, 200*time.Millisecond)
		pw.Close()
		cancel()
		raw := out.Bytes()
		lines, rest := SplitStdioLines(raw)
		where := fmt.Sprintf("stdio server, %d concurrent responses (sizes %v, class %s, schedule %q, %d overlapping writes observed)", c.Writers, c.Sizes, c.Class, c.Schedule, ctl.Overlaps)
		seen := map[string]int{}
		for li, l := range lines {
			if len(l) == 0 {
				return Failf("C09/stdio-server/empty-line", "%s: line %d of the output is empty", where, li)
			}
			var m map[string]json.RawMessage
			if err := json.Unmarshal(l, &m); err != nil {
				return Failf("C09/stdio-server/glued-or-torn-line", "%s: line %d does not parse on its own (%v): %.200q", where, li, err, l)
			}
			if _, isReq := m["method"]; isReq {
				seen["request"]++
				continue
			}
			seen[string(m["id"])]++
		}
		if seen["request"] != asks {
			f := Failf("C09/stdio-server/message-multiset", "%s: %d server-issued roots/list requests recovered, %d were issued", where, seen["request"], asks)
			f.Timing = true
			return f
		}
		if len(rest) != 0 {
			return Failf("C09/stdio-server/unterminated", "%s: output ends with an unterminated frame %.100q", where, rest)
		}
		for i := 0; i < c.Writers; i++ {
			if seen[fmt.Sprintf("%d", i+1)] != 1 {
				f := Failf("C09/stdio-server/message-multiset", "%s: response %d appears %d times (lines %d)", where, i+1, seen[fmt.Sprintf("%d", i+1)], len(lines))
				f.Timing = !ok
				return f
			}
		}
	}
	return nil
}

func execC09GetStream(c C09Case) *Failure {
	w := padWorld(ModeSJ, WorldOpt{})
	defer w.Close()
	conn, err := w.Connect()
	if err != nil {
		return Failf("C09/connect", "%v", err)
	}
	var nonces []string
	for i := 0; i < c.Writers; i++ {
		nonces = append(nonces, fmt.Sprintf("N%dx", i))
	}
	ctl := newWriteController(c, nonces)
	hook := func(kind string, n int) {}
	_ = hook
	lr := StartLive(w.Srv.Handler(), "GET", "http://verif/mcp", map[string]string{"Accept": "text/event-stream", "Mcp-Session-Id": conn.SessionID}, nil, nil)
	lr.WriteHookBytes = func(p []byte) { ctl.before(p); ctl.after() }
	defer lr.PeerGone()
	if !lr.WaitFlushedHeader(2 * time.Second) {
		return TimingFailf("C09/get-not-open", "stream did not open")
	}
	waitRegistered(w.Srv, 1)
	var wg sync.WaitGroup
	errs := make([]error, c.Writers)
	for i := 0; i < c.Writers; i++ {
		wg.Add(1)
		go func(i int) {
			defer wg.Done()
			for r := 0; r < c.Rounds; r++ {
				if i%3 == 1 {
					// a server-issued request on the same stream (nobody answers; the short deadline ends it)
					rctx, cancel := context.WithTimeout(context.Background(), 20*time.Millisecond)
					w.Srv.SendRequest(rctx, conn.SessionID, &mcp.JSONRPCRequest{JSONRPC: "2.0", ID: fmt.Sprintf("req-%s%d", nonces[i], r), Request: mcp.Request{Method: "verif/request"},
						Params: map[string]interface{}{"nonce": fmt.Sprintf("%s%d", nonces[i], r), "pad": padOf(c, i)}})
					cancel()
					continue
				}
				if e := w.Srv.SendNotification(conn.SessionID, "notifications/verif", map[string]interface{}{"nonce": fmt.Sprintf("%s%d", nonces[i], r), "pad": padOf(c, i)}); e != nil {
					errs[i] = e
				}
			}
		}(i)
	}
	wg.Wait()
	want := c.Writers * c.Rounds
	evs := lr.WaitEvents(want, Patience())
	where := fmt.Sprintf("GET stream, %d concurrent senders x %d (sizes %v, class %s, %d overlapping writes)", c.Writers, c.Rounds, c.Sizes, c.Class, ctl.Overlaps)
	for i, e := range errs {
		if e != nil {
			return Failf("C09/get-stream/send-error", "%s: sender %d: %v", where, i, e)
		}
	}
	seen := map[string]int{}
	for i, e := range evs {
		var m struct {
			Method string `json:"method"`
			Params struct {
				Nonce string `json:"nonce"`
				Pad   string `json:"pad"`
			} `json:"params"`
		}
		if err := json.Unmarshal([]byte(e.Data), &m); err != nil {
			return Failf("C09/get-stream/torn-event", "%s: event %d does not parse on its own (%v): %.200q", where, i, err, e.Data)
		}
		seen[m.Params.Nonce]++
	}
	for i := 0; i < c.Writers; i++ {
		for r := 0; r < c.Rounds; r++ {
			if n := seen[fmt.Sprintf("%s%d", nonces[i], r)]; n != 1 {
				return TimingFailf("C09/get-stream/message-multiset", "%s: notification %s%d recovered %d times from the stream (%d events)", where, nonces[i], r, n, len(evs))
			}
		}
	}
	return nil
}

// execC09PostStream: a session without a listening stream has requests in flight whose answers are event streams (the
// handlers emit notifications of their own), while other goroutines keep sending to that session and broadcasting. Whether
// such a send is refused or delivered on one of the open answer streams is the library's choice; each answer stream stays one
// well-framed byte stream written by one writer at a time: every event parses on its own, the call's own notifications are
// there once each and in order, its response is there once, and nothing is written after the handler has returned.
func execC09PostStream(c C09Case) *Failure {
	w := padWorld(ModeSS, WorldOpt{})
	defer w.Close()
	w.Srv.RegisterTool(mcp.NewTool("padnote", mcp.WithString("pad"), mcp.WithString("nonce"), mcp.WithNumber("k")), func(ctx context.Context, req *mcp.CallToolRequest) (*mcp.CallToolResult, error) {
		n, _ := req.Params.Arguments["nonce"].(string)
		p, _ := req.Params.Arguments["pad"].(string)
		k, _ := req.Params.Arguments["k"].(float64)
		if sender, ok := mcp.GetNotificationSender(ctx); ok {
			for i := 0; i < int(k); i++ {
				sender.SendCustomNotification("notifications/in-call", map[string]interface{}{"nonce": fmt.Sprintf("%s-%d", n, i), "pad": p})
				if i%2 == 0 {
					runtime.Gosched()
				} else {
					time.Sleep(40 * time.Microsecond)
				}
			}
		}
		return mcp.NewTextResult(n + "|" + p), nil
	})
	conn, err := w.Connect()
	if err != nil {
		return Failf("C09/connect", "%v", err)
	}
	nPosts := 1 + c.Writers/4
	if nPosts > 6 {
		nPosts = 6
	}
	senders := c.Writers
	if senders > 12 {
		senders = 12
	}
	hdr := map[string]string{"Content-Type": "application/json", "Accept": "application/json, text/event-stream", "Mcp-Session-Id": conn.SessionID}
	for round := 0; round < c.Rounds; round++ {
		var sentMu sync.Mutex
		sent := map[string]bool{}
		var posts []*LiveResp
		for pi := 0; pi < nPosts; pi++ {
			nonce := fmt.Sprintf("P%dr%d", pi, round)
			body, _ := json.Marshal(map[string]interface{}{"jsonrpc": "2.0", "id": 100 + pi, "method": "tools/call",
				"params": map[string]interface{}{"name": "padnote", "arguments": map[string]interface{}{"nonce": nonce, "pad": padOf(c, pi), "k": 1 + (pi+round)%4}}})
			pi := pi
			lr := StartLive(w.Srv.Handler(), "POST", "http://verif/mcp", hdr, body, func(kind string, n int) {
				// widen every write a little
				if len(c.Jitter) > 0 {
					if j := c.Jitter[(pi+n)%len(c.Jitter)]; j > 0 {
						time.Sleep(time.Duration(j) * 20 * time.Microsecond)
						return
					}
				}
				runtime.Gosched()
			})
			posts = append(posts, lr)
		}
		stop := make(chan struct{})
		var wg sync.WaitGroup
		for si := 0; si < senders; si++ {
			wg.Add(1)
			go func(si int) {
				defer wg.Done()
				for n := 0; ; n++ {
					select {
					case <-stop:
						return
					default:
					}
					nonce := fmt.Sprintf("S%dr%dn%d", si, round, n)
					sentMu.Lock()
					sent[nonce] = true
					sentMu.Unlock()
					params := map[string]interface{}{"nonce": nonce, "pad": padOf(c, si)}
					if si%3 == 2 {
						w.Srv.BroadcastNotification("notifications/session-note", params)
					} else {
						w.Srv.SendNotification(conn.SessionID, "notifications/session-note", params)
					}
					if n%4 == 3 {
						time.Sleep(30 * time.Microsecond)
					}
				}
			}(si)
		}
		allBack := true
		for _, lr := range posts {
			if !lr.WaitReturned(Patience() + 2*time.Second) {
				allBack = false
			}
		}
		close(stop)
		wg.Wait()
		where := fmt.Sprintf("session without a listening stream, %d requests answered as event streams while %d goroutines send to the session (sizes %v, class %s), round %d", nPosts, senders, c.Sizes, c.Class, round)
		if !allBack {
			for _, lr := range posts {
				lr.PeerGone()
			}
			return TimingFailf("C09/post-stream/request-does-not-return", "%s: a request had not returned %v later", where, Patience()+2*time.Second)
		}
		time.Sleep(2 * time.Millisecond) // a writer that outlives its handler shows as a late write
		for pi, lr := range posts {
			status, _, body, _, pan, late := lr.Snapshot()
			if pan != nil {
				return Failf("C09/post-stream/panic", "%s: request %d: %v", where, pi, pan)
			}
			if n := atomic.LoadInt64(&lr.Overlaps); n > 0 {
				return Failf("C09/post-stream/concurrent-writes", "%s: the answer stream of request %d was written (or flushed) by two goroutines at once, %d times", where, pi, n)
			}
			if late > 0 {
				return Failf("C09/post-stream/write-after-return", "%s: %d writes to the answer stream of request %d after its handler had returned", where, late, pi)
			}
			nonce := fmt.Sprintf("P%dr%d", pi, round)
			wantK := 1 + (pi+round)%4
			evs := lr.Events()
			if status != 200 || len(evs) == 0 {
				return Failf("C09/post-stream/no-answer", "%s: request %d answered with status %d and %d events: %.200q", where, pi, status, len(evs), body)
			}
			nextOwn, responses := 0, 0
			seenNote := map[string]bool{}
			for ei, e := range evs {
				var m struct {
					ID     json.RawMessage `json:"id"`
					Method string          `json:"method"`
					Params struct {
						Nonce string `json:"nonce"`
						Pad   string `json:"pad"`
					} `json:"params"`
					Result *struct {
						Content []struct {
							Text string `json:"text"`
						} `json:"content"`
					} `json:"result"`
				}
				if err := json.Unmarshal([]byte(e.Data), &m); err != nil {
					return Failf("C09/post-stream/torn-event", "%s: event %d of request %d does not parse on its own (%v): %.200q", where, ei, pi, err, e.Data)
				}
				switch {
				case m.Result != nil:
					responses++
					if string(m.ID) != fmt.Sprint(100+pi) || len(m.Result.Content) != 1 || m.Result.Content[0].Text != nonce+"|"+padOf(c, pi) {
						return Failf("C09/post-stream/foreign-or-damaged-response", "%s: request %d (id %d) carries the response %.200q", where, pi, 100+pi, e.Data)
					}
					if ei != len(evs)-1 {
						return Failf("C09/post-stream/event-after-response", "%s: request %d: %d events follow the response", where, pi, len(evs)-1-ei)
					}
				case m.Method == "notifications/in-call":
					if m.Params.Nonce != fmt.Sprintf("%s-%d", nonce, nextOwn) || m.Params.Pad != padOf(c, pi) {
						return Failf("C09/post-stream/message-multiset", "%s: request %d: in-call notification %d arrived as nonce %q (pad %d bytes)", where, pi, nextOwn, m.Params.Nonce, len(m.Params.Pad))
					}
					nextOwn++
				case m.Method == "notifications/session-note":
					sentMu.Lock()
					ok := sent[m.Params.Nonce]
					sentMu.Unlock()
					if !ok || seenNote[m.Params.Nonce] {
						return Failf("C09/post-stream/message-multiset", "%s: request %d carries the session notification %q (sent: %v, already seen on this stream: %v)", where, pi, m.Params.Nonce, ok, seenNote[m.Params.Nonce])
					}
					seenNote[m.Params.Nonce] = true
				default:
					return Failf("C09/post-stream/unknown-message", "%s: request %d carries %.200q", where, pi, e.Data)
				}
			}
			if responses != 1 || nextOwn != wantK {
				return Failf("C09/post-stream/message-multiset", "%s: request %d: %d responses and %d of its %d in-call notifications recovered from %d events", where, pi, responses, nextOwn, wantK, len(evs))
			}
		}
	}
	return nil
}

// execC09GetReconnect: senders are parked behind a slow write on the session's listening stream when the client opens a
// second stream for the session; more senders then write to the new stream while the parked ones get their turn. Every
// frame on either stream must parse on its own, and a message whose send succeeded is on exactly one of them, once.
func execC09GetReconnect(c C09Case) *Failure {
	w := padWorld(ModeSJ, WorldOpt{})
	defer w.Close()
	conn, err := w.Connect()
	if err != nil {
		return Failf("C09/connect", "%v", err)
	}
	hdr := map[string]string{"Accept": "text/event-stream", "Mcp-Session-Id": conn.SessionID}
	var hold atomic.Bool
	gate := make(chan struct{})
	old := StartLive(w.Srv.Handler(), "GET", "http://verif/mcp", hdr, nil, func(kind string, n int) {
		if hold.Load() {
			<-gate
		}
	})
	released := false
	release := func() {
		if !released {
			released = true
			close(gate)
		}
	}
	defer func() { release(); old.PeerGone() }()
	if !old.WaitFlushedHeader(2 * time.Second) {
		return TimingFailf("C09/get-not-open", "stream did not open")
	}
	waitRegistered(w.Srv, 1)
	parked := c.Writers/2 + 1
	fresh := c.Writers - parked + 1
	type sent struct {
		nonce string
		err   error
	}
	var mu sync.Mutex
	var all []sent
	send := func(nonce string, size int, wg *sync.WaitGroup) {
		defer wg.Done()
		e := w.Srv.SendNotification(conn.SessionID, "notifications/verif", map[string]interface{}{"nonce": nonce, "pad": StrSpec{Class: c.Class, N: size, Seed: len(nonce)}.Expand()})
		mu.Lock()
		all = append(all, sent{nonce, e})
		mu.Unlock()
	}
	hold.Store(true)
	var wg sync.WaitGroup
	for i := 0; i < parked; i++ {
		wg.Add(1)
		go send(fmt.Sprintf("P%dx", i), c.Sizes[i%len(c.Sizes)]%9000, &wg)
	}
	time.Sleep(2 * time.Millisecond) // one sender is inside its write, the others wait for the stream's lock
	jit := 0
	hdr2 := map[string]string{}
	for k, v := range hdr {
		hdr2[k] = v
	}
	if c.Writers%2 == 1 {
		// the client resumes: the server announces the resumption on the new stream while senders are already writing to it
		hdr2["Last-Event-Id"] = "evt-1-1"
	}
	neu := StartLive(w.Srv.Handler(), "GET", "http://verif/mcp", hdr2, nil, func(kind string, n int) {
		if len(c.Jitter) > 0 {
			jit++
			time.Sleep(time.Duration(c.Jitter[jit%len(c.Jitter)]) * 20 * time.Microsecond)
		}
	})
	defer neu.PeerGone()
	if !neu.WaitFlushedHeader(2 * time.Second) {
		return TimingFailf("C09/get-not-open", "the second stream of the session did not open")
	}
	for r := 0; r < c.Rounds; r++ {
		for i := 0; i < fresh; i++ {
			wg.Add(1)
			go send(fmt.Sprintf("F%dr%dx", i, r), c.Sizes[(i+r)%len(c.Sizes)]%9000, &wg)
		}
		if r == 0 {
			time.Sleep(500 * time.Microsecond)
			release() // the parked senders get their turn while the new stream is being written
		}
	}
	wg.Wait()
	time.Sleep(3 * time.Millisecond)
	where := fmt.Sprintf("GET stream replaced with %d senders parked behind a stalled write, then %d x %d senders (sizes %v, class %s; overlapping writes old=%d new=%d)", parked, fresh, c.Rounds, c.Sizes, c.Class, old.Overlaps, neu.Overlaps)
	seen := map[string]int{}
	for si, lr := range []*LiveResp{old, neu} {
		for i, e := range lr.Events() {
			var m struct {
				Method string `json:"method"`
				Params struct {
					Nonce string `json:"nonce"`
				} `json:"params"`
			}
			if err := json.Unmarshal([]byte(e.Data), &m); err != nil || (m.Params.Nonce == "" && m.Method != "stream/resumed") {
				return Failf("C09/get-stream/torn-event", "%s: event %d of stream %d does not parse on its own (%v): %.200q", where, i, si+1, err, e.Data)
			}
			if m.Method == "stream/resumed" {
				continue
			}
			seen[m.Params.Nonce]++
		}
		if _, _, body, _, _, _ := lr.Snapshot(); len(lr.Events()) == 0 && bytes.Contains(body, []byte("data:")) && !bytes.HasSuffix(body, []byte("\n\n")) {
			return Failf("C09/get-stream/torn-event", "%s: stream %d ends inside a frame: %.200q", where, si+1, body)
		}
	}
	if n := old.Overlaps + neu.Overlaps; n > 0 {
		return Failf("C09/get-stream/concurrent-writes", "%s: %d Write calls on one stream overlapped in time", where, n)
	}
	for _, m := range all {
		n := seen[m.nonce]
		if n > 1 || (m.err == nil && n != 1) {
			return TimingFailf("C09/get-stream/message-multiset", "%s: notification %s (send error: %v) recovered %d times from the two streams", where, m.nonce, m.err, n)
		}
	}
	return nil
}

func waitRegistered(srv interface{}, n int) {
	deadline := time.Now().Add(2 * time.Second)
	for mcp.VerifStreamCount(srv) < n && time.Now().Before(deadline) {
		time.Sleep(200 * time.Microsecond)
	}
}

func execC09Legacy(c C09Case) *Failure {
	w := padWorld(ModeLegacy, WorldOpt{SSEOpts: []mcp.SSEOption{mcp.WithKeepAliveInterval(time.Millisecond)}})
	defer w.Close()
	conn, err := w.Connect()
	if err != nil {
		return Failf("C09/connect", "%v", err)
	}
	defer conn.Close()
	before := len(conn.stream.Events())
	var wg sync.WaitGroup
	total := 0
	for r := 0; r < c.Rounds; r++ {
		for i := 0; i < c.Writers; i++ {
			total++
			wg.Add(1)
			go func(i, r int) {
				defer wg.Done()
				w.peer.Do("POST", conn.endpoint, map[string]string{"Content-Type": "application/json"}, padRequest(fmt.Sprintf("%d", r*1000+i+1), fmt.Sprintf("N%dx%d", i, r), padOf(c, i)), 10*time.Second)
			}(i, r)
		}
		wg.Wait()
	}
	if total > 90 {
		total = 90 // the event queue holds 100 frames; beyond that is C01's business
	}
	evs := conn.stream.WaitEvents(before+total, Patience())
	conn.stream.WaitQuiet(5*time.Millisecond, 100*time.Millisecond)
	evs = conn.stream.Events()
	where := fmt.Sprintf("legacy SSE stream, %d concurrent responses x %d with 1 ms keep-alive comments (%d comments seen, sizes %v, class %s)", c.Writers, c.Rounds, len(conn.stream.Comments()), c.Sizes, c.Class)
	seen := map[string]int{}
	for i, e := range evs[before:] {
		if e.Event != "message" {
			return Failf("C09/legacy/unexpected-event", "%s: event %d has type %q data %.100q", where, i, e.Event, e.Data)
		}
		var m map[string]json.RawMessage
		if err := json.Unmarshal([]byte(e.Data), &m); err != nil {
			return Failf("C09/legacy/torn-event", "%s: event %d does not parse on its own (%v): %.200q", where, i, err, e.Data)
		}
		seen[string(m["id"])]++
	}
	for _, cm := range conn.stream.Comments() {
		if t := strings.TrimSpace(cm); t != "keepalive" && t != "connection established" {
			return Failf("C09/legacy/torn-comment", "%s: comment %.100q", where, cm)
		}
	}
	if c.Writers*c.Rounds <= 90 {
		for r := 0; r < c.Rounds; r++ {
			for i := 0; i < c.Writers; i++ {
				if n := seen[fmt.Sprintf("%d", r*1000+i+1)]; n != 1 {
					return TimingFailf("C09/legacy/message-multiset", "%s: response %d recovered %d times", where, r*1000+i+1, n)
				}
			}
		}
	}
	return nil
}

// execC09StdioClient: the client's request writer against its error-answer writer, recorded by the child.
func execC09StdioClient(c C09Case) *Failure {
	dir, _ := os.MkdirTemp("", "c09")
	defer os.RemoveAll(dir)
	logPath := filepath.Join(dir, "child.log")
	// the child answers every tools/call normally and, before each answer, issues an unknown server->client request
	plan := map[string][]FakeAction{}
	var acts []FakeAction
	for i := 0; i < c.Writers*c.Rounds+4; i++ {
		acts = append(acts, FakeAction{Kind: "raw", Raw: fmt.Sprintf(`{"jsonrpc":"2.0","id":"srv%d","method":"verif/unknown-%s"}`+"\n"+`{"jsonrpc":"2.0","id":{{id}},"result":{"content":[{"type":"text","text":"ok"}]}}`+"\n", i, strings.Repeat("u", 3000))})
	}
	plan["request:tools/call"] = acts
	cfg := mcp.StdioTransportConfig{ServerParams: ChildCommand(ChildSpec{Role: "fake", Log: logPath, Plan: plan}), Timeout: 10 * time.Second}
	cl, err := mcp.NewStdioClient(cfg, mcp.Implementation{Name: "c", Version: "1"}, mcp.WithStdioLogger(nopLogger{}))
	if err != nil {
		return Failf("C09/new-client", "%v", err)
	}
	defer cl.Close()
	ctx, cancel := context.WithTimeout(context.Background(), 20*time.Second)
	defer cancel()
	if _, err := cl.Initialize(ctx, &mcp.InitializeRequest{}); err != nil {
		return Failf("C09/handshake", "%v", err)
	}
	var wg sync.WaitGroup
	for i := 0; i < c.Writers; i++ {
		wg.Add(1)
		go func(i int) {
			defer wg.Done()
			for r := 0; r < c.Rounds; r++ {
				req := &mcp.CallToolRequest{}
				req.Params.Name = "pad"
				req.Params.Arguments = map[string]interface{}{"nonce": fmt.Sprintf("N%dx%d", i, r), "pad": padOf(c, i)}
				cl.CallTool(ctx, req)
			}
		}(i)
	}
	wg.Wait()
	time.Sleep(30 * time.Millisecond)
	lines := ChildLogLines(logPath)
	where := fmt.Sprintf("stdio client, %d goroutines calling while the server issues unknown requests (sizes %v)", c.Writers, c.Sizes)
	for i, l := range lines {
		var m map[string]json.RawMessage
		if err := json.Unmarshal([]byte(l), &m); err != nil {
			return Failf("C09/stdio-client-unlocked-error-writer", "%s: line %d received by the child does not parse on its own (%v): %.200q", where, i, err, l)
		}
	}
	return nil
}

func TestC09(t *testing.T) {
	RunProp(t, Prop[C09Case]{ID: "C09", Gen: genC09, Exec: execC09, NT: ntC09})
}

var _ = sort.Strings
