package harness

import (
	"context"
	"encoding/json"
	"fmt"
	"sort"
	"testing"

	"pgregory.net/rapid"
	mcp "trpc.group/trpc-go/trpc-mcp-go"
)

// C18Tools: several tools are built from the same struct types, in the three styles, some with further properties added
// by builder options after the struct schema was generated, and registered one after the other. Each tool's schema is
// its own: (1) a tool built from the struct alone names exactly the struct's JSON fields, however many tools were
// built from that struct before or after it and whatever was added to them; (2) the schema a tool had when it was
// registered is the one it still has after the other tools were built, and (3) the one a client reads from tools/list,
// as JSON; (4) what a builder option added shows up in that tool only.

type C18ToolSpec struct {
	Struct int      `json:"struct"` // 0 typedInput, 1 typedInner, 2 typedOutput
	Style  int      `json:"style"`  // 0 default, 1 inline, 2 $defs, 3 nested
	Extras []string `json:"extras"` // properties added with builder options after the struct schema (name; a trailing ! = required)
	Output bool     `json:"output"` // also an output schema from the same struct
}

type C18ToolsCase struct {
	Mode   Mode          `json:"mode"`
	Tools  []C18ToolSpec `json:"tools"`
	Filter bool          `json:"filter,omitempty"` // the server has a tool list filter (one that lets everything through)
}

var c18StructFields = [][]string{
	{"query", "limit", "big", "ratio", "flag", "tags", "labels", "filter", "nested", "scores", "matrix"},
	{"label", "tags"},
	{"echo"},
}

func c18StyleOpts(style int) []mcp.SchemaOption {
	switch style {
	case 1:
		return []mcp.SchemaOption{mcp.WithInlineStyle()}
	case 2:
		return []mcp.SchemaOption{mcp.WithRefStyle()}
	case 3:
		return []mcp.SchemaOption{mcp.WithNestedRefStyle()}
	}
	return nil
}

func execC18Tools(c C18ToolsCase) *Failure {
	var wo WorldOpt
	if c.Filter {
		pass := func(ctx context.Context, tools []*mcp.Tool) []*mcp.Tool { return tools }
		wo.ServerOpts = append(wo.ServerOpts, mcp.WithToolListFilter(pass))
		wo.SSEOpts = append(wo.SSEOpts, mcp.WithSSEToolListFilter(pass))
	}
	w := NewWorld(c.Mode, RegSpec{}, wo)
	defer w.Close()
	reg := RegistrarOf(serverOf(w))
	type built struct {
		tool *mcp.Tool
		snap string // JSON of the input schema when the tool was registered
		out  string
		spec C18ToolSpec
	}
	var tools []built
	handler := func(ctx context.Context, req *mcp.CallToolRequest) (*mcp.CallToolResult, error) {
		return mcp.NewTextResult("ok"), nil
	}
	for i, ts := range c.Tools {
		var opts []mcp.ToolOption
		so := c18StyleOpts(ts.Style)
		switch ts.Struct {
		case 0:
			opts = append(opts, mcp.WithInputStruct[typedInput](so...))
		case 1:
			opts = append(opts, mcp.WithInputStruct[typedInner](so...))
		default:
			opts = append(opts, mcp.WithInputStruct[typedOutput](so...))
		}
		if ts.Output {
			switch ts.Struct {
			case 0:
				opts = append(opts, mcp.WithOutputStruct[typedInput](so...))
			case 1:
				opts = append(opts, mcp.WithOutputStruct[typedInner](so...))
			default:
				opts = append(opts, mcp.WithOutputStruct[typedOutput](so...))
			}
		}
		for _, e := range ts.Extras {
			name, req := e, false
			if len(e) > 0 && e[len(e)-1] == '!' {
				name, req = e[:len(e)-1], true
			}
			if req {
				opts = append(opts, mcp.WithString(name, mcp.Required(), mcp.Description("added to tool "+fmt.Sprint(i))))
			} else {
				opts = append(opts, mcp.WithInteger(name, mcp.Description("added to tool "+fmt.Sprint(i))))
			}
		}
		tool := mcp.NewTool(fmt.Sprintf("tool%d", i), opts...)
		reg.RegisterTool(tool, handler)
		b, _ := json.Marshal(tool.InputSchema)
		ob, _ := json.Marshal(tool.OutputSchema)
		tools = append(tools, built{tool, string(b), string(ob), ts})
	}
	props := func(schemaJSON string) ([]string, []string) {
		// the root may be a $ref into $defs: judge the node it resolves to
		var names, required []string
		doc, err := ParseSchema([]byte(schemaJSON))
		if err != nil {
			return nil, nil
		}
		// (JSON Schema 2020-12 applies a $ref and its sibling keywords together: what a builder option adds next to a
		// root $ref counts like what the referenced definition declares)
		nodes := []map[string]interface{}{}
		if rm, ok := doc.Root.(map[string]interface{}); ok {
			nodes = append(nodes, rm)
			if _, isRef := rm["$ref"]; isRef {
				if node, err := schemaNode(doc, doc.Root, 0); err == nil {
					nodes = append(nodes, node)
				}
			}
		}
		for _, node := range nodes {
			if pm, ok := node["properties"].(map[string]interface{}); ok {
				for k := range pm {
					names = append(names, k)
				}
			}
			if rl, ok := node["required"].([]interface{}); ok {
				for _, r := range rl {
					if s, ok := r.(string); ok {
						required = append(required, s)
					}
				}
			}
		}
		return uniqSorted(names), uniqSorted(required)
	}
	for i, b := range tools {
		where := fmt.Sprintf("%s tool %d of %+v", c.Mode, i, c.Tools)
		now, _ := json.Marshal(b.tool.InputSchema)
		if !jsonEqualText(string(now), b.snap) {
			return Failf("C18/tools/schema-changed-after-registration", "%s: the input schema it was registered with was %s, after the other tools were built it is %s", where, b.snap, now)
		}
		onow, _ := json.Marshal(b.tool.OutputSchema)
		if !jsonEqualText(string(onow), b.out) {
			return Failf("C18/tools/schema-changed-after-registration", "%s: the output schema it was registered with was %s, after the other tools were built it is %s", where, b.out, onow)
		}
		want := append([]string(nil), c18StructFields[b.spec.Struct]...)
		var wantReq []string
		for _, e := range b.spec.Extras {
			if e[len(e)-1] == '!' {
				want = append(want, e[:len(e)-1])
				wantReq = append(wantReq, e[:len(e)-1])
			} else {
				want = append(want, e)
			}
		}
		want = uniqSorted(want)
		got, gotReq := props(b.snap)
		if fmt.Sprint(got) != fmt.Sprint(want) {
			return Failf("C18/tools/field-names", "%s: its input schema names %v, the struct's JSON fields plus its own additions are %v", where, got, want)
		}
		for _, r := range wantReq {
			found := false
			for _, g := range gotReq {
				if g == r {
					found = true
				}
			}
			if !found {
				return Failf("C18/tools/required", "%s: %q was added as required, the schema requires %v", where, r, gotReq)
			}
		}
		for _, g := range gotReq {
			ok := false
			for _, n := range got {
				if n == g {
					ok = true
				}
			}
			if !ok {
				return Failf("C18/tools/required", "%s: the schema requires %q, which is not one of its properties %v", where, g, got)
			}
		}
		if b.spec.Output {
			og, _ := props(b.out)
			if fmt.Sprint(og) != fmt.Sprint(uniqSorted(append([]string(nil), c18StructFields[b.spec.Struct]...))) {
				return Failf("C18/tools/field-names", "%s: its output schema names %v, the struct's JSON fields are %v", where, og, c18StructFields[b.spec.Struct])
			}
		}
	}
	// what a client reads
	conn, err := w.Connect()
	if err != nil {
		return Failf("C18/typed/connect", "%v", err)
	}
	defer conn.Close()
	ex := conn.Send([]byte(`{"jsonrpc":"2.0","id":"l","method":"tools/list"}`), `"l"`, Bound()*4)
	if len(ex.Frames) != 1 {
		return TimingFailf("C18/typed/no-call", "%s: tools/list: %d frames", c.Mode, len(ex.Frames))
	}
	var m struct {
		Result struct {
			Tools []struct {
				Name         string          `json:"name"`
				InputSchema  json.RawMessage `json:"inputSchema"`
				OutputSchema json.RawMessage `json:"outputSchema"`
			} `json:"tools"`
		} `json:"result"`
	}
	json.Unmarshal(ex.Frames[0], &m)
	seen := 0
	for _, lt := range m.Result.Tools {
		for i, b := range tools {
			if lt.Name != b.tool.Name {
				continue
			}
			seen++
			if !jsonEqualText(string(lt.InputSchema), b.snap) {
				return Failf("C18/typed/list-schema", "%s tool %d of %+v: tools/list carries input schema %s, registered %s", c.Mode, i, c.Tools, lt.InputSchema, b.snap)
			}
			if b.spec.Output && !jsonEqualText(string(lt.OutputSchema), b.out) {
				return Failf("C18/typed/list-schema", "%s tool %d of %+v: tools/list carries output schema %s, registered %s", c.Mode, i, c.Tools, lt.OutputSchema, b.out)
			}
		}
	}
	if seen != len(tools) {
		return Failf("C18/typed/list-schema", "%s: tools/list shows %d of the %d registered tools", c.Mode, seen, len(tools))
	}
	return nil
}

func uniqSorted(xs []string) []string {
	sort.Strings(xs)
	var out []string
	for i, x := range xs {
		if i == 0 || x != xs[i-1] {
			out = append(out, x)
		}
	}
	return out
}

func jsonEqualText(a, b string) bool {
	x, e1 := DecodeJSON([]byte(a))
	y, e2 := DecodeJSON([]byte(b))
	return e1 == nil && e2 == nil && jsonEqual(x, y)
}

func TestC18Tools(t *testing.T) {
	RunProp(t, Prop[C18ToolsCase]{ID: "C18",
		Gen: func(t *rapid.T) C18ToolsCase {
			c := C18ToolsCase{Mode: Mode(rapid.SampledFrom([]int{0, 1, 2, 5, 6}).Draw(t, "mode")), Filter: rapid.Bool().Draw(t, "filter")}
			n := rapid.IntRange(1, 5).Draw(t, "ntools")
			for i := 0; i < n; i++ {
				ts := C18ToolSpec{Struct: rapid.SampledFrom([]int{0, 0, 1, 2}).Draw(t, "struct"), Style: rapid.SampledFrom([]int{0, 0, 1, 2, 3}).Draw(t, "style"), Output: rapid.IntRange(0, 2).Draw(t, "output") == 0}
				k := rapid.SampledFrom([]int{0, 0, 1, 2, 3}).Draw(t, "nextras")
				for j := 0; j < k; j++ {
					ts.Extras = append(ts.Extras, rapid.SampledFrom([]string{"extra", "extra!", "more", "more!", "x_1", "zz!", "also!"}).Draw(t, "extra"))
				}
				// one name once per tool
				seen := map[string]bool{}
				var ex []string
				for _, e := range ts.Extras {
					n := e
					if n[len(n)-1] == '!' {
						n = n[:len(n)-1]
					}
					if !seen[n] {
						seen[n] = true
						ex = append(ex, e)
					}
				}
				ts.Extras = ex
				c.Tools = append(c.Tools, ts)
			}
			return c
		},
		Exec: execC18Tools,
		NT: func(c C18ToolsCase) (bool, []string) {
			same := false
			for i := range c.Tools {
				for j := 0; j < i; j++ {
					if c.Tools[i].Struct == c.Tools[j].Struct {
						same = true
					}
				}
			}
			return same, []string{"mode=" + c.Mode.String(), fmt.Sprintf("tools=%d", len(c.Tools))}
		}})
}
