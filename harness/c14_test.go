package harness

import (
	"context"
	"encoding/json"
	"time"

	"fmt"
	"sort"
	"strings"
	"testing"
	mcp "trpc.group/trpc-go/trpc-mcp-go"

	"pgregory.net/rapid"
)

// C14: all transports answer alike (server half: raw peers against every server kind / mode).

type C14Case struct {
	Reg   RegSpec   `json:"reg"`
	Steps []ReqStep `json:"steps"`
	// Redef: after the steps the registered entries are listed, one tool, prompt and resource is registered again under its name
	// with a new definition (the same on every server), and they are listed and used once more
	Redef bool `json:"redef,omitempty"`
}

func genC14(t *rapid.T) C14Case {
	c := C14Case{Reg: GenRegSpec(t, []int{OutOK, OutOK, OutGoErr, OutIsError, OutCtxDeadline, OutCtxCanceled, OutUnencodable, OutUnencChan}, true)}
	n := rapid.IntRange(1, 6).Draw(t, "nsteps")
	for i := 0; i < n; i++ {
		method := rapid.SampledFrom(CommonMethods).Draw(t, "method")
		var id *OJ
		if rapid.Bool().Draw(t, "strid") {
			id = oStr(rapid.SampledFrom([]string{"a", "1", "", "id-é", "x%y", "9007199254740993"}).Draw(t, "sid"))
		} else {
			id = oInt(rapid.SampledFrom([]int64{0, 1, 7, -3, 1 << 40, 1<<53 - 1}).Draw(t, "iid"))
		}
		target := targetFor(t, method, c.Reg)
		nonce := fmt.Sprintf("n%d-%d", i, rapid.IntRange(0, 999).Draw(t, "nonce"))
		tmpl := Template(method, id, target, nonce)
		st := MakeStep(method, tmpl, "none", nil, "", target, nonce)
		if rapid.IntRange(0, 99).Draw(t, "mutate?") < 50 {
			// parameters valid or not: mutate only inside params (the envelope stays well-formed)
			var paths [][]string
			for _, p := range mutablePaths(tmpl) {
				if p[0] == "params" {
					paths = append(paths, p)
				}
			}
			if len(paths) > 0 {
				p := paths[rapid.IntRange(0, len(paths)-1).Draw(t, "path")]
				mut := rapid.SampledFrom([]string{"remove", "retype", "retype", "addkey"}).Draw(t, "mut")
				nt := rapid.SampledFrom(retypeNames).Draw(t, "newtype")
				pp := p
				if mut == "addkey" {
					pp = append(append([]string(nil), p[:len(p)-1]...), "zz")
				}
				if r, ok := ApplyMutation(tmpl, mut, pp, nt); ok {
					st = MakeStep(method, r, mut, p, nt, target, nonce)
				}
			}
		}
		c.Steps = append(c.Steps, st)
	}
	c.Redef = rapid.IntRange(0, 2).Draw(t, "redef") == 0
	return c
}

func ntC14(c C14Case) (bool, []string) {
	invalid := false
	labels := []string{}
	for _, st := range c.Steps {
		labels = append(labels, "method="+st.Method, "mut="+st.Mut)
		if st.Mut != "none" {
			invalid = true
		}
	}
	pop := 0
	if len(c.Reg.Tools) > 0 {
		pop++
	}
	if len(c.Reg.Prompts) > 0 {
		pop++
	}
	if len(c.Reg.Resources) > 0 {
		pop++
	}
	return invalid || pop >= 2, labels
}

func sortListed(v interface{}) {
	m, ok := v.(map[string]interface{})
	if !ok {
		return
	}
	for _, key := range []string{"tools", "prompts", "resources"} {
		if l, ok := m[key].([]interface{}); ok {
			sort.SliceStable(l, func(i, j int) bool {
				a, _ := l[i].(map[string]interface{})
				b, _ := l[j].(map[string]interface{})
				return fmt.Sprint(a["name"], a["uri"]) < fmt.Sprint(b["name"], b["uri"])
			})
		}
	}
}

// normalOutcome reduces an exchange to "result <canonical json>" / "error <code>" / a description of anything else.
func normalOutcome(ex Exchange, st ReqStep) string {
	if ex.Err != nil {
		return "transport-error " + ex.Err.Error()
	}
	var resp []string
	for _, fr := range ex.Frames {
		v, err := DecodeJSON(fr)
		if err != nil {
			return fmt.Sprintf("bad-frame %.80q", fr)
		}
		m, _ := v.(map[string]interface{})
		if m == nil {
			return fmt.Sprintf("bad-frame %.80q", fr)
		}
		if e, ok := m["error"].(map[string]interface{}); ok {
			resp = append(resp, fmt.Sprintf("error %v id=%v", e["code"], canonJSON(m["id"])))
		} else if r, ok := m["result"]; ok {
			sortListed(r)
			resp = append(resp, fmt.Sprintf("result %s id=%v", canonJSON(r), canonJSON(m["id"])))
		} else {
			resp = append(resp, fmt.Sprintf("other-frame %.80q", fr))
		}
	}
	if len(resp) == 0 {
		if ex.Status >= 400 {
			return fmt.Sprintf("http-%d", ex.Status)
		}
		return "no-answer"
	}
	return strings.Join(resp, " | ")
}

func canonJSON(v interface{}) string {
	b, _ := json.Marshal(canon(v))
	return string(b)
}

func execC14(c C14Case) *Failure {
	outcomes := make([][]string, NumModes)
	redef := make([][]string, NumModes)
	for m := Mode(0); m < NumModes; m++ {
		w := NewWorld(m, c.Reg, WorldOpt{})
		conn, err := w.Connect()
		if err != nil {
			w.Close()
			return Failf("C14/connect", "%s: %v", m, err)
		}
		for _, st := range c.Steps {
			ex := conn.Send([]byte(st.Raw), st.ID, Bound())
			outcomes[m] = append(outcomes[m], normalOutcome(ex, st))
		}
		if c.Redef {
			ask := func(k int, method, params string) {
				id := fmt.Sprintf(`"redef-%d"`, k)
				ex := conn.Send([]byte(fmt.Sprintf(`{"jsonrpc":"2.0","id":%s,"method":%q,"params":%s}`, id, method, params)), id, Bound())
				redef[m] = append(redef[m], method+" "+params+": "+normalOutcome(ex, ReqStep{}))
			}
			lists := []string{"tools/list", "prompts/list", "resources/list"}
			for k, l := range lists {
				ask(k, l, `{}`)
			}
			r := RegistrarOf(serverOf(w))
			tn, pn, ru := "redefined-tool", "redefined-prompt", "file:///redefined"
			if len(c.Reg.Tools) > 0 {
				tn = c.Reg.Tools[0].Name
			}
			if len(c.Reg.Prompts) > 0 {
				pn = c.Reg.Prompts[0].Name
			}
			if len(c.Reg.Resources) > 0 {
				ru = c.Reg.Resources[0].URI
			}
			r.RegisterTool(mcp.NewTool(tn, mcp.WithDescription("defined anew"), mcp.WithString("fresh")), func(ctx context.Context, req *mcp.CallToolRequest) (*mcp.CallToolResult, error) {
				return mcp.NewTextResult("the new tool"), nil
			})
			r.RegisterPrompt(&mcp.Prompt{Name: pn, Description: "defined anew"}, func(ctx context.Context, req *mcp.GetPromptRequest) (*mcp.GetPromptResult, error) {
				return &mcp.GetPromptResult{Description: "the new prompt"}, nil
			})
			r.RegisterResource(&mcp.Resource{URI: ru, Name: "anew", Description: "defined anew"}, func(ctx context.Context, req *mcp.ReadResourceRequest) (mcp.ResourceContents, error) {
				return mcp.TextResourceContents{URI: ru, Text: "the new resource"}, nil
			})
			for k, l := range lists {
				ask(10+k, l, `{}`)
			}
			ask(20, "tools/call", fmt.Sprintf(`{"name":%q,"arguments":{}}`, tn))
			ask(21, "prompts/get", fmt.Sprintf(`{"name":%q}`, pn))
			ask(22, "resources/read", fmt.Sprintf(`{"uri":%q}`, ru))
		}
		conn.Close()
		w.Close()
	}
	for i, st := range c.Steps {
		ref := outcomes[0][i]
		for m := Mode(1); m < NumModes; m++ {
			if outcomes[m][i] != ref {
				f := Failf(fmt.Sprintf("C14/differs/%s/%s", st.Method, mutClass(st)), "request %s is answered differently:\n  %-18s %.400s\n  %-18s %.400s", st.Raw, Mode(0).String()+":", ref, m.String()+":", outcomes[m][i])
				if strings.Contains(outcomes[m][i], "no-answer") || strings.Contains(ref, "no-answer") {
					f.Timing = true
				}
				return f
			}
		}
	}
	for i := range redef[0] {
		for m := Mode(1); m < NumModes; m++ {
			if i < len(redef[m]) && redef[m][i] != redef[0][i] {
				f := Failf("C14/differs/after-redefinition", "with one tool, prompt and resource registered again under its name, request %d of the closing sequence is answered differently:\n  %-18s %.400s\n  %-18s %.400s", i, Mode(0).String()+":", redef[0][i], m.String()+":", redef[m][i])
				f.Timing = strings.Contains(redef[m][i], "no-answer") || strings.Contains(redef[0][i], "no-answer")
				return f
			}
		}
	}
	return nil
}

func TestC14(t *testing.T) {
	RunProp(t, Prop[C14Case]{ID: "C14", Gen: genC14, Exec: execC14, NT: ntC14})
}

// ---------------------------------------------------------------------------
// client half: the library's three clients return equal values for equal server answers

type C14ClientCase struct {
	Reg C02Reg `json:"reg"`
	// HandshakeMs, when set: the handshake is performed under a context with this deadline and the calls are made after
	// the deadline has passed (with contexts of their own): the connection a handshake sets up outlives the handshake's context.
	HandshakeMs int `json:"handshake_ms,omitempty"`
}

func collectClientView(reg C02Reg, cl mcp.Connector) map[string]string {
	ctx, cancel := context.WithTimeout(context.Background(), 60*time.Second)
	defer cancel()
	out := map[string]string{}
	errClass := func(err error) string {
		// the wording of errors is transport specific; what must agree is success vs failure
		return "error"
	}
	if lt, err := cl.ListTools(ctx, &mcp.ListToolsRequest{}); err != nil {
		out["tools/list"] = errClass(err)
	} else {
		var names []string
		for _, t := range lt.Tools {
			a, _ := json.Marshal(t.Annotations)
			names = append(names, t.Name+"|"+t.Description+"|"+string(a)+"|"+canonRaw(t.RawInputSchema)+"|"+canonRaw(t.RawOutputSchema))
		}
		sort.Strings(names)
		out["tools/list"] = strings.Join(names, "\n")
	}
	for _, ts := range reg.Tools {
		req := &mcp.CallToolRequest{}
		req.Params.Name = ts.Name
		req.Params.Arguments = map[string]interface{}{"x": 1}
		if res, err := cl.CallTool(ctx, req); err != nil {
			out["tool:"+ts.Name] = errClass(err)
		} else {
			out["tool:"+ts.Name] = canonJSON(projectToolResult(res))
		}
	}
	for _, ps := range reg.Prompts {
		req := &mcp.GetPromptRequest{}
		req.Params.Name = ps.Name
		if res, err := cl.GetPrompt(ctx, req); err != nil {
			out["prompt:"+ps.Name] = errClass(err)
		} else {
			items := []interface{}{res.Description}
			for _, m := range res.Messages {
				items = append(items, string(m.Role), ProjectContent(m.Content))
			}
			out["prompt:"+ps.Name] = canonJSON(items)
		}
	}
	for _, rs := range reg.Resources {
		req := &mcp.ReadResourceRequest{}
		req.Params.URI = rs.URI
		if res, err := cl.ReadResource(ctx, req); err != nil {
			out["res:"+rs.URI] = errClass(err)
		} else {
			items := []interface{}{}
			for _, cc := range res.Contents {
				items = append(items, projectResource(cc, false))
			}
			out["res:"+rs.URI] = canonJSON(items)
		}
	}
	return out
}

func canonRaw(b json.RawMessage) string {
	if len(b) == 0 {
		return ""
	}
	v, err := DecodeJSON(b)
	if err != nil {
		return string(b)
	}
	return canonJSON(v)
}

func execC14Clients(c C14ClientCase) *Failure {
	modes := []Mode{ModeSJ, ModeSS, ModeLegacy, ModeStdio}
	views := make([]map[string]string, len(modes))
	for i, m := range modes {
		w := NewWorld(m, RegSpec{}, WorldOpt{})
		var srv interface{}
		switch {
		case w.Srv != nil:
			srv = w.Srv
		case w.SSE != nil:
			srv = w.SSE
		default:
			srv = w.Stdio
		}
		if m != ModeStdio {
			registerC02(RegistrarOf(srv), c.Reg, nil)
		}
		var lc *libClient
		var err error
		if c.HandshakeMs > 0 {
			t0 := time.Now()
			lc, err = w.ConnectLibWithin(time.Duration(c.HandshakeMs)*time.Millisecond, false, &ChildSpec{Role: "server", C02: &c.Reg})
			if err != nil {
				// the handshake did not fit into its deadline (a loaded machine): nothing to compare
				w.Close()
				Inconclusive()
				return nil
			}
			time.Sleep(time.Until(t0.Add(time.Duration(c.HandshakeMs+25) * time.Millisecond)))
		} else {
			lc, err = w.ConnectLib(false, &ChildSpec{Role: "server", C02: &c.Reg})
		}
		if err != nil {
			w.Close()
			return Failf("C14/connect", "%s: %v", m, err)
		}
		views[i] = collectClientView(c.Reg, lc.C)
		lc.Close()
		w.Close()
	}
	for _, k := range sortedKeys(views[0]) {
		for i := 1; i < len(modes); i++ {
			if views[i][k] != views[0][k] {
				return Failf("C14/clients-differ/"+strings.SplitN(k, ":", 2)[0], "%s: the %s client returns %.300s, the %s client %.300s", k, modes[0], views[0][k], modes[i], views[i][k])
			}
		}
	}
	return nil
}

func TestC14Clients(t *testing.T) {
	RunProp(t, Prop[C14ClientCase]{ID: "C14",
		Gen: func(t *rapid.T) C14ClientCase {
			c := C14ClientCase{Reg: genC02(t).Reg}
			if rapid.IntRange(0, 7).Draw(t, "late") == 0 {
				c.HandshakeMs = rapid.SampledFrom([]int{150, 300}).Draw(t, "handshakems")
			}
			return c
		},
		Exec: execC14Clients,
		NT: func(c C14ClientCase) (bool, []string) {
			nt, l := ntC02(C02Case{Reg: c.Reg})
			return nt || len(c.Reg.Tools) > 1, l
		}})
}
