// The library declares "go 1.20": a program built by its own module gets the timer-channel semantics of that
// release. The harness module is newer, so the test binary asks for them explicitly.
//
//go:debug asynctimerchan=1
package harness

// TestMain: the test binary re-executes itself as a stdio child ("puppet") when
// VERIF_CHILD is set: either a scripted fake MCP server or the real library
// stdio server with a registration set described in VERIF_CHILD_SPEC.

import (
	"bufio"
	"encoding/json"
	"fmt"
	"os"
	"os/exec"
	"strconv"
	"strings"
	"sync"
	"syscall"
	"testing"
	"time"

	mcp "trpc.group/trpc-go/trpc-mcp-go"
)

// ChildSpec configures the puppet.
type ChildSpec struct {
	Role string `json:"role"` // "fake" or "server"
	Log  string `json:"log,omitempty"`
	// fake: plan["request:initialize"] = actions for the 1st, 2nd, ... occurrence (beyond the list: ok)
	Plan map[string][]FakeAction `json:"plan,omitempty"`
	// fake: bytes written to stdout before anything is read
	Preamble string `json:"preamble,omitempty"`
	// server: registrations
	Reg  RegSpec `json:"reg,omitempty"`
	C02  *C02Reg `json:"c02,omitempty"`
	Slow int     `json:"slow_ms,omitempty"`
	// Helper: the child starts a helper process of its own that inherits its stdout / stderr and outlives it by this many
	// seconds (a launcher-style server: npx, a shell wrapper)
	Helper int `json:"helper_s,omitempty"`
}

func TestMain(m *testing.M) {
	if os.Getenv("VERIF_CHILD") == "helper" {
		// lives until its parent is gone, then a little longer, holding the inherited descriptors open
		linger, _ := strconv.Atoi(os.Getenv("VERIF_HELPER_LINGER"))
		parent := os.Getppid()
		for i := 0; i < 3000 && os.Getppid() == parent; i++ {
			time.Sleep(10 * time.Millisecond)
		}
		time.Sleep(time.Duration(linger) * time.Second)
		os.Exit(0)
	}
	if role := os.Getenv("VERIF_CHILD"); role != "" {
		runChild()
		return
	}
	code := m.Run()
	if sockDir != "" {
		os.RemoveAll(sockDir)
	}
	os.Exit(code)
}

func runChild() {
	var spec ChildSpec
	raw := os.Getenv("VERIF_CHILD_SPEC")
	if strings.HasPrefix(raw, "@") {
		b, err := os.ReadFile(raw[1:])
		if err != nil {
			fmt.Fprintln(os.Stderr, "child spec file:", err)
			os.Exit(3)
		}
		raw = string(b)
	}
	if err := json.Unmarshal([]byte(raw), &spec); err != nil {
		fmt.Fprintln(os.Stderr, "bad child spec:", err)
		os.Exit(3)
	}
	Quiet()
	if spec.Helper > 0 {
		exe, _ := os.Executable()
		h := exec.Command(exe, "-test.run", "^$")
		h.Env = append(os.Environ(), "VERIF_CHILD=helper", fmt.Sprintf("VERIF_HELPER_LINGER=%d", spec.Helper))
		h.Stdout, h.Stderr = os.Stdout, os.Stderr
		h.Start()
	}
	switch spec.Role {
	case "server", "c01":
		srv := mcp.NewStdioServer("verif-child", "1", mcp.WithStdioServerLogger(nopLogger{}))
		w := &World{Calls: map[string]int{}}
		w.Register(RegistrarOf(srv), spec.Reg)
		if spec.Role == "c01" {
			c01Register(w, RegistrarOf(srv))
		}
		if spec.C02 != nil {
			registerC02(RegistrarOf(srv), *spec.C02, nil)
		}
		if err := srv.Start(); err != nil {
			os.Exit(1)
		}
		os.Exit(0)
	default:
		runFakeChild(spec)
	}
}

func runFakeChild(spec ChildSpec) {
	var logf *os.File
	if spec.Log != "" {
		logf, _ = os.OpenFile(spec.Log, os.O_CREATE|os.O_WRONLY|os.O_APPEND, 0o644)
	}
	// stdout is written by a separate goroutine from an unbounded queue: the puppet never stops reading stdin
	var mu sync.Mutex
	cond := sync.NewCond(&mu)
	var queue []string
	go func() {
		for {
			mu.Lock()
			for len(queue) == 0 {
				cond.Wait()
			}
			s := queue[0]
			queue = queue[1:]
			mu.Unlock()
			os.Stdout.WriteString(s)
		}
	}()
	write := func(s string) {
		mu.Lock()
		queue = append(queue, s)
		cond.Broadcast()
		mu.Unlock()
	}
	if spec.Preamble != "" {
		write(spec.Preamble)
	}
	counts := map[string]int{}
	rd := bufio.NewReaderSize(os.Stdin, 1<<20)
	for {
		line, err := rd.ReadString('\n')
		if len(strings.TrimSpace(line)) > 0 {
			if logf != nil {
				logf.WriteString(strings.TrimRight(line, "\n") + "\n")
			}
			var m struct {
				ID     json.RawMessage `json:"id"`
				Method string          `json:"method"`
				Params json.RawMessage `json:"params"`
			}
			json.Unmarshal([]byte(line), &m)
			method, kind := classifyRPC([]byte(line))
			key := kind + ":" + method
			n := counts[key]
			counts[key]++
			act := FakeAction{}
			if l := spec.Plan[key]; n < len(l) {
				act = l[n]
			} else if l := spec.Plan[kind+":*"]; n < len(l) {
				act = l[n]
			}
			switch act.Kind {
			case "fault":
				// part of the answer, then the fault
				body := renderRaw(act.Raw, method, m.ID, m.Params) + "\n"
				cut := act.Cut
				if cut > len(body) {
					cut = len(body)
				}
				os.Stdout.WriteString(body[:cut])
				switch act.Then {
				case "exit0":
					os.Exit(0)
				case "exit3":
					os.Exit(3)
				case "kill9":
					syscall.Kill(os.Getpid(), syscall.SIGKILL)
					time.Sleep(time.Second)
				case "close":
					os.Stdout.Close()
				case "stall":
					// nothing more for this request
				}
			case "exit":
				os.Exit(act.Status)
			case "close-stdout":
				os.Stdout.Close()
			case "sleep":
				time.Sleep(time.Duration(act.Status) * time.Millisecond)
				fallthrough
			default:
				if kind == "request" && act.Kind != "silent" {
					if fr := RenderAnswer(act, method, m.ID, m.Params); fr != "" {
						if act.Kind == "raw" {
							write(renderRaw(act.Raw, method, m.ID, m.Params))
						} else {
							write(fr + "\n")
						}
					}
				} else if act.Kind == "raw" {
					write(RenderAnswer(act, method, m.ID, m.Params))
				}
			}
		}
		if err != nil {
			// drain pending output before leaving
			for i := 0; i < 200; i++ {
				mu.Lock()
				n := len(queue)
				mu.Unlock()
				if n == 0 {
					break
				}
				time.Sleep(5 * time.Millisecond)
			}
			os.Exit(0)
		}
	}
}

// ChildCommand returns the StdioServerParameters that start this test binary as a puppet.
func ChildCommand(spec ChildSpec) mcp.StdioServerParameters {
	b, _ := json.Marshal(spec)
	exe, _ := os.Executable()
	arg := string(b)
	if len(arg) > 8000 {
		f, err := os.CreateTemp(outDir(), "childspec-*.json")
		if err == nil {
			f.Write(b)
			f.Close()
			arg = "@" + f.Name()
		}
	}
	return mcp.StdioServerParameters{Command: exe, Args: []string{"-test.run", "^$"}, Env: map[string]string{"VERIF_CHILD": spec.Role + "x", "VERIF_CHILD_SPEC": arg}}
}

// ChildLogLines counts the lines a fake child has received so far.
func ChildLogLines(path string) []string {
	b, err := os.ReadFile(path)
	if err != nil {
		return nil
	}
	var out []string
	for _, l := range strings.Split(string(b), "\n") {
		if strings.TrimSpace(l) != "" {
			out = append(out, l)
		}
	}
	return out
}
