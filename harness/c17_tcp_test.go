package harness

import (
	"context"
	"encoding/json"
	"fmt"
	"net"
	"net/http"
	"sync"
	"testing"
	"time"

	"pgregory.net/rapid"
	mcp "trpc.group/trpc-go/trpc-mcp-go"
)

// C17TCP: the retry bound over real loopback TCP. The library's HTTP clients (net/http's own keep-alive transport,
// which may replay a request it considers safe to replay) talk to a scripted server whose front reads each attempt of
// the observed call completely and then meets it with the scripted fate: the connection is closed or reset before any
// response byte, a status is returned, or the call is answered. Counted at the server: the attempts of one call are
// exactly those the statement allows - one more after every transient failure, at most MaxRetries+1, one without a
// retry option - and every re-attempt is preceded by one computed wait (attempts = waits + 1).

type C17TCPCase struct {
	Kind   int      `json:"kind"` // 0 streamable, 1 legacy SSE
	Retry  bool     `json:"retry"`
	Max    int      `json:"max"`    // MaxRetries
	Script []string `json:"script"` // per attempt: close reset 503 429 404 ok
	Warm   int      `json:"warm"`   // undisturbed calls before the observed one (they leave a connection in the idle pool)
}

func execC17TCP(c C17TCPCase) *Failure {
	backoffMu.Lock()
	defer backoffMu.Unlock()
	fake := &FakeServer{Legacy: c.Kind == 1, Stateful: c.Kind == 0}
	var mu sync.Mutex
	attempts := 0
	armed := false
	fate := func(i int) string {
		if i < len(c.Script) {
			return c.Script[i]
		}
		return "ok"
	}
	front := http.HandlerFunc(func(rw http.ResponseWriter, r *http.Request) {
		if r.Method != http.MethodPost {
			fake.ServeHTTP(rw, r)
			return
		}
		body, _ := readAllAndRestore(r)
		var m struct {
			Method string `json:"method"`
		}
		json.Unmarshal(body, &m)
		mu.Lock()
		hit := armed && m.Method == "tools/call"
		i := attempts
		if hit {
			attempts++
		}
		mu.Unlock()
		if !hit {
			fake.ServeHTTP(rw, r)
			return
		}
		switch f := fate(i); f {
		case "ok":
			fake.ServeHTTP(rw, r)
		case "close", "reset":
			hj, ok := rw.(http.Hijacker)
			if !ok {
				return
			}
			conn, _, err := hj.Hijack()
			if err != nil {
				return
			}
			if tc, ok := conn.(*net.TCPConn); ok && f == "reset" {
				tc.SetLinger(0)
			}
			conn.Close()
		default:
			st := 503
			fmt.Sscanf(f, "%d", &st)
			http.Error(rw, "scripted status", st)
		}
	})
	ts := ServeTCP(front)
	defer ts.Close()
	opts := []mcp.ClientOption{mcp.WithClientLogger(nopLogger{}), mcp.WithClientGetSSEEnabled(false)}
	max := 0
	if c.Retry {
		opts = append(opts, mcp.WithRetry(mcp.RetryConfig{MaxRetries: c.Max, InitialBackoff: time.Millisecond, BackoffFactor: 2, MaxBackoff: 4 * time.Millisecond}))
		max = validateModel(mcp.VerifRetryConfig{MaxRetries: c.Max, InitialBackoff: time.Millisecond, BackoffFactor: 2, MaxBackoff: 4 * time.Millisecond}).MaxRetries
	}
	var cl *mcp.Client
	var err error
	if c.Kind == 0 {
		cl, err = mcp.NewClient(ts.URL+"/mcp", mcp.Implementation{Name: "c", Version: "1"}, opts...)
	} else {
		cl, err = mcp.NewSSEClient(ts.URL+"/sse", mcp.Implementation{Name: "c", Version: "1"}, opts...)
	}
	if err != nil {
		return Failf("C17/new-client", "%v", err)
	}
	defer cl.Close()
	var waits int
	mcp.VerifSetBackoffObserver(func(d time.Duration) bool { mu.Lock(); waits++; mu.Unlock(); return true })
	defer mcp.VerifSetBackoffObserver(nil)
	ctx, cancel := context.WithTimeout(context.Background(), 20*time.Second)
	defer cancel()
	if _, err := cl.Initialize(ctx, &mcp.InitializeRequest{}); err != nil {
		return Failf("C17/handshake", "tcp kind=%d: %v", c.Kind, err)
	}
	for i := 0; i < c.Warm; i++ {
		if err := doCallCtx(ctx, cl, "ListTools"); err != nil {
			return Failf("C17/handshake", "tcp kind=%d: warm-up call: %v", c.Kind, err)
		}
	}
	mu.Lock()
	armed = true
	waits = 0
	mu.Unlock()
	callErr := doCallCtx(ctx, cl, "CallTool")
	mu.Lock()
	got, gotWaits := attempts, waits
	armed = false
	mu.Unlock()
	// the model: one attempt, and one more after every transient fate while the budget lasts
	want := 0
	ended := ""
	for i := 0; i <= max; i++ {
		want++
		f := fate(i)
		ended = f
		tr := f == "close" || f == "reset" || f == "503" || f == "429"
		if !tr {
			break
		}
	}
	where := fmt.Sprintf("tcp kind=%d retry=%v MaxRetries=%d script=%v after %d warm-up calls: the server received %d attempts of the call (%d waits observed), call error: %v", c.Kind, c.Retry, max, c.Script, c.Warm, got, gotWaits, callErr)
	if got > max+1 {
		return Failf("C17/too-many-attempts", "%s; at most %d allowed", where, max+1)
	}
	if got > want {
		return Failf("C17/unexpected-retry", "%s; the statement allows %d (the last of them ends with %q)", where, want, ended)
	}
	if got < want {
		return Failf("C17/missing-retry", "%s; %d expected (every failure before was transient)", where, want)
	}
	if gotWaits != got-1 {
		return Failf("C17/attempts-without-wait", "%s; every re-attempt is preceded by one computed wait, so %d attempts mean %d waits", where, got, got-1)
	}
	if ended == "ok" && callErr != nil {
		return Failf("C17/call-failed-after-success", "%s", where)
	}
	if ended != "ok" && callErr == nil {
		return Failf("C17/call-succeeded-without-answer", "%s", where)
	}
	return nil
}

func TestC17TCP(t *testing.T) {
	RunProp(t, Prop[C17TCPCase]{ID: "C17",
		Gen: func(t *rapid.T) C17TCPCase {
			c := C17TCPCase{Kind: rapid.IntRange(0, 1).Draw(t, "kind"), Retry: rapid.IntRange(0, 3).Draw(t, "retry") != 0, Max: rapid.IntRange(0, 4).Draw(t, "max"), Warm: rapid.IntRange(0, 2).Draw(t, "warm")}
			n := rapid.IntRange(1, 6).Draw(t, "n")
			for i := 0; i < n; i++ {
				c.Script = append(c.Script, rapid.SampledFrom([]string{"close", "close", "reset", "503", "429", "404", "ok"}).Draw(t, "fate"))
			}
			return c
		},
		Exec: execC17TCP,
		NT: func(c C17TCPCase) (bool, []string) {
			return c.Script[0] != "ok", []string{fmt.Sprintf("kind=%d retry=%v", c.Kind, c.Retry), "first=" + c.Script[0]}
		}})
}
