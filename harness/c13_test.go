package harness

import (
	"context"
	"encoding/json"
	"fmt"
	"net/http"
	"runtime"
	"sort"
	"strings"
	"sync"
	"sync/atomic"
	"testing"
	"time"

	"pgregory.net/rapid"
	mcp "trpc.group/trpc-go/trpc-mcp-go"
)

// C13: request-scoped context never bleeds between concurrent requests.

type C13Req struct {
	Kind string `json:"kind"` // call listtools listprompts listres
	Lat  int    `json:"lat"`
	As   string `json:"as,omitempty"` // when set: this one request carries a token of another class (what the context functions derive is the request's, not the session's)
}

type C13Client struct {
	Class string   `json:"class"` // a b c: which entries the filters admit
	Reqs  []C13Req `json:"reqs"`
}

type C13Case struct {
	Mode     Mode        `json:"mode"` // ModeSJ ModeSS ModeLJ ModeLS ModeLegacy
	CtxFuncs int         `json:"ctxfuncs"`
	IDGen    bool        `json:"idgen,omitempty"` // legacy SSE: the application supplies the session ids; ids of different clients may differ in the case of letters only
	Clients  []C13Client `json:"clients"`
	InPlace  bool        `json:"inplace"`          // filters compact the slice they are handed in place (user code may)
	Repeat   int         `json:"repeat,omitempty"` // every client runs its request list this many more times (bursts of concurrent lists)
	NilOut   bool        `json:"nilout,omitempty"`
	NoFilter int         `json:"nofilter,omitempty"` // bit mask of the registries that have NO list filter configured: 1 tools, 2 prompts, 4 resources // filters build their result with append on a nil slice: a caller admitted to nothing gets a nil slice back
}

func genC13(t *rapid.T) C13Case {
	c := C13Case{Mode: rapid.SampledFrom([]Mode{ModeSJ, ModeSS, ModeLJ, ModeLS, ModeLegacy}).Draw(t, "mode"), CtxFuncs: rapid.IntRange(1, 3).Draw(t, "ctxfuncs"), InPlace: rapid.Bool().Draw(t, "inplace")}
	c.IDGen = c.Mode == ModeLegacy && rapid.Bool().Draw(t, "idgen")
	n := rapid.IntRange(2, 10).Draw(t, "nclients")
	for i := 0; i < n; i++ {
		cl := C13Client{Class: rapid.SampledFrom([]string{"a", "b", "c", "n"}).Draw(t, "class")} // class n is admitted to nothing at all
		k := rapid.IntRange(1, 6).Draw(t, "nreqs")
		for j := 0; j < k; j++ {
			rq := C13Req{Kind: rapid.SampledFrom([]string{"call", "call", "listtools", "listtools", "listprompts", "listres", "listres"}).Draw(t, "kind"), Lat: rapid.IntRange(0, 4).Draw(t, "lat")}
			if rapid.IntRange(0, 3).Draw(t, "as") == 0 {
				rq.As = rapid.SampledFrom([]string{"a", "b", "c", "n"}).Draw(t, "asclass")
			}
			cl.Reqs = append(cl.Reqs, rq)
		}
		c.Clients = append(c.Clients, cl)
	}
	c.NilOut = rapid.Bool().Draw(t, "nilout")
	if rapid.IntRange(0, 2).Draw(t, "somefilters") == 0 {
		c.NoFilter = rapid.IntRange(1, 7).Draw(t, "nofilter")
	}
	if c.Mode != ModeLegacy && rapid.IntRange(0, 5).Draw(t, "burst") == 0 {
		c.Repeat = rapid.SampledFrom([]int{20, 60}).Draw(t, "repeat")
	}
	return c
}

func ntC13(c C13Case) (bool, []string) {
	classes := map[string]bool{}
	for _, cl := range c.Clients {
		classes[cl.Class] = true
	}
	return len(c.Clients) >= 2 && len(classes) >= 2, []string{"mode=" + c.Mode.String(), fmt.Sprintf("clients=%d", len(c.Clients))}
}

type c13Key string

func admits(class, name string) bool {
	if class == "n" {
		return false
	}
	return strings.HasPrefix(name, class+"-") || strings.HasPrefix(name, "pub-") || strings.HasPrefix(name, "file:///"+class+"-") || strings.HasPrefix(name, "file:///pub-")
}

// c13IDGen hands out application-chosen session ids: four in a row differ only in the case of two letters.
type c13IDGen struct{ n atomic.Int64 }

func (g *c13IDGen) GenerateSessionID(r *http.Request) string {
	n := g.n.Add(1) - 1
	return fmt.Sprintf("client-%d-%s", n/4, []string{"alice", "Alice", "aLICE", "ALICE"}[n%4])
}

func execC13(c C13Case) *Failure {
	var mu sync.Mutex
	var inServer, maxInServer int
	tokensInServer := map[string]int{}
	overlapDiff := false
	enter := func(tok string) {
		mu.Lock()
		inServer++
		tokensInServer[tok]++
		if len(tokensInServer) >= 2 {
			overlapDiff = true
		}
		if inServer > maxInServer {
			maxInServer = inServer
		}
		mu.Unlock()
	}
	leave := func(tok string) {
		mu.Lock()
		inServer--
		tokensInServer[tok]--
		if tokensInServer[tok] == 0 {
			delete(tokensInServer, tok)
		}
		mu.Unlock()
	}
	ctxFunc := func(i int) func(ctx context.Context, r *http.Request) context.Context {
		return func(ctx context.Context, r *http.Request) context.Context {
			order, _ := ctx.Value(c13Key("order")).(string)
			ctx = context.WithValue(ctx, c13Key("order"), order+fmt.Sprint(i))
			if i == 0 || c.Mode == ModeLegacy {
				// (the legacy server keeps one context function: every candidate derives the token)
				ctx = context.WithValue(ctx, c13Key("token"), r.Header.Get("X-Token"))
			}
			return ctx
		}
	}
	tokenOf := func(ctx context.Context) string { s, _ := ctx.Value(c13Key("token")).(string); return s }
	classOf := func(ctx context.Context) string { return strings.SplitN(tokenOf(ctx), "-", 2)[0] }
	toolFilter := func(ctx context.Context, tools []*mcp.Tool) []*mcp.Tool {
		cls := classOf(ctx)
		out := make([]*mcp.Tool, 0, len(tools))
		if c.NilOut {
			out = nil
		} else if c.InPlace {
			out = tools[:0]
		}
		for _, t := range tools {
			if admits(cls, t.Name) {
				out = append(out, t)
			}
		}
		return out
	}
	promptFilter := func(ctx context.Context, ps []*mcp.Prompt) []*mcp.Prompt {
		cls := classOf(ctx)
		out := make([]*mcp.Prompt, 0, len(ps))
		if c.NilOut {
			out = nil
		} else if c.InPlace {
			out = ps[:0]
		}
		for _, p := range ps {
			if admits(cls, p.Name) {
				out = append(out, p)
			}
		}
		return out
	}
	resFilter := func(ctx context.Context, rs []*mcp.Resource) []*mcp.Resource {
		cls := classOf(ctx)
		out := make([]*mcp.Resource, 0, len(rs))
		if c.NilOut {
			out = nil
		} else if c.InPlace {
			out = rs[:0]
		}
		for _, r := range rs {
			if admits(cls, r.URI) {
				out = append(out, r)
			}
		}
		return out
	}
	var opt WorldOpt
	nfuncs := c.CtxFuncs
	if c.Mode == ModeLegacy {
		// the option may be given several times: whichever of the functions the server runs, it runs them in the order given,
		// and the one given last is among them
		for i := 0; i < nfuncs; i++ {
			opt.SSEOpts = append(opt.SSEOpts, mcp.WithSSEContextFunc(ctxFunc(i)))
		}
		if c.IDGen {
			opt.SSEOpts = append(opt.SSEOpts, mcp.WithSSESessionIDGenerator(&c13IDGen{}))
		}
		if c.NoFilter&1 == 0 {
			opt.SSEOpts = append(opt.SSEOpts, mcp.WithSSEToolListFilter(toolFilter))
		}
		if c.NoFilter&2 == 0 {
			opt.SSEOpts = append(opt.SSEOpts, mcp.WithSSEPromptListFilter(promptFilter))
		}
		if c.NoFilter&4 == 0 {
			opt.SSEOpts = append(opt.SSEOpts, mcp.WithSSEResourceListFilter(resFilter))
		}
	} else {
		for i := 0; i < nfuncs; i++ {
			opt.ServerOpts = append(opt.ServerOpts, mcp.WithHTTPContextFunc(ctxFunc(i)))
		}
		if c.NoFilter&1 == 0 {
			opt.ServerOpts = append(opt.ServerOpts, mcp.WithToolListFilter(toolFilter))
		}
		if c.NoFilter&2 == 0 {
			opt.ServerOpts = append(opt.ServerOpts, mcp.WithPromptListFilter(promptFilter))
		}
		if c.NoFilter&4 == 0 {
			opt.ServerOpts = append(opt.ServerOpts, mcp.WithResourceListFilter(resFilter))
		}
		opt.ServerOpts = append(opt.ServerOpts,
			mcp.WithMiddleware(func(next mcp.HandlerFunc) mcp.HandlerFunc {
				return func(ctx context.Context, req *mcp.JSONRPCRequest) (mcp.JSONRPCMessage, error) {
					// the middleware stores what it sees where the handler can compare it
					return next(context.WithValue(ctx, c13Key("mw-token"), tokenOf(ctx)), req)
				}
			}))
	}
	w := NewWorld(c.Mode, RegSpec{}, opt)
	defer w.Close()
	var names []string
	for _, cls := range []string{"a", "b", "c", "pub"} {
		for k := 1; k <= 2; k++ {
			names = append(names, fmt.Sprintf("%s-%d", cls, k))
		}
	}
	r := RegistrarOf(serverOf(w))
	for _, n := range names {
		r.RegisterPrompt(&mcp.Prompt{Name: n}, func(ctx context.Context, req *mcp.GetPromptRequest) (*mcp.GetPromptResult, error) {
			return &mcp.GetPromptResult{Messages: []mcp.PromptMessage{}}, nil
		})
		r.RegisterResource(&mcp.Resource{URI: "file:///" + n, Name: n}, func(ctx context.Context, req *mcp.ReadResourceRequest) (mcp.ResourceContents, error) {
			return mcp.TextResourceContents{URI: "file:///" + n, Text: "x"}, nil
		})
		r.RegisterTool(mcp.NewTool(n), func(ctx context.Context, req *mcp.CallToolRequest) (*mcp.CallToolResult, error) {
			return mcp.NewTextResult("x"), nil
		})
	}
	r.RegisterTool(mcp.NewTool("pub-echo", mcp.WithNumber("lat")), func(ctx context.Context, req *mcp.CallToolRequest) (*mcp.CallToolResult, error) {
		tok := tokenOf(ctx)
		enter(tok)
		defer leave(tok)
		sess, _ := mcp.GetSessionFromContext(ctx)
		sid, stored := "-", "-"
		if sess != nil {
			sid = sess.GetID()
			sess.SetData("c13-token", tok) // user code keeps request data in the session it was handed
		}
		lat, _ := req.Params.Arguments["lat"].(float64)
		switch {
		case lat == 1:
			runtime.Gosched()
		case lat >= 2:
			time.Sleep(time.Duration(lat) * 100 * time.Microsecond)
		}
		if sess != nil {
			if v, ok := sess.GetData("c13-token"); ok {
				stored = fmt.Sprint(v)
			}
		}
		cs := "-"
		if s := mcp.ClientSessionFromContext(ctx); s != nil {
			cs = s.GetID()
		}
		_, hasSender := mcp.GetNotificationSender(ctx)
		out := map[string]interface{}{
			"token": tok, "order": ctx.Value(c13Key("order")), "mw": ctx.Value(c13Key("mw-token")), "session": sid, "clientSession": cs, "stored": stored,
			"server": mcp.GetServerFromContext(ctx) == serverOf(w), "sender": hasSender,
		}
		b, _ := json.Marshal(out)
		return mcp.NewTextResult(string(b)), nil
	})

	type cres struct {
		req  C13Req
		text string
		list []string
		err  string
	}
	results := make([][]cres, len(c.Clients))
	conns := make([]*Conn, len(c.Clients))
	for i := range c.Clients {
		cn, err := w.Dial()
		if err != nil {
			return Failf("C13/connect", "%v", err)
		}
		defer cn.Close()
		cn.Extra = map[string]string{"X-Token": fmt.Sprintf("%s-%d", c.Clients[i].Class, i)}
		ex := cn.Send(InitRequest(`"i"`, "2025-03-26"), `"i"`, Bound()*4)
		if w.Mode.Stateful() {
			cn.SessionID = ex.Header.Get("Mcp-Session-Id")
		}
		cn.Send([]byte(`{"jsonrpc":"2.0","method":"notifications/initialized"}`), "", Bound())
		conns[i] = cn
	}
	var wg sync.WaitGroup
	for i, cl := range c.Clients {
		wg.Add(1)
		go func(i int, cl C13Client) {
			defer wg.Done()
			reqs := cl.Reqs
			for rep := 0; rep < c.Repeat; rep++ {
				reqs = append(reqs, cl.Reqs...)
			}
			for j, rq := range reqs {
				id := fmt.Sprintf(`"c%dr%d"`, i, j)
				var body string
				switch rq.Kind {
				case "call":
					body = fmt.Sprintf(`{"jsonrpc":"2.0","id":%s,"method":"tools/call","params":{"name":"pub-echo","arguments":{"lat":%d}}}`, id, rq.Lat)
				case "listtools":
					body = fmt.Sprintf(`{"jsonrpc":"2.0","id":%s,"method":"tools/list"}`, id)
				case "listprompts":
					body = fmt.Sprintf(`{"jsonrpc":"2.0","id":%s,"method":"prompts/list"}`, id)
				default:
					body = fmt.Sprintf(`{"jsonrpc":"2.0","id":%s,"method":"resources/list"}`, id)
				}
				var hdr map[string]string
				if rq.As != "" {
					hdr = map[string]string{"X-Token": fmt.Sprintf("%s-%d", rq.As, i)}
				}
				ex := conns[i].SendWith([]byte(body), id, Bound()*2, hdr)
				cr := cres{req: rq}
				if len(ex.Frames) != 1 {
					cr.err = fmt.Sprintf("frames=%d status=%d", len(ex.Frames), ex.Status)
				} else {
					var m struct {
						Result struct {
							Content []struct {
								Text string `json:"text"`
							} `json:"content"`
							Tools     []struct{ Name string } `json:"tools"`
							Prompts   []struct{ Name string } `json:"prompts"`
							Resources []struct{ URI string }  `json:"resources"`
						} `json:"result"`
					}
					json.Unmarshal(ex.Frames[0], &m)
					if len(m.Result.Content) == 1 {
						cr.text = m.Result.Content[0].Text
					}
					for _, t := range m.Result.Tools {
						cr.list = append(cr.list, t.Name)
					}
					for _, p := range m.Result.Prompts {
						cr.list = append(cr.list, p.Name)
					}
					for _, rs := range m.Result.Resources {
						cr.list = append(cr.list, rs.URI)
					}
				}
				results[i] = append(results[i], cr)
			}
		}(i, cl)
	}
	wg.Wait()
	if overlapDiff {
		Count("cases-with-overlapping-foreign-requests", 1)
	}
	wantOrder := ""
	for i := 0; i < nfuncs; i++ {
		wantOrder += fmt.Sprint(i)
	}
	for i, cl := range c.Clients {
		for j, cr := range results[i] {
			cls := cl.Class
			if cr.req.As != "" {
				cls = cr.req.As
			}
			tok := fmt.Sprintf("%s-%d", cls, i)
			where := fmt.Sprintf("%s client %d (token %s, session %q) request %d %s, %d clients, max %d requests inside the server", c.Mode, i, tok, conns[i].SessionID, j, cr.req.Kind, len(c.Clients), maxInServer)
			if cr.err != "" {
				return TimingFailf("C13/no-answer", "%s: %s", where, cr.err)
			}
			switch cr.req.Kind {
			case "call":
				var m map[string]interface{}
				if err := json.Unmarshal([]byte(cr.text), &m); err != nil {
					return Failf("C13/bad-echo", "%s: %q", where, cr.text)
				}
				if m["token"] != tok {
					return Failf("C13/foreign-context-value", "%s: the handler saw token %v", where, m["token"])
				}
				if c.Mode != ModeLegacy && m["mw"] != tok {
					return Failf("C13/foreign-context-value", "%s: the middleware saw token %v", where, m["mw"])
				}
				if c.Mode == ModeLegacy {
					got, _ := m["order"].(string)
					inc := got != "" && got[len(got)-1] == wantOrder[len(wantOrder)-1]
					for k := 1; k < len(got); k++ {
						inc = inc && got[k-1] < got[k]
					}
					if !inc {
						return Failf("C13/context-func-order", "%s: of the context functions given as options 0..%d the server ran %q (in that order)", where, nfuncs-1, got)
					}
				} else if m["order"] != wantOrder {
					return Failf("C13/context-func-order", "%s: context functions ran in order %v, registered order is %q", where, m["order"], wantOrder)
				}
				if conns[i].SessionID != "" && m["session"] != conns[i].SessionID {
					return Failf("C13/foreign-session", "%s: the handler saw session %v", where, m["session"])
				}
				if m["clientSession"] != "-" && m["clientSession"] != m["session"] {
					return Failf("C13/foreign-session", "%s: ClientSessionFromContext %v differs from the request's session %v", where, m["clientSession"], m["session"])
				}
				if m["stored"] != tok {
					return Failf("C13/session-shared-between-requests", "%s: the handler stored its token in the session it was handed and read back %v", where, m["stored"])
				}
				if m["server"] != true {
					return Failf("C13/server-handle", "%s: GetServerFromContext did not yield the serving server", where)
				}
				if m["sender"] != true && c.Mode.IsStreamable() {
					return Failf("C13/notification-sender", "%s: no notification sender in the handler's context", where)
				}
			default:
				unfiltered := (cr.req.Kind == "listtools" && c.NoFilter&1 != 0) || (cr.req.Kind == "listprompts" && c.NoFilter&2 != 0) || (cr.req.Kind == "listres" && c.NoFilter&4 != 0)
				var want []string
				for _, n := range names {
					if unfiltered || admits(cls, n) {
						if cr.req.Kind == "listres" {
							want = append(want, "file:///"+n)
						} else {
							want = append(want, n)
						}
					}
				}
				if cr.req.Kind == "listtools" && (unfiltered || admits(cls, "pub-echo")) {
					want = append(want, "pub-echo")
				}
				got := append([]string(nil), cr.list...)
				sort.Strings(got)
				sort.Strings(want)
				if strings.Join(got, ",") != strings.Join(want, ",") {
					return Failf("C13/list-filter/"+cr.req.Kind, "%s: the list shows %v, the filter admits %v for this caller", where, got, want)
				}
			}
		}
	}
	if c.Mode == ModeLegacy {
		return c13Leaver(w)
	}
	return nil
}

// c13Leaver: on the legacy server requests run detached from their stream. A client leaves while its call is still in its
// handler and other clients arrive: the session that handler sees stays the one of its own request until it returns.
func c13Leaver(w *World) *Failure {
	type seen struct{ entry, exit, data string }
	res := make(chan seen, 4)
	gate := make(chan struct{})
	w.SSE.RegisterTool(mcp.NewTool("c13-slow"), func(ctx context.Context, req *mcp.CallToolRequest) (*mcp.CallToolResult, error) {
		s := sessionOf(ctx)
		if s == nil {
			res <- seen{entry: "<none>"}
			return mcp.NewTextResult("x"), nil
		}
		v := seen{entry: s.GetID()}
		s.SetData("owner", v.entry)
		select {
		case <-gate:
		case <-time.After(3 * time.Second):
		}
		v.exit = s.GetID()
		if d, ok := s.GetData("owner"); ok {
			v.data, _ = d.(string)
		}
		res <- v
		return mcp.NewTextResult("x"), nil
	})
	a, err := w.Connect()
	if err != nil {
		return Failf("C13/connect", "%v", err)
	}
	aid := a.SessionID
	a.Send([]byte(`{"jsonrpc":"2.0","id":"slow","method":"tools/call","params":{"name":"c13-slow","arguments":{}}}`), "", 0)
	time.Sleep(2 * time.Millisecond)
	a.Close() // the client leaves; its call is still in the handler
	time.Sleep(5 * time.Millisecond)
	var others []*Conn
	for i := 0; i < 3; i++ {
		if b, err := w.Connect(); err == nil {
			others = append(others, b)
			b.Send([]byte(`{"jsonrpc":"2.0","id":"q","method":"tools/list"}`), `"q"`, Bound())
		}
	}
	close(gate)
	var v seen
	select {
	case v = <-res:
	case <-time.After(Patience()):
		for _, b := range others {
			b.Close()
		}
		return TimingFailf("C13/leaver", "the call of a client that left did not finish")
	}
	for _, b := range others {
		b.Close()
	}
	if v.entry != aid || v.exit != v.entry || v.data != v.entry {
		return Failf("C13/foreign-session", "legacy-sse: a client (session %q) left while its call was in the handler and three other clients connected: the handler saw session %q on entry, %q before it returned, and read back %q from the data it had stored in it", aid, v.entry, v.exit, v.data)
	}
	return nil
}

func TestC13(t *testing.T) {
	RunProp(t, Prop[C13Case]{ID: "C13", Gen: genC13, Exec: execC13, NT: ntC13})
}
