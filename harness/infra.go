package harness

// Shared plumbing: Case journal / fail file / stats, replay entry, exclusion
// flags for known findings. Everything a property needs to be run by ./check.

import (
	"crypto/sha1"
	"encoding/hex"
	"encoding/json"
	"fmt"
	"os"
	"path/filepath"
	"sort"
	"strings"
	"sync"
	"testing"
	"time"

	"pgregory.net/rapid"
	mcp "trpc.group/trpc-go/trpc-mcp-go"
)

// Failure is a property violation observed on one Case.
type Failure struct {
	Key    string `json:"key"`    // class of the failure (matched against known_findings.json)
	Msg    string `json:"msg"`    // human readable
	Timing bool   `json:"timing"` // verdict rests on a time bound: must be confirmed in isolation
}

func (f *Failure) Error() string { return f.Key + ": " + f.Msg }

// Failf builds a Failure.
// A message that quotes a run-out wait ("request timeout after 4s", "context deadline exceeded") makes the
// verdict time-bounded: it is confirmed by repeated isolated replay before it is reported.
func Failf(key, format string, args ...interface{}) *Failure {
	msg := fmt.Sprintf(format, args...)
	return &Failure{Key: key, Msg: msg, Timing: strings.Contains(msg, "timeout after") || strings.Contains(msg, "deadline exceeded")}
}

// TimingFailf builds a Failure whose verdict depends on a time bound.
func TimingFailf(key, format string, args ...interface{}) *Failure {
	return &Failure{Key: key, Msg: fmt.Sprintf(format, args...), Timing: true}
}

// ---------------------------------------------------------------------------
// environment

func outDir() string {
	d := os.Getenv("VERIF_OUT")
	if d == "" {
		d = filepath.Join(os.TempDir(), fmt.Sprintf("verif-out-%d", os.Getpid()))
	}
	_ = os.MkdirAll(d, 0o755)
	return d
}

func workerID() string {
	w := os.Getenv("VERIF_WORKER")
	if w == "" {
		w = "0"
	}
	return w
}

var (
	excludeOnce sync.Once
	excludeSet  map[string]bool
)

// Excluded reports whether the known-finding class key is excluded by
// construction in this run (listed as "known" in known_findings.json; the
// driver passes the list in VERIF_EXCLUDE). Every diverted draw is counted.
func Excluded(key string) bool {
	excludeOnce.Do(func() {
		excludeSet = map[string]bool{}
		for _, k := range strings.Split(os.Getenv("VERIF_EXCLUDE"), ",") {
			if k = strings.TrimSpace(k); k != "" {
				excludeSet[k] = true
			}
		}
	})
	return excludeSet[key]
}

// CountExcluded records that a draw was diverted away from a known class.
func CountExcluded(key string) { stats.excluded(key) }

// Tier returns "quick" or "thorough".
func Tier() string {
	if os.Getenv("VERIF_TIER") == "thorough" {
		return "thorough"
	}
	return "quick"
}

// Thorough reports whether the thorough tier is running.
func Thorough() bool { return Tier() == "thorough" }

// ---------------------------------------------------------------------------
// stats

type statsT struct {
	mu           sync.Mutex
	Evaluations  int            `json:"evaluations"`
	NonTrivial   int            `json:"nontrivial_total"`
	Labels       map[string]int `json:"labels"`
	Excluded     map[string]int `json:"excluded"`
	Inconclusive int            `json:"inconclusive"`
	Samples      []interface{}  `json:"samples"`
	hashes       map[string]bool
	Extra        map[string]int `json:"extra"`
}

var stats = &statsT{Labels: map[string]int{}, Excluded: map[string]int{}, hashes: map[string]bool{}, Extra: map[string]int{}}

func (s *statsT) excluded(key string) {
	s.mu.Lock()
	s.Excluded[key]++
	s.mu.Unlock()
}

// Count adds to a free-form counter reported in the evidence.
func Count(name string, n int) {
	stats.mu.Lock()
	stats.Extra[name] += n
	stats.mu.Unlock()
}

// Inconclusive records a case whose verdict could not be established (time budget etc).
func Inconclusive() {
	stats.mu.Lock()
	stats.Inconclusive++
	stats.mu.Unlock()
}

func (s *statsT) record(c interface{}, nontrivial bool, labels []string) {
	b, _ := json.Marshal(c)
	h := sha1.Sum(b)
	hs := hex.EncodeToString(h[:8])
	s.mu.Lock()
	defer s.mu.Unlock()
	s.Evaluations++
	for _, l := range labels {
		s.Labels[l]++
	}
	if nontrivial {
		s.NonTrivial++
		if !s.hashes[hs] {
			s.hashes[hs] = true
			// keep a small spread of samples: the first few, then a sparse tail
			n := len(s.hashes)
			if len(b) < 4000 && (n <= 3 || (n%997 == 0 && len(s.Samples) < 8)) {
				s.Samples = append(s.Samples, json.RawMessage(b))
			}
		}
	}
}

func (s *statsT) flush(id string) {
	s.mu.Lock()
	defer s.mu.Unlock()
	dir := outDir()
	b, _ := json.Marshal(s)
	_ = os.WriteFile(filepath.Join(dir, fmt.Sprintf("stats-%s-%s.json", id, workerID())), b, 0o644)
	hs := make([]string, 0, len(s.hashes))
	for h := range s.hashes {
		hs = append(hs, h)
	}
	sort.Strings(hs)
	_ = os.WriteFile(filepath.Join(dir, fmt.Sprintf("hashes-%s-%s.txt", id, workerID())), []byte(strings.Join(hs, "\n")), 0o644)
}

// ---------------------------------------------------------------------------
// case files

type caseFile struct {
	Property string          `json:"property"`
	Test     string          `json:"test"`
	Case     json.RawMessage `json:"case"`
	Failure  *Failure        `json:"failure,omitempty"`
}

func writeCaseFile(name, id, test string, c interface{}, f *Failure) {
	b, _ := json.Marshal(c)
	cf := caseFile{Property: id, Test: test, Case: b, Failure: f}
	out, _ := json.MarshalIndent(cf, "", " ")
	tmp := filepath.Join(outDir(), name+".tmp")
	_ = os.WriteFile(tmp, out, 0o644)
	_ = os.Rename(tmp, filepath.Join(outDir(), name))
}

// Prop describes one generated check.
type Prop[C any] struct {
	ID   string                     // property id, e.g. "C03"
	Gen  func(t *rapid.T) C         // draws a Case (all randomness lives here)
	Exec func(c C) *Failure         // runs the Case against the real code; nil = property held
	NT   func(c C) (bool, []string) // non-triviality rule + labels for the distribution
}

var quietOnce sync.Once

// Quiet replaces the library's stdout logger by a no-op.
func Quiet() {
	quietOnce.Do(func() { mcp.SetDefaultLogger(nopLogger{}) })
}

// RunProp is the entry point of every TestCxx: replay mode when VERIF_REPLAY is
// set (bypasses rapid), generated search otherwise.
func RunProp[C any](t *testing.T, p Prop[C]) {
	Quiet()
	test := t.Name()
	if path := os.Getenv("VERIF_REPLAY"); path != "" {
		raw, err := os.ReadFile(path)
		if err != nil {
			t.Fatalf("replay: %v", err)
		}
		var cf caseFile
		if err := json.Unmarshal(raw, &cf); err != nil {
			t.Fatalf("replay: %v", err)
		}
		if cf.Test != "" && cf.Test != test {
			t.Skipf("replay file is for %s", cf.Test)
		}
		var c C
		if err := json.Unmarshal(cf.Case, &c); err != nil {
			t.Fatalf("replay: case does not decode: %v", err)
		}
		f := execWithWatchdog(p.Exec, c, func() {
			b, _ := json.Marshal(map[string]interface{}{"failed": true, "failure": TimingFailf(p.ID+"/case-hang", "the replayed case did not finish within %v", caseTimeout())})
			_ = os.WriteFile(filepath.Join(outDir(), "replay-result.json"), b, 0o644)
		})
		res := map[string]interface{}{"failed": f != nil, "failure": f}
		b, _ := json.Marshal(res)
		_ = os.WriteFile(filepath.Join(outDir(), "replay-result.json"), b, 0o644)
		if f != nil {
			t.Fatalf("REPLAY-FAIL key=%s msg=%s", f.Key, f.Msg)
		}
		return
	}
	defer stats.flush(p.ID + "-" + test)
	journal := fmt.Sprintf("journal-%s-%s.json", test, workerID())
	failName := fmt.Sprintf("fail-%s-%s.json", test, workerID())
	rapid.Check(t, func(rt *rapid.T) {
		c := p.Gen(rt)
		writeCaseFile(journal, p.ID, test, c, nil)
		nt, labels := false, []string(nil)
		if p.NT != nil {
			nt, labels = p.NT(c)
		}
		stats.record(c, nt, labels)
		if f := execWithWatchdog(p.Exec, c, func() {
			writeCaseFile(failName, p.ID, test, c, TimingFailf(p.ID+"/case-hang", "the case did not finish within %v (a call into the library never returned)", caseTimeout()))
		}); f != nil {
			writeCaseFile(failName, p.ID, test, c, f)
			rt.Fatalf("%s", f.Error())
		}
	})
}

// ---------------------------------------------------------------------------

// isTimeoutText reports whether an error text says that a wait ran out (such a verdict is time-bounded).
func isTimeoutText(s string) bool {
	return strings.Contains(s, "deadline") || strings.Contains(s, "timeout") || strings.Contains(s, "timed out")
}

type nopLogger struct{}

// debugLog prints the library's warnings and errors when VERIF_DEBUG is set (development aid, no effect on verdicts).
func debugLog(format string, args ...interface{}) {
	if os.Getenv("VERIF_DEBUG") != "" {
		fmt.Fprintf(os.Stderr, "LIB: "+format+"\n", args...)
	}
}

func (nopLogger) Debug(args ...interface{})                 {}
func (nopLogger) Debugf(format string, args ...interface{}) {}
func (nopLogger) Info(args ...interface{})                  {}
func (nopLogger) Infof(format string, args ...interface{})  {}
func (nopLogger) Warn(args ...interface{})                  {}
func (nopLogger) Warnf(format string, args ...interface{})  {}
func (nopLogger) Error(args ...interface{})                 {}
func (nopLogger) Errorf(format string, args ...interface{}) { debugLog(format, args...) }
func (nopLogger) Fatal(args ...interface{})                 {}
func (nopLogger) Fatalf(format string, args ...interface{}) {}

// RunEnum walks a finite case list completely (sharded over the workers).
// Every distinct failure key is reported once (first case that shows it);
// keys listed as known findings are counted, not reported.
func RunEnum[C any](t *testing.T, id string, cases []C, exec func(C) *Failure, ntf func(C) (bool, []string)) {
	Quiet()
	test := t.Name()
	if path := os.Getenv("VERIF_REPLAY"); path != "" {
		RunProp(t, Prop[C]{ID: id, Exec: exec, NT: ntf})
		return
	}
	defer stats.flush(id + "-" + test)
	wi, wn := 0, 1
	fmt.Sscanf(os.Getenv("VERIF_WORKER"), "%d", &wi)
	fmt.Sscanf(os.Getenv("VERIF_WORKERS"), "%d", &wn)
	if wn < 1 {
		wn = 1
	}
	seen := map[string]bool{}
	var mu sync.Mutex
	par := 8
	if v := os.Getenv("VERIF_ENUM_PAR"); v != "" {
		fmt.Sscanf(v, "%d", &par)
	}
	sem := make(chan struct{}, par)
	var wg sync.WaitGroup
	for i, c := range cases {
		if i%wn != wi%wn {
			continue
		}
		nt, labels := false, []string(nil)
		if ntf != nil {
			nt, labels = ntf(c)
		}
		stats.record(c, nt, labels)
		sem <- struct{}{}
		wg.Add(1)
		go func(i int, c C) {
			defer wg.Done()
			defer func() { <-sem }()
			// one journal per case in flight: if the process dies, the driver replays each of them to find the one that kills it
			journal := fmt.Sprintf("journal-%s-%s-%d.json", test, workerID(), i)
			writeCaseFile(journal, id, test, c, nil)
			f := exec(c)
			os.Remove(filepath.Join(outDir(), journal))
			if f == nil {
				return
			}
			if Excluded(f.Key) {
				CountExcluded(f.Key)
				return
			}
			mu.Lock()
			defer mu.Unlock()
			if seen[f.Key] {
				return
			}
			seen[f.Key] = true
			writeCaseFile(fmt.Sprintf("fail-%s-%s-%d.json", test, workerID(), len(seen)), id, test, c, f)
			t.Errorf("%s", f.Error())
		}(i, c)
	}
	wg.Wait()
	Count("enumerated:"+test, len(cases))
}

// Bound is the wait used to decide "no answer": short during generated search
// (such a verdict is flagged Timing and confirmed by the driver in an isolated
// replay), long in replay mode.
// boundOverride, when set (native fuzz targets), replaces Bound(): time-bounded verdicts are ignored there.
var boundOverride time.Duration

func Bound() time.Duration {
	if boundOverride > 0 {
		return boundOverride
	}
	if os.Getenv("VERIF_REPLAY") != "" {
		return 3 * time.Second
	}
	return 250 * time.Millisecond
}

func caseTimeout() time.Duration {
	if v := os.Getenv("VERIF_CASE_TIMEOUT"); v != "" {
		if d, err := time.ParseDuration(v); err == nil {
			return d
		}
	}
	return 120 * time.Second
}

// execWithWatchdog runs one case; if it does not return in time the process is
// ended (the stuck goroutines cannot be reclaimed) after onHang recorded the case.
func execWithWatchdog[C any](exec func(C) *Failure, c C, onHang func()) *Failure {
	done := make(chan *Failure, 1)
	go func() { done <- exec(c) }()
	select {
	case f := <-done:
		return f
	case <-time.After(caseTimeout()):
		onHang()
		fmt.Fprintln(os.Stderr, "verif: case hang, ending the worker")
		os.Exit(1)
		return nil
	}
}

// Patience is the wait used where something should have happened long ago
// (a handler returning, a stream closing): 2 s during search, 6 s in replay.
func Patience() time.Duration {
	if os.Getenv("VERIF_REPLAY") != "" {
		return 6 * time.Second
	}
	return 2 * time.Second
}

// LongWait bounds calls that should succeed quickly (deadline of follow-up calls): 4 s during search,
// 25 s in replay so that a loaded machine cannot turn slowness into a reproduced verdict.
func LongWait() time.Duration {
	if os.Getenv("VERIF_REPLAY") != "" {
		return 25 * time.Second
	}
	return 4 * time.Second
}
