package harness

import (
	"context"
	"fmt"
	"io"
	"net/http"
	"strings"
	"sync"
	"sync/atomic"
	"testing"
	"time"

	mcp "trpc.group/trpc-go/trpc-mcp-go"
)

// Thorough tier only: behaviour that shows after tens of seconds of real time (the library has no clock hook there).

// C14SlowCase: one handler that runs for Secs seconds, called on every transport: the answers agree.
type C14SlowCase struct {
	Secs float64 `json:"secs"`
	What string  `json:"what"` // tool prompt resource
}

func execC14Slow(c C14SlowCase) *Failure {
	d := time.Duration(c.Secs * float64(time.Second))
	outcomes := make([]string, NumModes)
	var wg sync.WaitGroup
	for m := Mode(0); m < NumModes; m++ {
		wg.Add(1)
		go func(m Mode) {
			defer wg.Done()
			w := NewWorld(m, RegSpec{}, WorldOpt{})
			defer w.Close()
			r := RegistrarOf(serverOf(w))
			r.RegisterTool(mcp.NewTool("slow"), func(ctx context.Context, req *mcp.CallToolRequest) (*mcp.CallToolResult, error) {
				time.Sleep(d)
				return mcp.NewTextResult("done at last"), nil
			})
			r.RegisterPrompt(&mcp.Prompt{Name: "slow"}, func(ctx context.Context, req *mcp.GetPromptRequest) (*mcp.GetPromptResult, error) {
				time.Sleep(d)
				return &mcp.GetPromptResult{Description: "done at last"}, nil
			})
			r.RegisterResource(&mcp.Resource{URI: "file:///slow", Name: "slow"}, func(ctx context.Context, req *mcp.ReadResourceRequest) (mcp.ResourceContents, error) {
				time.Sleep(d)
				return mcp.TextResourceContents{URI: "file:///slow", Text: "done at last"}, nil
			})
			raw := map[string]string{
				"tool":     `{"jsonrpc":"2.0","id":"s","method":"tools/call","params":{"name":"slow","arguments":{}}}`,
				"prompt":   `{"jsonrpc":"2.0","id":"s","method":"prompts/get","params":{"name":"slow"}}`,
				"resource": `{"jsonrpc":"2.0","id":"s","method":"resources/read","params":{"uri":"file:///slow"}}`,
			}[c.What]
			if m.IsStreamable() {
				// over a real connection (net/http's own ResponseWriter, deadlines and all)
				ts := ServeTCP(w.Srv.Handler())
				defer ts.Close()
				post := func(body string, sid string) (Exchange, string) {
					req, _ := http.NewRequest("POST", ts.URL+"/mcp", strings.NewReader(body))
					req.Header.Set("Content-Type", "application/json")
					req.Header.Set("Accept", "application/json, text/event-stream")
					if sid != "" {
						req.Header.Set("Mcp-Session-Id", sid)
					}
					hc := &http.Client{Timeout: d + 25*time.Second}
					resp, err := hc.Do(req)
					if err != nil {
						return Exchange{Err: err}, ""
					}
					defer resp.Body.Close()
					b, rerr := io.ReadAll(resp.Body)
					ex := exchangeFromHTTP(resp.StatusCode, resp.Header, b)
					if rerr != nil && len(ex.Frames) == 0 {
						ex.Err = rerr
					}
					return ex, resp.Header.Get("Mcp-Session-Id")
				}
				_, sid := post(string(InitRequest(`"i"`, "2025-03-26")), "")
				post(`{"jsonrpc":"2.0","method":"notifications/initialized"}`, sid)
				ex, _ := post(raw, sid)
				outcomes[m] = normalOutcome(ex, ReqStep{})
				return
			}
			conn, err := w.Connect()
			if err != nil {
				outcomes[m] = "connect: " + err.Error()
				return
			}
			defer conn.Close()
			ex := conn.Send([]byte(raw), `"s"`, d+20*time.Second)
			outcomes[m] = normalOutcome(ex, ReqStep{})
		}(m)
	}
	wg.Wait()
	for m := Mode(1); m < NumModes; m++ {
		if outcomes[m] != outcomes[0] {
			f := Failf("C14/differs/slow-handler", "a %s handler that runs for %v is answered differently:\n  %-18s %.300s\n  %-18s %.300s", c.What, d, Mode(0).String()+":", outcomes[0], m.String()+":", outcomes[m])
			return f
		}
	}
	return nil
}

func TestC14Slow(t *testing.T) {
	var cases []C14SlowCase
	for i, s := range []float64{10.5, 15.5, 20.5, 31} {
		cases = append(cases, C14SlowCase{Secs: s, What: []string{"tool", "prompt", "resource", "tool"}[i]})
	}
	RunEnum(t, "C14", cases, execC14Slow, func(c C14SlowCase) (bool, []string) { return true, []string{fmt.Sprintf("secs=%v", c.Secs)} })
}

// C07SlowCase: the server asks the client something on the listening stream and never completes the client's answer POST;
// once the client's own bound on that POST has passed, later frames on the stream are processed again.
type C07SlowCase struct {
	Method string `json:"method"` // the server's request: roots/list or an unknown method
	Secs   int    `json:"secs"`   // how long the harness waits before it sends the follow-up notification
}

func execC07Slow(c C07SlowCase) *Failure {
	fake := &FakeServer{Stateful: true}
	// the library's default request handler over a real connection
	ts := ServeTCP(fake)
	defer func() { ts.CloseClientConnections(); ts.Close() }()
	cl, err := mcp.NewClient(ts.URL+"/mcp", mcp.Implementation{Name: "c", Version: "1"}, mcp.WithClientLogger(nopLogger{}))
	if err != nil {
		return Failf("C07/new-client", "%v", err)
	}
	defer cl.Close()
	cl.SetRootsProvider(mcp.NewDefaultRootsProvider(mcp.Root{URI: "file:///r", Name: "r"}))
	var after atomic.Int64
	cl.RegisterNotificationHandler("notifications/verif-after", func(n *mcp.JSONRPCNotification) error { after.Add(1); return nil })
	ictx, icancel := context.WithTimeout(context.Background(), 10*time.Second)
	_, err = cl.Initialize(ictx, &mcp.InitializeRequest{})
	icancel()
	if err != nil {
		return Failf("C07/handshake", "%v", err)
	}
	deadline := time.Now().Add(2 * time.Second)
	for fake.GetOpen.Load() == 0 && time.Now().Before(deadline) {
		time.Sleep(time.Millisecond)
	}
	if fake.GetOpen.Load() == 0 {
		return TimingFailf("C07/no-listening-stream", "the client did not open its listening stream")
	}
	fake.StallPosts.Store(true) // the answer the client is about to post is read and never completed
	defer fake.StallPosts.Store(false)
	fake.PushToStreams(fmt.Sprintf(`{"jsonrpc":"2.0","id":"srv-1","method":%q,"params":{}}`, c.Method))
	time.Sleep(time.Duration(c.Secs) * time.Second)
	fake.PushToStreams(`{"jsonrpc":"2.0","method":"notifications/verif-after","params":{}}`)
	deadline = time.Now().Add(15 * time.Second)
	for after.Load() == 0 && time.Now().Before(deadline) {
		time.Sleep(5 * time.Millisecond)
	}
	if after.Load() == 0 {
		return TimingFailf("C07/stream-stops-processing/streamable-get", "the server left the client's answer to its %s request unanswered; a notification sent %d s later (and 15 s of patience) never reached its handler: the stream's reader is stuck in that POST", c.Method, c.Secs)
	}
	return nil
}

func TestC07Slow(t *testing.T) {
	cases := []C07SlowCase{{Method: "roots/list", Secs: 33}, {Method: "verif/unknown", Secs: 33}, {Method: "roots/list", Secs: 62}}
	RunEnum(t, "C07", cases, execC07Slow, func(c C07SlowCase) (bool, []string) { return true, []string{"method=" + c.Method} })
}
