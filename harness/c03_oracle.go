package harness

// Oracle for C03 (well-formed JSON-RPC / MCP frames, standard error codes) —
// also used by C06 (survival) and C14 (cross-transport agreement).

import (
	_ "embed"
	"encoding/json"
	"fmt"
	"math/big"
	"strings"
	"sync"
)

//go:embed spec/mcp.json
var mcpSpecBytes []byte

var (
	specOnce sync.Once
	specDoc  *SchemaDoc
)

// Spec returns the hand-written MCP message schema.
func Spec() *SchemaDoc {
	specOnce.Do(func() {
		d, err := ParseSchema(mcpSpecBytes)
		if err != nil {
			panic(err)
		}
		specDoc = d
	})
	return specDoc
}

// Expect is the set of outcomes the reference function allows for one message.
type Expect struct {
	NoAnswer    bool   // notification-shaped: no response frame may appear
	AllowResult bool   // a success result is allowed
	Codes       []int  // allowed JSON-RPC error codes
	AnyError    bool   // any JSON-RPC error is allowed
	HTTPErr     bool   // a bare non-2xx HTTP status (no frame) is allowed
	Ack         bool   // an empty 202 is allowed
	MsgContains string // an error must carry this text
	ResultKind  string // $defs name to validate a result against ("" = result:any)
	IsErrorFlag int    // 1: result must have isError true; -1: must not; 0 unasserted
	TextEquals  string // tools/call: the single text item must equal this ("" = unasserted)
	Anything    bool   // only well-formedness is asserted
	IDUnknown   bool   // the id could not be determined: error id may be null / absent
}

var notFoundCodes = []int{-32601, -32602, -32002}

func findTool(reg RegSpec, name string) *ToolSpec {
	for i := range reg.Tools {
		if reg.Tools[i].Name == name {
			return &reg.Tools[i]
		}
	}
	return nil
}
func findPrompt(reg RegSpec, name string) *PromptSpec {
	for i := range reg.Prompts {
		if reg.Prompts[i].Name == name {
			return &reg.Prompts[i]
		}
	}
	return nil
}
func findRes(reg RegSpec, uri string) *ResSpec {
	for i := range reg.Resources {
		if reg.Resources[i].URI == uri {
			return &reg.Resources[i]
		}
	}
	return nil
}

// normalExpect is the reference outcome of the unmutated request.
func normalExpect(st ReqStep, reg RegSpec) Expect {
	switch st.Method {
	case "initialize", "ping", "tools/list", "prompts/list", "resources/list", "resources/templates/list":
		return Expect{AllowResult: true, ResultKind: "result:" + st.Method}
	case "tools/call":
		ts := findTool(reg, st.Target)
		if ts == nil {
			return Expect{Codes: notFoundCodes}
		}
		switch ts.Outcome {
		case OutGoErr, OutCtxDeadline, OutCtxCanceled:
			return Expect{Codes: []int{-32603}, MsgContains: ts.ErrMsg}
		case OutIsError:
			return Expect{AllowResult: true, ResultKind: "result:tools/call", IsErrorFlag: 1}
		case OutUnencodable, OutUnencChan:
			return Expect{Codes: []int{-32603}}
		case OutNilContent:
			return Expect{AllowResult: true, ResultKind: "result:tools/call", IsErrorFlag: -1}
		}
		return Expect{AllowResult: true, ResultKind: "result:tools/call", IsErrorFlag: -1,
			TextEquals: ToolText(ts.Name, map[string]interface{}{"nonce": st.Nonce})}
	case "prompts/get":
		ps := findPrompt(reg, st.Target)
		if ps == nil {
			return Expect{Codes: notFoundCodes}
		}
		if ps.Fail {
			return Expect{Codes: []int{-32603}, MsgContains: ps.ErrMsg}
		}
		return Expect{AllowResult: true, ResultKind: "result:prompts/get"}
	case "resources/read":
		rs := findRes(reg, st.Target)
		if rs == nil {
			return Expect{Codes: notFoundCodes}
		}
		if rs.Fail {
			return Expect{Codes: []int{-32603}, MsgContains: rs.ErrMsg}
		}
		return Expect{AllowResult: true, ResultKind: "result:resources/read"}
	case "resources/subscribe":
		if findRes(reg, st.Target) == nil {
			return Expect{Codes: notFoundCodes}
		}
		return Expect{AllowResult: true}
	case "resources/unsubscribe":
		return Expect{AllowResult: true, Codes: notFoundCodes}
	case "completion/complete":
		return Expect{AllowResult: true, AnyError: true}
	}
	return Expect{Anything: true}
}

func union(e Expect, codes ...int) Expect {
	e.Codes = append(append([]int(nil), e.Codes...), codes...)
	return e
}

// ExpectFor is the reference function: fault class of the input -> allowed outcomes.
func ExpectFor(st ReqStep, reg RegSpec) Expect {
	base := normalExpect(st, reg)
	parts := strings.Split(strings.TrimPrefix(st.Path, "/"), "/")
	switch st.Mut {
	case "none":
		return base
	case "unknownmethod":
		return Expect{Codes: []int{-32601}}
	case "badversion":
		b := union(base, -32600)
		b.HTTPErr = true
		b.IDUnknown = true
		return b
	case "dup":
		return Expect{Anything: true}
	case "addkey":
		b := union(base, -32600, -32602)
		b.TextEquals = ""
		return b
	}
	// remove / retype
	switch parts[0] {
	case "jsonrpc":
		b := union(base, -32600, -32700)
		b.HTTPErr = true
		b.IDUnknown = true
		return b
	case "id":
		if st.Mut == "remove" {
			return Expect{NoAnswer: true, Ack: true}
		}
		switch st.NewType {
		case "string", "int":
			return base
		}
		return Expect{Anything: true}
	case "method":
		// a message with an id but without a usable method is neither request nor
		// response: the server does not serve it
		if st.Mut == "remove" || st.NewType == "null" {
			return Expect{HTTPErr: true, AnyError: true, IDUnknown: true}
		}
		return Expect{HTTPErr: true, Codes: []int{-32700, -32600}, IDUnknown: true}
	case "params":
		req := RequiredParamFields(st.Method)
		if len(parts) == 1 {
			if len(req) > 0 {
				return Expect{Codes: []int{-32602}}
			}
			b := union(base, -32602)
			return b
		}
		isReq := false
		for _, r := range req {
			if r == parts[1] {
				isReq = true
			}
		}
		if len(parts) == 2 {
			if isReq {
				return Expect{Codes: []int{-32602}}
			}
			if st.Mut == "remove" {
				b := base
				b.TextEquals = ""
				return b
			}
			if st.Method == "tools/call" && parts[1] == "arguments" && st.NewType != "null" {
				e := Expect{Codes: []int{-32602}}
				if findTool(reg, st.Target) == nil {
					e.Codes = append(e.Codes, notFoundCodes...)
				}
				return e
			}
			b := union(base, -32602)
			b.TextEquals = ""
			return b
		}
		// depth 3
		if st.Method == "completion/complete" && parts[1] == "ref" {
			return Expect{Codes: append([]int{-32602}, notFoundCodes...)}
		}
		b := union(base, -32602)
		b.TextEquals = ""
		return b
	}
	return Expect{Anything: true}
}

// ---------------------------------------------------------------------------

// Frame is a decoded message frame.
type Frame struct {
	Raw  []byte
	V    map[string]interface{}
	Kind string // response, error, notification, request
}

// DecodeFrame parses and classifies one frame and validates it against the spec for its kind.
func DecodeFrame(raw []byte) (*Frame, *Failure) { return decodeFrame(raw, false) }

func decodeFrame(raw []byte, lenientID bool) (*Frame, *Failure) {
	v, err := DecodeJSON(raw)
	if err != nil {
		return nil, Failf("C03/frame-not-json", "frame is not one JSON value: %v: %.200q", err, raw)
	}
	m, ok := v.(map[string]interface{})
	if !ok {
		return nil, Failf("C03/frame-not-object", "frame is not a JSON object: %.200q", raw)
	}
	f := &Frame{Raw: raw, V: m}
	_, hasMethod := m["method"]
	_, hasID := m["id"]
	_, hasResult := m["result"]
	_, hasError := m["error"]
	switch {
	case hasMethod && hasID:
		f.Kind = "request"
	case hasMethod:
		f.Kind = "notification"
	case hasError:
		f.Kind = "error"
	case hasResult:
		f.Kind = "response"
	default:
		return nil, Failf("C03/frame-kind", "frame is neither request, notification, response nor error: %.300q", raw)
	}
	if hasError && hasResult {
		return nil, Failf("C03/result-and-error", "frame has both result and error: %.300q", raw)
	}
	var check interface{} = v
	if lenientID && hasID {
		cp := map[string]interface{}{}
		for k, e := range m {
			cp[k] = e
		}
		cp["id"] = json.Number("0")
		check = cp
	}
	if err := Spec().ValidateAt("#/$defs/"+f.Kind, check); err != nil {
		return nil, Failf("C03/frame-schema/"+f.Kind, "%s frame violates the spec: %v: %.300q", f.Kind, err, raw)
	}
	return f, nil
}

// sameID compares two ids (compact JSON text) by JSON type and exact numeric value.
func sameID(a string, b interface{}) bool {
	av, err := DecodeJSON([]byte(a))
	if err != nil {
		return false
	}
	switch x := av.(type) {
	case string:
		y, ok := b.(string)
		return ok && x == y
	case json.Number:
		y, ok := b.(json.Number)
		if !ok {
			return false
		}
		fx, _, e1 := big.ParseFloat(x.String(), 10, 200, big.ToNearestEven)
		fy, _, e2 := big.ParseFloat(y.String(), 10, 200, big.ToNearestEven)
		return e1 == nil && e2 == nil && fx.Cmp(fy) == 0
	}
	return false
}

func codeOf(f *Frame) int {
	e, _ := f.V["error"].(map[string]interface{})
	n, _ := e["code"].(json.Number)
	i, _ := n.Int64()
	return int(i)
}

func msgOf(f *Frame) string {
	e, _ := f.V["error"].(map[string]interface{})
	s, _ := e["message"].(string)
	if d, ok := e["data"]; ok {
		s += " " + fmt.Sprint(d)
	}
	return s
}

func containsInt(xs []int, x int) bool {
	for _, v := range xs {
		if v == x {
			return true
		}
	}
	return false
}

func mutClass(st ReqStep) string {
	if st.Mut == "none" {
		return "valid"
	}
	if st.Path == "/method" && (st.Mut == "remove" || st.NewType == "null") {
		return "no-method"
	}
	if st.Path == "/jsonrpc" && st.Mut != "dup" {
		return "bad-jsonrpc"
	}
	p := st.Path
	if strings.HasPrefix(p, "/params/") {
		p = "/params/*"
	}
	c := st.Mut + p
	if st.Mut == "retype" && (st.Path == "/id" || st.Path == "/method") {
		c += "=" + st.NewType
	}
	return c
}

// JudgeC03 checks what one message provoked against the reference function.
func JudgeC03(mode Mode, reg RegSpec, st ReqStep, ex Exchange) *Failure {
	if ex.Err != nil {
		return Failf("C03/transport-error/"+mode.String(), "%s: sending %q failed: %v", mode, st.Raw, ex.Err)
	}
	exp := ExpectFor(st, reg)
	var responses []*Frame
	for _, raw := range ex.Frames {
		f, fail := decodeFrame(raw, exp.Anything && st.Path == "/id")
		if fail != nil {
			fail.Msg = fmt.Sprintf("%s: after %s: %s", mode, st.Raw, fail.Msg)
			return fail
		}
		switch f.Kind {
		case "response", "error":
			responses = append(responses, f)
		default:
			return Failf("C03/unexpected-frame", "%s: after %s the server emitted a %s frame %.200q", mode, st.Raw, f.Kind, f.Raw)
		}
	}
	is2xx := ex.Status >= 200 && ex.Status < 300
	httpMode := mode != ModeStdio
	cls := mutClass(st)
	if len(responses) > 1 {
		return Failf("C03/duplicate-answer", "%s: %d response frames for %s", mode, len(responses), st.Raw)
	}
	if len(responses) == 0 {
		if exp.Anything || exp.NoAnswer {
			return nil
		}
		if httpMode && !is2xx {
			if exp.HTTPErr {
				return nil
			}
			return Failf("C03/http-error-instead-of-jsonrpc/"+cls, "%s: %s answered with bare HTTP %d %q; reference allows result=%v codes=%v", mode, st.Raw, ex.Status, ex.Body, exp.AllowResult, exp.Codes)
		}
		if mode.IsStreamable() {
			if ex.Status == 202 && exp.Ack {
				return nil
			}
			return Failf("C03/empty-2xx/"+cls, "%s: %s answered with HTTP %d and no message (body %q)", mode, st.Raw, ex.Status, ex.Body)
		}
		return TimingFailf("C03/no-answer/"+mode.String()+"/"+cls, "%s: no answer to %s (status %d)", mode, st.Raw, ex.Status)
	}
	f := responses[0]
	if exp.Anything {
		return nil
	}
	// id echo
	if id, ok := f.V["id"]; ok && id != nil {
		if st.ID == "" || !sameID(st.ID, id) {
			if !(exp.IDUnknown) {
				return Failf("C03/id-mismatch", "%s: request id %s answered under id %v (%s)", mode, st.ID, id, f.Raw)
			}
		}
	} else if !exp.IDUnknown && f.Kind == "response" {
		return Failf("C03/id-missing", "%s: response without id to %s: %s", mode, st.Raw, f.Raw)
	} else if !exp.IDUnknown && st.ID != "" && st.ID != "null" {
		return Failf("C03/id-missing", "%s: error without the request id to %s: %s", mode, st.Raw, f.Raw)
	}
	if exp.NoAnswer && f.Kind == "response" {
		return Failf("C03/answer-to-notification/"+cls, "%s: %s was answered with a result: %s", mode, st.Raw, f.Raw)
	}
	if f.Kind == "error" {
		code := codeOf(f)
		if !exp.AnyError && !containsInt(exp.Codes, code) {
			return Failf(fmt.Sprintf("C03/wrong-error-code/%s/%s/got%d", st.Method, cls, code), "%s: %s answered with error %d %q; reference allows result=%v codes=%v", mode, st.Raw, code, msgOf(f), exp.AllowResult, exp.Codes)
		}
		if exp.MsgContains != "" && code == -32603 && !strings.Contains(msgOf(f), exp.MsgContains) {
			return Failf("C03/handler-message-lost", "%s: -32603 for %s does not carry the handler's message %q: %s", mode, st.Raw, exp.MsgContains, f.Raw)
		}
		return nil
	}
	// success result
	if !exp.AllowResult {
		return Failf(fmt.Sprintf("C03/result-instead-of-error/%s/%s", st.Method, cls), "%s: %s answered with a result %.200s; reference demands error codes %v", mode, st.Raw, f.Raw, exp.Codes)
	}
	kind := exp.ResultKind
	if kind == "" {
		kind = "result:any"
	}
	res := f.V["result"]
	if err := Spec().ValidateAt("#/$defs/"+strings.NewReplacer(":", ".", "/", ".").Replace(kind), res); err != nil {
		return Failf("C03/result-shape/"+st.Method, "%s: result of %s violates the MCP shape: %v: %.300s", mode, st.Raw, err, f.Raw)
	}
	if rm, ok := res.(map[string]interface{}); ok && exp.IsErrorFlag != 0 {
		ie, _ := rm["isError"].(bool)
		if (exp.IsErrorFlag == 1) != ie {
			return Failf("C03/iserror-flag", "%s: isError=%v for %s: %s", mode, ie, st.Raw, f.Raw)
		}
		if exp.TextEquals != "" {
			items, _ := rm["content"].([]interface{})
			got := ""
			if len(items) == 1 {
				if it, ok := items[0].(map[string]interface{}); ok {
					got, _ = it["text"].(string)
				}
			}
			if got != exp.TextEquals {
				return Failf("C03/wrong-result", "%s: %s returned text %q, handler computed %q", mode, st.Raw, got, exp.TextEquals)
			}
		}
	}
	return nil
}
