package harness

import (
	"context"
	"encoding/json"
	"fmt"
	"net/http"
	"os"
	"path/filepath"
	"reflect"
	"sort"
	"strings"
	"testing"
	"time"

	"pgregory.net/rapid"
	mcp "trpc.group/trpc-go/trpc-mcp-go"
)

// C02: what a handler returns is what the caller receives (wire fidelity), over
// every transport, with the library's own clients as callers.

type C02Case struct {
	Mode Mode   `json:"mode"` // server kind / mode; the client kind follows from it
	Real bool   `json:"real"` // Streamable / legacy: real loopback TCP with the default request handler instead of the in-process bridge
	Reg  C02Reg `json:"reg"`
}

var c02Classes = []string{"ascii", "ascii", "bmp", "astral", "ctrl", "lines", "seps", "quotes", "nul", "sse"}

// words the protocol itself uses, and text a careless formatter or scanner would trip over
var c02Literals = []string{"error", "result", "null", "true", "{}", "[]", "jsonrpc", "id", "method", "\"error\"", "\"error\":{\"code\":1}", "100% of %d %s %v %%", "%!d(MISSING)", "data: x", "isError"}

func genStr(t *rapid.T, label string, allowEmpty bool) StrSpec {
	if rapid.IntRange(0, 11).Draw(t, label+"lit") == 0 {
		return StrSpec{Class: "lit", N: 1, Lit: rapid.SampledFrom(c02Literals).Draw(t, label+"literal")}
	}
	class := rapid.SampledFrom(c02Classes).Draw(t, label+"class")
	var n int
	switch rapid.IntRange(0, 19).Draw(t, label+"size") {
	case 0:
		n = 0
	case 1:
		n = 70000 // beyond a 64 KiB buffer
	case 2:
		n = 4096
	case 3:
		if Thorough() {
			n = 1 << 20
		} else {
			n = 200000
		}
	default:
		n = rapid.IntRange(1, 40).Draw(t, label+"n")
	}
	if n == 0 && !allowEmpty {
		n = 1
	}
	return StrSpec{Class: class, N: n, Seed: rapid.IntRange(0, 999).Draw(t, label+"seed")}
}

func c02EmptyOK(class string) bool {
	if Excluded("C02/empty-" + class) {
		CountExcluded("C02/empty-" + class)
		return false
	}
	return true
}

func genContent(t *rapid.T, label string, resourceOnly bool) C02Content {
	kinds := []string{"text", "text", "image", "res-text", "res-blob"}
	if !Excluded("C02/audio-content") {
		kinds = append(kinds, "audio")
	} else {
		CountExcluded("C02/audio-content")
	}
	if resourceOnly {
		kinds = []string{"res-text", "res-blob"}
	}
	k := rapid.SampledFrom(kinds).Draw(t, label+"kind")
	if (k == "res-text" || k == "res-blob") && !resourceOnly && Excluded("C02/embedded-resource-type") {
		CountExcluded("C02/embedded-resource-type")
		k = "text"
	}
	c := C02Content{Kind: k}
	switch k {
	case "text":
		c.Text = genStr(t, label+"text", c02EmptyOK("text"))
	case "image", "audio":
		c.Data = StrSpec{Class: "ascii", N: rapid.SampledFrom([]int{0, 4, 64, 70000}).Draw(t, label+"datalen"), Seed: 3}
		c.Mime = rapid.SampledFrom([]string{"image/png", "audio/wav", "application/octet-stream; x=\"y\""}).Draw(t, label+"mime")
	case "res-text":
		c.Text = genStr(t, label+"rtext", c02EmptyOK("resource-text"))
		c.URI = rapid.SampledFrom([]string{"file:///a.txt", "mem://x?y=z#f", "urn:ünï"}).Draw(t, label+"uri")
		c.Mime = rapid.SampledFrom([]string{"", "text/plain", "text/markdown; charset=utf-8"}).Draw(t, label+"rmime")
	case "res-blob":
		c.Data = StrSpec{Class: "ascii", N: rapid.SampledFrom([]int{0, 4, 1000, 100000}).Draw(t, label+"bloblen"), Seed: 5}
		c.URI = rapid.SampledFrom([]string{"file:///b.bin", "blob:1"}).Draw(t, label+"buri")
		c.Mime = rapid.SampledFrom([]string{"", "application/octet-stream"}).Draw(t, label+"bmime")
	}
	return c
}

func genJSONTree(t *rapid.T, depth int) interface{} {
	max := 6
	if depth >= 4 {
		max = 3
	}
	switch rapid.IntRange(0, max).Draw(t, "jkind") {
	case 0:
		return rapid.SampledFrom([]string{"", "s", "ünï\n", " ", "<&>"}).Draw(t, "jstr")
	case 1:
		return float64(rapid.SampledFrom([]int64{0, -1, 1 << 31, 1<<53 - 1, -(1 << 53)}).Draw(t, "jint"))
	case 2:
		return rapid.Bool().Draw(t, "jbool")
	case 3:
		return rapid.SampledFrom([]float64{0.5, -1e-7, 1e21}).Draw(t, "jfloat")
	case 4:
		return nil
	case 5:
		n := rapid.IntRange(0, 3).Draw(t, "jarr")
		a := []interface{}{}
		for i := 0; i < n; i++ {
			a = append(a, genJSONTree(t, depth+1))
		}
		return a
	default:
		n := rapid.IntRange(0, 3).Draw(t, "jobj")
		m := map[string]interface{}{}
		for i := 0; i < n; i++ {
			m[rapid.SampledFrom([]string{"a", "b", "_meta", "ünï", "x y", "error", "result", "100%"}).Draw(t, "jkey")] = genJSONTree(t, depth+1)
		}
		return m
	}
}

func genC02(t *rapid.T) C02Case {
	c := C02Case{Mode: Mode(rapid.IntRange(0, int(NumModes)-1).Draw(t, "mode")), Real: rapid.IntRange(0, 9).Draw(t, "real") == 0}
	nt := rapid.IntRange(1, 3).Draw(t, "ntools")
	for i := 0; i < nt; i++ {
		tl := C02Tool{Name: fmt.Sprintf("tool%d", i), Desc: genStr(t, "tdesc", true)}
		nc := rapid.IntRange(0, 4).Draw(t, "ncontent")
		for j := 0; j < nc; j++ {
			tl.Content = append(tl.Content, genContent(t, "c", false))
		}
		tl.IsError = rapid.IntRange(0, 4).Draw(t, "iserror") == 0
		if rapid.IntRange(0, 2).Draw(t, "structured") == 0 {
			tree := genJSONTree(t, 0)
			if _, isMap := tree.(map[string]interface{}); !isMap && (tree == nil || rapid.IntRange(0, 1).Draw(t, "wrap") == 0) {
				// (the field is an interface{}: typed handlers put slices, strings and numbers there as well)
				tree = map[string]interface{}{"v": tree}
			}
			tl.Structured, _ = json.Marshal(tree)
		}
		if rapid.IntRange(0, 3).Draw(t, "meta") == 0 {
			tl.Meta, _ = json.Marshal(map[string]interface{}{"k": genJSONTree(t, 3)})
		}
		if rapid.IntRange(0, 5).Draw(t, "toolerr") == 0 {
			e := genStr(t, "terr", false)
			tl.Err = &e
		}
		if rapid.Bool().Draw(t, "hints") {
			for h := 0; h < 4; h++ {
				tl.Hints = append(tl.Hints, rapid.IntRange(-1, 1).Draw(t, "hint"))
			}
			tl.Title = rapid.SampledFrom([]string{"", "Title ünï"}).Draw(t, "title")
		}
		np := rapid.IntRange(0, 4).Draw(t, "nprops")
		for j := 0; j < np; j++ {
			p := rapid.SampledFrom([]string{"s", "n", "i", "b", "a", "o"}).Draw(t, "pkind") + fmt.Sprintf(":p%d", j)
			if rapid.Bool().Draw(t, "preq") {
				p += "!"
			}
			tl.Props = append(tl.Props, p)
		}
		tl.OutSchema = rapid.IntRange(0, 3).Draw(t, "outschema") == 0
		c.Reg.Tools = append(c.Reg.Tools, tl)
	}
	np := rapid.IntRange(0, 2).Draw(t, "nprompts")
	for i := 0; i < np; i++ {
		p := C02Prompt{Name: fmt.Sprintf("prompt%d", i), Desc: genStr(t, "pdesc", true), ResDesc: genStr(t, "prdesc", true)}
		na := rapid.IntRange(0, 2).Draw(t, "nargs")
		for j := 0; j < na; j++ {
			a := fmt.Sprintf("arg%d", j)
			if rapid.Bool().Draw(t, "areq") {
				a += "!"
			}
			p.Args = append(p.Args, a)
		}
		nm := rapid.IntRange(0, 3).Draw(t, "nmsgs")
		for j := 0; j < nm; j++ {
			p.Messages = append(p.Messages, genContent(t, "m", false))
			p.Roles = append(p.Roles, rapid.SampledFrom([]string{"user", "assistant"}).Draw(t, "role"))
		}
		if rapid.IntRange(0, 5).Draw(t, "perr") == 0 {
			e := genStr(t, "perrs", false)
			p.Err = &e
		}
		c.Reg.Prompts = append(c.Reg.Prompts, p)
	}
	nr := rapid.IntRange(0, 2).Draw(t, "nres")
	for i := 0; i < nr; i++ {
		r := C02Resource{URI: fmt.Sprintf("file:///r%d", i), Name: fmt.Sprintf("res%d-é", i), Desc: genStr(t, "rdesc", true), Mime: rapid.SampledFrom([]string{"", "text/plain"}).Draw(t, "resmime"),
			Size: rapid.SampledFrom([]int64{0, 1, 1 << 40}).Draw(t, "size"), Multi: rapid.Bool().Draw(t, "multi")}
		n := 1
		if r.Multi {
			n = rapid.IntRange(0, 3).Draw(t, "ncontents")
		}
		for j := 0; j < n; j++ {
			cc := genContent(t, "rc", true)
			r.Contents = append(r.Contents, cc)
		}
		if rapid.IntRange(0, 5).Draw(t, "rerr") == 0 {
			e := genStr(t, "rerrs", false)
			r.Err = &e
		}
		c.Reg.Resources = append(c.Reg.Resources, r)
	}
	return c
}

func ntC02(c C02Case) (bool, []string) {
	nt := false
	labels := []string{"mode=" + c.Mode.String()}
	check := func(s StrSpec) {
		if s.NonASCII() || s.N >= 65536 {
			nt = true
		}
		labels = append(labels, "class="+s.Class)
	}
	for _, t := range c.Reg.Tools {
		kinds := map[string]bool{}
		for _, cc := range t.Content {
			kinds[cc.Kind] = true
			check(cc.Text)
			labels = append(labels, "content="+cc.Kind)
		}
		if len(kinds) >= 2 || len(t.Structured) > 0 {
			nt = true
		}
	}
	return nt, labels
}

// libClient connects the library's own client of the kind that fits the world.
type libClient struct {
	C       mcp.Connector
	Bridge  *Bridge
	cleanup []func()
}

func (l *libClient) Close() {
	if l.C != nil {
		l.C.Close()
	}
	for i := len(l.cleanup) - 1; i >= 0; i-- {
		l.cleanup[i]()
	}
}

// ConnectLib builds and initializes the library client for a world (child spec only for stdio).
func (w *World) ConnectLib(real bool, child *ChildSpec, opts ...mcp.ClientOption) (*libClient, error) {
	return w.ConnectLibWithin(20*time.Second, real, child, opts...)
}

// ConnectLibWithin is ConnectLib with the deadline of the context the handshake is performed under: the handshake's
// context bounds the handshake, not the life of the connection it sets up.
func (w *World) ConnectLibWithin(handshake time.Duration, real bool, child *ChildSpec, opts ...mcp.ClientOption) (*libClient, error) {
	l := &libClient{}
	info := mcp.Implementation{Name: "verif-lib-client", Version: "1"}
	ctx, cancel := context.WithTimeout(context.Background(), handshake)
	defer cancel()
	switch {
	case w.Mode == ModeStdio:
		dir, _ := os.MkdirTemp("", "child")
		l.cleanup = append(l.cleanup, func() { os.RemoveAll(dir) })
		b, _ := json.Marshal(child)
		specPath := filepath.Join(dir, "spec.json")
		os.WriteFile(specPath, b, 0o644)
		exe, _ := os.Executable()
		params := mcp.StdioServerParameters{Command: exe, Args: []string{"-test.run", "^$"}, Env: map[string]string{"VERIF_CHILD": "server", "VERIF_CHILD_SPEC": "@" + specPath}}
		c, err := mcp.NewStdioClient(mcp.StdioTransportConfig{ServerParams: params, Timeout: 20 * time.Second}, info, mcp.WithStdioLogger(nopLogger{}))
		if err != nil {
			return nil, err
		}
		l.C = c
	default:
		var h = w.SSE.ServeHTTP
		url := "http://verif.invalid/sse"
		if w.Mode.IsStreamable() {
			h = w.Srv.Handler().ServeHTTP
			url = "http://verif.invalid/mcp"
		}
		o := []mcp.ClientOption{mcp.WithClientLogger(nopLogger{})}
		if real {
			ts := ServeTCP(http.HandlerFunc(h))
			l.cleanup = append(l.cleanup, ts.Close)
			url = ts.URL + url[len("http://verif.invalid"):]
		} else {
			l.Bridge = &Bridge{H: http.HandlerFunc(h)}
			o = append(o, mcp.WithHTTPReqHandler(l.Bridge))
		}
		o = append(o, opts...)
		var c *mcp.Client
		var err error
		if w.Mode.IsStreamable() {
			c, err = mcp.NewClient(url, info, o...)
		} else {
			c, err = mcp.NewSSEClient(url, info, o...)
		}
		if err != nil {
			return nil, err
		}
		l.C = c
	}
	stopPre := func() {}
	if w.PreInit != nil {
		stopPre = w.PreInit(l.C)
	}
	_, err := l.C.Initialize(ctx, &mcp.InitializeRequest{})
	stopPre()
	if err != nil {
		l.Close()
		return nil, fmt.Errorf("initialize: %w", err)
	}
	return l, nil
}

func projectToolResult(r *mcp.CallToolResult) interface{} {
	items := []interface{}{}
	for _, c := range r.Content {
		items = append(items, ProjectContent(c))
	}
	out := map[string]interface{}{"content": items, "isError": r.IsError}
	if r.StructuredContent != nil {
		out["structured"] = canon(r.StructuredContent)
	}
	if len(r.Meta) > 0 {
		out["meta"] = canon(map[string]interface{}(r.Meta))
	}
	return out
}

func (t C02Tool) project() interface{} {
	items := []interface{}{}
	for _, c := range t.Content {
		items = append(items, c.Project())
	}
	out := map[string]interface{}{"content": items, "isError": t.IsError}
	if len(t.Structured) > 0 {
		var v interface{}
		json.Unmarshal(t.Structured, &v)
		out["structured"] = canon(v)
	}
	if len(t.Meta) > 0 {
		var v map[string]interface{}
		json.Unmarshal(t.Meta, &v)
		if len(v) > 0 {
			out["meta"] = canon(v)
		}
	}
	return out
}

func firstDiff(a, b interface{}, path string) string {
	switch x := a.(type) {
	case map[string]interface{}:
		y, ok := b.(map[string]interface{})
		if !ok {
			return fmt.Sprintf("%s: %T vs %T", path, a, b)
		}
		keys := map[string]bool{}
		for k := range x {
			keys[k] = true
		}
		for k := range y {
			keys[k] = true
		}
		ks := sortedKeys(keys)
		for _, k := range ks {
			xv, xo := x[k]
			yv, yo := y[k]
			if xo != yo {
				return fmt.Sprintf("%s.%s: present %v vs %v", path, k, xo, yo)
			}
			if d := firstDiff(xv, yv, path+"."+k); d != "" {
				return d
			}
		}
		return ""
	case []interface{}:
		y, ok := b.([]interface{})
		if !ok || len(x) != len(y) {
			return fmt.Sprintf("%s: list of %d vs %v", path, len(x), describe(b))
		}
		for i := range x {
			if d := firstDiff(x[i], y[i], fmt.Sprintf("%s[%d]", path, i)); d != "" {
				return d
			}
		}
		return ""
	case string:
		y, ok := b.(string)
		if !ok {
			return fmt.Sprintf("%s: string vs %T", path, b)
		}
		if x != y {
			i := 0
			for i < len(x) && i < len(y) && x[i] == y[i] {
				i++
			}
			lo := i - 10
			if lo < 0 {
				lo = 0
			}
			return fmt.Sprintf("%s: strings differ at byte %d (lengths %d / %d): %q vs %q", path, i, len(x), len(y), clip(x[lo:], 30), clip(y[lo:], 30))
		}
		return ""
	}
	if !reflect.DeepEqual(a, b) {
		return fmt.Sprintf("%s: %v vs %v", path, a, b)
	}
	return ""
}

func clip(s string, n int) string {
	if len(s) > n {
		return s[:n]
	}
	return s
}

func describe(v interface{}) string {
	if l, ok := v.([]interface{}); ok {
		return fmt.Sprintf("list of %d", len(l))
	}
	return fmt.Sprintf("%T", v)
}

// classifyC02 maps failures that belong to known classes to their keys.
func classifyC02Err(where string, err error) *Failure {
	msg := err.Error()
	key := "C02/client-error"
	switch {
	case strings.Contains(msg, "unsupported content type: audio"):
		key = "C02/audio-content"
	case strings.Contains(msg, "unsupported content type: embedded_resource"):
		key = "C02/embedded-resource-type"
	case strings.Contains(msg, "text is missing"):
		key = "C02/empty-text"
	case strings.Contains(msg, "unsupported resource type"):
		key = "C02/empty-resource-text"
	case strings.Contains(msg, "image data or mimeType is missing"):
		key = "C02/empty-image"
	}
	return Failf(key, "%s: the client reports %v", where, err)
}

func execC02(c C02Case) *Failure {
	w := NewWorld(c.Mode, RegSpec{}, WorldOpt{})
	defer w.Close()
	var srv interface{}
	switch {
	case w.Srv != nil:
		srv = w.Srv
	case w.SSE != nil:
		srv = w.SSE
	default:
		srv = w.Stdio
	}
	if c.Mode != ModeStdio {
		registerC02(RegistrarOf(srv), c.Reg, nil)
	}
	lc, err := w.ConnectLib(c.Real, &ChildSpec{Role: "server", C02: &c.Reg})
	if err != nil {
		return Failf("C02/connect", "%s: %v", c.Mode, err)
	}
	defer lc.Close()
	return checkC02Client(c, lc.C)
}

func checkC02Client(c C02Case, cl mcp.Connector) *Failure {
	ctx, cancel := context.WithTimeout(context.Background(), 60*time.Second)
	defer cancel()
	// descriptors
	lt, err := cl.ListTools(ctx, &mcp.ListToolsRequest{})
	if err != nil {
		return Failf("C02/list-tools", "%s: %v", c.Mode, err)
	}
	got := map[string]mcp.Tool{}
	for _, t := range lt.Tools {
		got[t.Name] = t
	}
	if len(lt.Tools) != len(c.Reg.Tools) {
		return Failf("C02/tool-descriptors", "%s: %d tools listed, %d registered", c.Mode, len(lt.Tools), len(c.Reg.Tools))
	}
	for _, ts := range c.Reg.Tools {
		reg := ts.BuildTool()
		g, ok := got[ts.Name]
		if !ok {
			return Failf("C02/tool-descriptors", "%s: tool %q is not listed", c.Mode, ts.Name)
		}
		if g.Description != reg.Description {
			return Failf("C02/tool-descriptors", "%s: tool %q description: %s", c.Mode, ts.Name, firstDiff(reg.Description, g.Description, "description"))
		}
		for _, pair := range []struct {
			what string
			raw  json.RawMessage
			reg  interface{}
		}{{"inputSchema", g.RawInputSchema, reg.InputSchema}, {"outputSchema", g.RawOutputSchema, reg.OutputSchema}} {
			rb, _ := json.Marshal(pair.reg)
			if string(rb) == "null" && len(pair.raw) == 0 {
				continue
			}
			a, _ := DecodeJSON(pair.raw)
			b, _ := DecodeJSON(rb)
			if !jsonEqual(a, b) {
				return Failf("C02/tool-descriptors", "%s: tool %q %s: listed %s, registered %s", c.Mode, ts.Name, pair.what, pair.raw, rb)
			}
		}
		ga, _ := json.Marshal(g.Annotations)
		ra, _ := json.Marshal(reg.Annotations)
		av, _ := DecodeJSON(ga)
		bv, _ := DecodeJSON(ra)
		if !jsonEqual(av, bv) {
			return Failf("C02/tool-descriptors", "%s: tool %q annotations: listed %s, registered %s", c.Mode, ts.Name, ga, ra)
		}
	}
	// tool results
	for _, ts := range c.Reg.Tools {
		req := &mcp.CallToolRequest{}
		req.Params.Name = ts.Name
		req.Params.Arguments = map[string]interface{}{"x": 1}
		res, err := cl.CallTool(ctx, req)
		where := fmt.Sprintf("%s CallTool(%s)", c.Mode, ts.Name)
		if ts.Err != nil {
			if err == nil {
				return Failf("C02/handler-error-lost", "%s: the handler failed with %.80q but the client got a result", where, ts.Err.Expand())
			}
			if !strings.Contains(err.Error(), ts.Err.Expand()) {
				return Failf("C02/handler-error-message", "%s: client error %.300q does not carry the handler's message %.120q", where, err.Error(), ts.Err.Expand())
			}
			continue
		}
		if err != nil {
			return classifyC02Err(where, err)
		}
		if d := firstDiff(ts.project(), projectToolResult(res), "result"); d != "" {
			f := Failf("C02/tool-result", "%s: handler value vs client value: %s", where, d)
			return f
		}
	}
	// prompts
	if len(c.Reg.Prompts) > 0 {
		lp, err := cl.ListPrompts(ctx, &mcp.ListPromptsRequest{})
		if err != nil {
			return Failf("C02/list-prompts", "%s: %v", c.Mode, err)
		}
		gotP := map[string]mcp.Prompt{}
		for _, p := range lp.Prompts {
			gotP[p.Name] = p
		}
		for _, ps := range c.Reg.Prompts {
			g, ok := gotP[ps.Name]
			if !ok || g.Description != ps.Desc.Expand() || len(g.Arguments) != len(ps.Args) {
				return Failf("C02/prompt-descriptors", "%s: prompt %q listed as %+v", c.Mode, ps.Name, g)
			}
			for i, a := range ps.Args {
				if g.Arguments[i].Name != strings.TrimSuffix(a, "!") || g.Arguments[i].Required != strings.HasSuffix(a, "!") || g.Arguments[i].Description != "arg "+a {
					return Failf("C02/prompt-descriptors", "%s: prompt %q argument %d listed as %+v, registered %q", c.Mode, ps.Name, i, g.Arguments[i], a)
				}
			}
			req := &mcp.GetPromptRequest{}
			req.Params.Name = ps.Name
			req.Params.Arguments = map[string]string{"arg0": "v"}
			res, err := cl.GetPrompt(ctx, req)
			where := fmt.Sprintf("%s GetPrompt(%s)", c.Mode, ps.Name)
			if ps.Err != nil {
				if err == nil || !strings.Contains(err.Error(), ps.Err.Expand()) {
					return Failf("C02/handler-error-message", "%s: handler error %.120q, client got %v", where, ps.Err.Expand(), err)
				}
				continue
			}
			if err != nil {
				return classifyC02Err(where, err)
			}
			want := []interface{}{}
			for i, m := range ps.Messages {
				role := "user"
				if i < len(ps.Roles) {
					role = ps.Roles[i]
				}
				want = append(want, map[string]interface{}{"role": role, "content": m.Project()})
			}
			gotM := []interface{}{}
			for _, m := range res.Messages {
				gotM = append(gotM, map[string]interface{}{"role": string(m.Role), "content": ProjectContent(m.Content)})
			}
			if d := firstDiff(map[string]interface{}{"description": ps.ResDesc.Expand(), "messages": want}, map[string]interface{}{"description": res.Description, "messages": gotM}, "prompt"); d != "" {
				return Failf("C02/prompt-result", "%s: handler value vs client value: %s", where, d)
			}
		}
	}
	// resources
	if len(c.Reg.Resources) > 0 {
		lr, err := cl.ListResources(ctx, &mcp.ListResourcesRequest{})
		if err != nil {
			return Failf("C02/list-resources", "%s: %v", c.Mode, err)
		}
		var uris []string
		for _, r := range lr.Resources {
			uris = append(uris, r.URI)
		}
		sort.Strings(uris)
		for _, rs := range c.Reg.Resources {
			var g *mcp.Resource
			for i := range lr.Resources {
				if lr.Resources[i].URI == rs.URI {
					g = &lr.Resources[i]
				}
			}
			if g == nil || g.Name != rs.Name || g.Description != rs.Desc.Expand() || g.MimeType != rs.Mime || g.Size != rs.Size {
				return Failf("C02/resource-descriptors", "%s: resource %q listed as %+v (uris %v)", c.Mode, rs.URI, g, uris)
			}
			req := &mcp.ReadResourceRequest{}
			req.Params.URI = rs.URI
			res, err := cl.ReadResource(ctx, req)
			where := fmt.Sprintf("%s ReadResource(%s)", c.Mode, rs.URI)
			if rs.Err != nil {
				if err == nil || !strings.Contains(err.Error(), rs.Err.Expand()) {
					return Failf("C02/handler-error-message", "%s: handler error %.120q, client got %v", where, rs.Err.Expand(), err)
				}
				continue
			}
			if err != nil {
				return classifyC02Err(where, err)
			}
			want := []interface{}{}
			for _, cc := range rs.Contents {
				want = append(want, cc.Project())
			}
			gotC := []interface{}{}
			for _, cc := range res.Contents {
				gotC = append(gotC, projectResource(cc, false))
			}
			if d := firstDiff(want, gotC, "contents"); d != "" {
				return Failf("C02/resource-result", "%s: handler value vs client value: %s", where, d)
			}
		}
	}
	return nil
}

func TestC02(t *testing.T) {
	RunProp(t, Prop[C02Case]{ID: "C02", Gen: genC02, Exec: execC02, NT: ntC02})
}
