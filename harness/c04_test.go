package harness

import (
	"context"
	"encoding/hex"
	"encoding/json"
	"fmt"
	"math"
	"math/rand"
	"sort"
	"strings"
	"sync"
	"testing"
	"time"

	"pgregory.net/rapid"
	mcp "trpc.group/trpc-go/trpc-mcp-go"
)

// C04: Streamable-HTTP session lifecycle against a reference model.

type C04Op struct {
	Op    string `json:"op"`              // init req notif resp get closestream delete deleterace (several DELETEs of one id at once)
	Class string `json:"class,omitempty"` // none live dead never garbage
	Sess  int    `json:"sess,omitempty"`  // index into the issued list (mod len)
	Arg   string `json:"arg,omitempty"`   // method for req, garbage value for garbage
}

type C04Case struct {
	Cfg     int     `json:"cfg"` // 0 stateful, 1 stateless, 2 sessions disabled
	GetSSE  bool    `json:"getsse"`
	PostSSE bool    `json:"postsse"`
	Ops     []C04Op `json:"ops"`
	Order   int     `json:"order,omitempty"` // the server options are given in this rotation of their usual order (options are a set, not a sequence)
	MW      int     `json:"mw,omitempty"`    // number of pass-through middlewares the server is built with (the life cycle does not depend on them)
}

// initialize requests the server rejects (answered with a JSON-RPC error): whatever id the answer carries is an issued id
var c04BadInits = []string{
	`{"jsonrpc":"2.0","id":1,"method":"initialize"}`,
	`{"jsonrpc":"2.0","id":1,"method":"initialize","params":[]}`,
	`{"jsonrpc":"2.0","id":1,"method":"initialize","params":{}}`,
	`{"jsonrpc":"2.0","id":1,"method":"initialize","params":{"protocolVersion":7}}`,
	`{"jsonrpc":"2.0","id":1,"method":"initialize","params":{"capabilities":{},"clientInfo":{"name":"x","version":"1"}}}`,
}

var garbageIDs = []string{"x", "../../etc/passwd", "0000", "deadbeef", "é", " ", "null", "00000000000000000000000000000000 ", strings.Repeat("a", 5000), "%00"}

func genC04(t *rapid.T) C04Case {
	c := C04Case{Cfg: rapid.SampledFrom([]int{0, 0, 0, 0, 1, 2}).Draw(t, "cfg"), GetSSE: rapid.IntRange(0, 4).Draw(t, "get") != 0, PostSSE: rapid.Bool().Draw(t, "postsse")}
	c.Order = rapid.IntRange(0, 5).Draw(t, "order")
	c.MW = rapid.SampledFrom([]int{0, 0, 1, 2}).Draw(t, "mw")
	n := rapid.IntRange(1, 14).Draw(t, "nops")
	for i := 0; i < n; i++ {
		op := C04Op{Op: rapid.SampledFrom([]string{"init", "init", "badinit", "req", "req", "req", "notif", "resp", "get", "get", "closestream", "delete", "delete", "deleterace"}).Draw(t, "op")}
		op.Class = rapid.SampledFrom([]string{"none", "live", "live", "live", "dead", "dead", "never", "garbage", "near"}).Draw(t, "class")
		op.Sess = rapid.IntRange(0, 4).Draw(t, "sess")
		switch op.Op {
		case "req":
			op.Arg = rapid.SampledFrom([]string{"ping", "tools/list", "tools/call", "sess", "sess", "chatty", "chatty"}).Draw(t, "method")
		case "badinit":
			op.Arg = rapid.SampledFrom(c04BadInits).Draw(t, "badinit")
		}
		if op.Class == "garbage" {
			op.Arg2()
			op.Arg = op.Arg + "|" + rapid.SampledFrom(garbageIDs).Draw(t, "garbage")
		}
		c.Ops = append(c.Ops, op)
	}
	return c
}

// Arg2 is a no-op kept so that the garbage suffix logic stays in one place.
func (o *C04Op) Arg2() {}

func (o C04Op) method() string {
	return strings.SplitN(o.Arg, "|", 2)[0]
}
func (o C04Op) garbage() string {
	p := strings.SplitN(o.Arg, "|", 2)
	if len(p) == 2 {
		return p[1]
	}
	return "x"
}

func ntC04(c C04Case) (bool, []string) {
	neg, del, inits := false, false, 0
	labels := []string{fmt.Sprintf("cfg=%d", c.Cfg)}
	sawDelete := false
	for _, op := range c.Ops {
		labels = append(labels, "op="+op.Op, "class="+op.Class)
		if op.Class != "live" && !(op.Op == "init" && op.Class == "none") {
			neg = true
		}
		if op.Op == "init" && op.Class == "none" {
			inits++
		}
		if (op.Op == "delete" || op.Op == "deleterace") && op.Class == "live" {
			sawDelete = true
		} else if sawDelete && op.Class == "dead" {
			del = true
		}
	}
	return neg && (inits >= 2 || del), labels
}

func c04Server(c C04Case) *mcp.Server {
	opts := []mcp.ServerOption{mcp.WithServerLogger(nopLogger{}), mcp.WithServerPath("/mcp"), mcp.WithGetSSEEnabled(c.GetSSE), mcp.WithPostSSEEnabled(c.PostSSE)}
	switch c.Cfg {
	case 1:
		opts = append(opts, mcp.WithStatelessMode(true))
	case 2:
		opts = append(opts, mcp.WithoutSession())
	}
	for i := 0; i < c.MW; i++ {
		opts = append(opts, mcp.WithMiddleware(func(next mcp.HandlerFunc) mcp.HandlerFunc {
			return func(ctx context.Context, req *mcp.JSONRPCRequest) (mcp.JSONRPCMessage, error) { return next(ctx, req) }
		}))
	}
	if k := c.Order % len(opts); k > 0 {
		opts = append(append([]mcp.ServerOption(nil), opts[k:]...), opts[:k]...)
	}
	s := mcp.NewServer("c04", "1", opts...)
	w := &World{Calls: map[string]int{}}
	w.Register(RegistrarOf(s), RegSpec{Tools: []ToolSpec{{Name: "alpha", Desc: "d"}, {Name: "beta"}}})
	// a tool that keeps scratch data in the session it is handed (user code is entitled to do that)
	s.RegisterTool(mcp.NewTool("sess"), func(ctx context.Context, req *mcp.CallToolRequest) (*mcp.CallToolResult, error) {
		n, prev := 0, interface{}("nobody")
		for _, sess := range []mcp.Session{mcp.ClientSessionFromContext(ctx), sessionOf(ctx)} {
			if sess == nil {
				continue
			}
			if v, ok := sess.GetData("n"); ok {
				n, _ = v.(int)
			}
			if v, ok := sess.GetData("who"); ok {
				prev = v
			}
			sess.SetData("n", n+1)
			sess.SetData("who", req.Params.Arguments["who"])
			break
		}
		return mcp.NewTextResult(fmt.Sprintf("calls-before=%d previous=%v", n, prev)), nil
	})
	// a tool that reports progress before it answers: on an event-stream response the first event commits the headers
	s.RegisterTool(mcp.NewTool("chatty"), func(ctx context.Context, req *mcp.CallToolRequest) (*mcp.CallToolResult, error) {
		if sender, ok := mcp.GetNotificationSender(ctx); ok {
			sender.SendNotification(mcp.NewNotification("notifications/verif-chatty", map[string]interface{}{"n": 1}))
			sender.SendNotification(mcp.NewNotification("notifications/verif-chatty", map[string]interface{}{"n": 2}))
		}
		return mcp.NewTextResult("chatty-done"), nil
	})
	return s
}

// answerFrames: the frames of an exchange that are answers (carry an id and a result or error); a handler that notifies
// before it answers puts notification frames in front of the answer on an event-stream response.
func answerFrames(ex Exchange) int {
	n := 0
	for _, f := range ex.Frames {
		var v map[string]json.RawMessage
		if json.Unmarshal(f, &v) == nil && v["id"] != nil && (v["result"] != nil || v["error"] != nil) {
			n++
		}
	}
	return n
}

func sessionOf(ctx context.Context) mcp.Session {
	if s, ok := mcp.GetSessionFromContext(ctx); ok {
		return s
	}
	return nil
}

func normaliseBody(ex Exchange) string {
	if len(ex.Frames) != 1 {
		return fmt.Sprintf("frames=%d status=%d", len(ex.Frames), ex.Status)
	}
	var v map[string]interface{}
	if json.Unmarshal(ex.Frames[0], &v) != nil {
		return string(ex.Frames[0])
	}
	if r, ok := v["result"].(map[string]interface{}); ok {
		if tl, ok := r["tools"].([]interface{}); ok {
			sort.Slice(tl, func(i, j int) bool {
				a, _ := tl[i].(map[string]interface{})
				b, _ := tl[j].(map[string]interface{})
				return fmt.Sprint(a["name"]) < fmt.Sprint(b["name"])
			})
		}
	}
	b, _ := json.Marshal(v)
	return string(b)
}

func checkIDFormat(id string) *Failure {
	if len(id) < 22 {
		return Failf("C04/id-too-short", "session id %q is too short to carry 128 bits", id)
	}
	for _, r := range []byte(id) {
		if r < 0x21 || r > 0x7E {
			return Failf("C04/id-not-visible-ascii", "session id %q contains byte 0x%02x", id, r)
		}
	}
	return nil
}

func execC04(c C04Case) *Failure {
	srv := c04Server(c)
	h := srv.Handler()
	var issued []string
	live := map[string]bool{}
	dead := map[string]bool{}
	streams := map[string]*LiveResp{}
	older := map[string][]*LiveResp{} // streams of a session that a later GET of the same session replaced
	var allStreams []*LiveResp
	defer func() {
		for _, s := range allStreams {
			s.PeerGone()
		}
	}()
	never := "0123456789abcdef0123456789abcdef"
	stateful := c.Cfg == 0

	pick := func(op C04Op) (class string, id string) {
		switch op.Class {
		case "none":
			return "none", ""
		case "never":
			return "never", never
		case "garbage":
			return "garbage", op.garbage()
		case "near":
			// a look-alike of a live id that the server never issued: other case of its letters, one character less or more
			for _, id := range issued {
				if !live[id] {
					continue
				}
				for k := 0; k < 3; k++ {
					v := []string{strings.ToUpper(id), id[:len(id)-1], id + "0"}[(op.Sess+k)%3]
					if v != id && !live[v] {
						return "never", v
					}
				}
			}
			return "never", never
		}
		var pool []string
		for _, id := range issued {
			if (op.Class == "live") == live[id] {
				pool = append(pool, id)
			}
		}
		if len(pool) == 0 {
			return "never", never
		}
		return op.Class, pool[op.Sess%len(pool)]
	}

	for step, op := range c.Ops {
		class, id := pick(op)
		hdr := map[string]string{"Content-Type": "application/json", "Accept": "application/json"}
		if c.PostSSE {
			hdr["Accept"] = "application/json, text/event-stream"
		}
		if class != "none" {
			hdr["Mcp-Session-Id"] = id
		}
		where := fmt.Sprintf("step %d %s/%s(id=%.40q) cfg=%d get=%v postsse=%v", step, op.Op, class, id, c.Cfg, c.GetSSE, c.PostSSE)
		known := class == "live"
		var ex Exchange
		direct := func(method string, body string) Exchange {
			w := &World{Srv: srv, Path: "/mcp"}
			var b []byte
			if body != "" {
				b = []byte(body)
			}
			return w.Direct(method, "/mcp", hdr, b)
		}
		checkHeader := func(ex Exchange, wantSame bool) *Failure {
			got := ex.Header.Get("Mcp-Session-Id")
			if !stateful {
				if got != "" {
					return Failf("C04/id-issued-without-sessions", "%s: response carries Mcp-Session-Id %q", where, got)
				}
				return nil
			}
			if wantSame && got != id {
				return Failf("C04/id-not-echoed", "%s: served with Mcp-Session-Id %q, want %q", where, got, id)
			}
			if !wantSame && got != "" && got != id {
				return Failf("C04/id-issued-unexpectedly", "%s: response carries a session id %q although none may be issued here", where, got)
			}
			return nil
		}
		refuse := func(ex Exchange, want ...int) *Failure {
			for _, w := range want {
				if ex.Status == w {
					return checkHeader(ex, false)
				}
			}
			return Failf(fmt.Sprintf("C04/not-refused/%s/%s/got%d", op.Op, class, ex.Status), "%s: status %d, want %v (body %.120q)", where, ex.Status, want, ex.Body)
		}
		switch op.Op {
		case "init", "badinit", "req", "notif", "resp":
			var body string
			switch op.Op {
			case "init":
				body = string(InitRequest("1", "2025-03-26"))
			case "badinit":
				body = op.method()
			case "req":
				switch op.method() {
				case "tools/call":
					body = `{"jsonrpc":"2.0","id":2,"method":"tools/call","params":{"name":"alpha","arguments":{"nonce":"x"}}}`
				case "chatty":
					body = `{"jsonrpc":"2.0","id":2,"method":"tools/call","params":{"name":"chatty","arguments":{}}}`
				case "sess":
					body = fmt.Sprintf(`{"jsonrpc":"2.0","id":2,"method":"tools/call","params":{"name":"sess","arguments":{"who":"u%d"}}}`, step%3)
				default:
					body = fmt.Sprintf(`{"jsonrpc":"2.0","id":2,"method":%q}`, op.method())
				}
			case "notif":
				body = `{"jsonrpc":"2.0","method":"notifications/verif-custom"}`
			case "resp":
				body = `{"jsonrpc":"2.0","id":4242,"result":{}}`
			}
			ex = direct("POST", body)
			if ex.Err != nil {
				return Failf("C04/panic", "%s: %v", where, ex.Err)
			}
			switch {
			case !stateful:
				if f := checkHeader(ex, false); f != nil {
					return f
				}
				if op.Op == "badinit" {
					break
				}
				if op.Op == "init" || op.Op == "req" {
					if ex.Status != 200 || answerFrames(ex) != 1 {
						return Failf("C04/sessionless-request-refused", "%s: status %d frames %d (body %.120q)", where, ex.Status, len(ex.Frames), ex.Body)
					}
					if c.Cfg == 1 {
						// answers do not depend on earlier requests: compare with a fresh server
						fresh := c04Server(c)
						fx := (&World{Srv: fresh, Path: "/mcp"}).Direct("POST", "/mcp", hdr, []byte(body))
						if normaliseBody(fx) != normaliseBody(ex) {
							return Failf("C04/stateless-answer-depends-on-history", "%s: answer %.300s differs from a fresh server's %.300s", where, normaliseBody(ex), normaliseBody(fx))
						}
					}
				}
			case class == "none" && op.Op == "badinit":
				// the handshake is rejected; if the answer names a session all the same, that session has been issued and is live
				if nid := ex.Header.Get("Mcp-Session-Id"); nid != "" {
					if live[nid] || dead[nid] {
						return Failf("C04/id-reused", "%s: issued id %q was issued before", where, nid)
					}
					if f := checkIDFormat(nid); f != nil {
						return f
					}
					issued = append(issued, nid)
					live[nid] = true
				}
			case class == "none" && op.Op == "init":
				if ex.Status != 200 {
					return Failf("C04/init-refused", "%s: status %d", where, ex.Status)
				}
				nid := ex.Header.Get("Mcp-Session-Id")
				if nid == "" {
					return Failf("C04/no-id-issued", "%s: initialize without id was answered without Mcp-Session-Id", where)
				}
				if live[nid] || dead[nid] {
					return Failf("C04/id-reused", "%s: issued id %q was issued before", where, nid)
				}
				if f := checkIDFormat(nid); f != nil {
					return f
				}
				issued = append(issued, nid)
				live[nid] = true
			case class == "none":
				if f := refuse(ex, 400); f != nil {
					return f
				}
			case !known:
				if f := refuse(ex, 404); f != nil {
					return f
				}
			default: // live id
				switch op.Op {
				case "badinit":
					if ex.Status == 404 || ex.Status == 400 && answerFrames(ex) == 0 {
						return Failf("C04/live-request-not-served", "%s: status %d body %.120q", where, ex.Status, ex.Body)
					}
					if f := checkHeader(ex, ex.Header.Get("Mcp-Session-Id") != ""); f != nil {
						return f
					}
				case "init", "req":
					if ex.Status != 200 || answerFrames(ex) != 1 {
						return Failf("C04/live-request-not-served", "%s: status %d frames %d body %.120q", where, ex.Status, len(ex.Frames), ex.Body)
					}
					if f := checkHeader(ex, true); f != nil {
						return f
					}
				case "notif":
					if ex.Status < 200 || ex.Status > 299 {
						return Failf("C04/live-notification-refused", "%s: status %d", where, ex.Status)
					}
					if f := checkHeader(ex, true); f != nil {
						return f
					}
				case "resp":
					if f := checkHeader(ex, false); f != nil {
						return f
					}
				}
			}
		case "get":
			lr := StartLive(h, "GET", "http://verif/mcp", map[string]string{"Accept": "text/event-stream", "Mcp-Session-Id": hdr["Mcp-Session-Id"]}, nil, nil)
			if class == "none" {
				lr = StartLive(h, "GET", "http://verif/mcp", map[string]string{"Accept": "text/event-stream"}, nil, nil)
			}
			allStreams = append(allStreams, lr)
			expectOpen := stateful && c.GetSSE && known
			if expectOpen {
				if !lr.WaitFlushedHeader(Bound()*4) || lr.Returned() {
					st, _, body, _, pan, _ := lr.Snapshot()
					return TimingFailf("C04/get-not-opened", "%s: stream not opened (status %d body %.100q panic %v)", where, st, body, pan)
				}
				st, rh, _, _, _, _ := lr.Snapshot()
				if st != 200 {
					return Failf("C04/get-status", "%s: status %d", where, st)
				}
				if rh.Get("Mcp-Session-Id") != id {
					return Failf("C04/id-not-echoed", "%s: stream opened with Mcp-Session-Id %q", where, rh.Get("Mcp-Session-Id"))
				}
				if prev, ok := streams[id]; ok && prev != lr {
					older[id] = append(older[id], prev)
				}
				streams[id] = lr
			} else {
				if !lr.WaitReturned(Bound() * 4) {
					return TimingFailf("C04/get-not-refused", "%s: GET handler still running; it should have been refused", where)
				}
				ex = lr.Exchange()
				if ex.Err != nil {
					return Failf("C04/panic", "%s: %v", where, ex.Err)
				}
				var f *Failure
				switch {
				case !c.GetSSE || c.Cfg == 1:
					f = refuse(ex, 405)
				case c.Cfg == 2:
					if ex.Status < 400 {
						f = Failf("C04/get-without-sessions", "%s: status %d", where, ex.Status)
					} else {
						f = checkHeader(ex, false)
					}
				case class == "none":
					f = refuse(ex, 400)
				default:
					f = refuse(ex, 404)
				}
				if f != nil {
					return f
				}
			}
		case "closestream":
			if s, ok := streams[id]; ok && known {
				s.PeerGone()
				if !s.WaitReturned(Bound() * 4) {
					return TimingFailf("C04/stream-handler-stuck", "%s: GET handler did not return after the peer went away", where)
				}
				delete(streams, id)
			}
		case "deleterace":
			// several DELETEs bearing the same id at once: whatever the order, exactly one of them finds the session alive
			const k = 6
			exs := make([]Exchange, k)
			var wg sync.WaitGroup
			start := make(chan struct{})
			for i := 0; i < k; i++ {
				wg.Add(1)
				go func(i int) {
					defer wg.Done()
					<-start
					exs[i] = direct("DELETE", "")
				}(i)
			}
			close(start)
			wg.Wait()
			ok2xx := 0
			for _, e := range exs {
				if e.Err != nil {
					return Failf("C04/panic", "%s: %v", where, e.Err)
				}
				switch {
				case !stateful:
					if f := checkHeader(e, false); f != nil {
						return f
					}
				case class == "none":
					if f := refuse(e, 400); f != nil {
						return f
					}
				case !known:
					if f := refuse(e, 404); f != nil {
						return f
					}
				case e.Status >= 200 && e.Status <= 299:
					ok2xx++
				default:
					if f := refuse(e, 404); f != nil {
						return f
					}
				}
			}
			if stateful && known {
				if ok2xx != 1 {
					return Failf("C04/concurrent-delete", "%s: %d of %d concurrent DELETEs of one live session succeeded, want exactly 1", where, ok2xx, k)
				}
				delete(live, id)
				dead[id] = true
				if s, ok := streams[id]; ok {
					if !s.WaitReturned(Bound() * 4) {
						return TimingFailf("C04/delete-leaves-stream-open", "%s: the session's listening stream is still open after DELETE", where)
					}
					delete(streams, id)
				}
				for _, s := range older[id] {
					if !s.WaitReturned(Bound() * 4) {
						return TimingFailf("C04/delete-leaves-stream-open", "%s: an earlier listening stream of the session is still open after DELETE", where)
					}
				}
			}
		case "delete":
			ex = direct("DELETE", "")
			if ex.Err != nil {
				return Failf("C04/panic", "%s: %v", where, ex.Err)
			}
			switch {
			case !stateful:
				if f := checkHeader(ex, false); f != nil {
					return f
				}
			case class == "none":
				if f := refuse(ex, 400); f != nil {
					return f
				}
			case !known:
				if f := refuse(ex, 404); f != nil {
					return f
				}
			default:
				if ex.Status < 200 || ex.Status > 299 {
					return Failf("C04/delete-refused", "%s: status %d", where, ex.Status)
				}
				delete(live, id)
				dead[id] = true
				if s, ok := streams[id]; ok {
					if !s.WaitReturned(Bound() * 4) {
						return TimingFailf("C04/delete-leaves-stream-open", "%s: the session's listening stream is still open after DELETE", where)
					}
					delete(streams, id)
				}
				for _, s := range older[id] {
					if !s.WaitReturned(Bound() * 4) {
						return TimingFailf("C04/delete-leaves-stream-open", "%s: an earlier listening stream of the session is still open after DELETE", where)
					}
				}
			}
		}
		// invariants after every step
		for sid, s := range streams {
			if s.Returned() {
				return Failf("C04/foreign-stream-ended", "%s: the stream of live session %q ended although nothing addressed it", where, sid)
			}
		}
		if c.Cfg != 1 {
			act, err := srv.GetActiveSessions()
			if err != nil {
				return Failf("C04/active-sessions-error", "%s: GetActiveSessions: %v", where, err)
			}
			sort.Strings(act)
			var want []string
			for id := range live {
				want = append(want, id)
			}
			sort.Strings(want)
			if strings.Join(act, ",") != strings.Join(want, ",") {
				return Failf("C04/live-set-mismatch", "%s: server reports %d live sessions %v, the history leaves %d alive %v", where, len(act), act, len(want), want)
			}
		}
	}
	return nil
}

func TestC04(t *testing.T) {
	RunProp(t, Prop[C04Case]{ID: "C04", Gen: genC04, Exec: execC04, NT: ntC04})
}

// ---------------------------------------------------------------------------
// id quality over batches of issued ids

type C04IDCase struct {
	Batch   int   `json:"batch"`   // ids per batch
	Servers int   `json:"servers"` // spread over this many servers
	Seed    int64 `json:"seed"`    // value the global math/rand source is re-seeded with before each batch
}

func issueIDs(n, servers int) ([]string, *Failure) {
	var ids []string
	var srvs []*mcp.Server
	for i := 0; i < servers; i++ {
		srvs = append(srvs, c04Server(C04Case{Cfg: 0, GetSSE: true}))
	}
	for i := 0; i < n; i++ {
		w := &World{Srv: srvs[i%servers], Path: "/mcp"}
		ex := w.Direct("POST", "/mcp", map[string]string{"Content-Type": "application/json", "Accept": "application/json"}, InitRequest("1", "2025-03-26"))
		id := ex.Header.Get("Mcp-Session-Id")
		if ex.Status != 200 || id == "" {
			return nil, Failf("C04/no-id-issued", "initialize answered %d without id", ex.Status)
		}
		ids = append(ids, id)
	}
	return ids, nil
}

func execC04IDs(c C04IDCase) *Failure {
	rand.Seed(c.Seed)
	a, f := issueIDs(c.Batch, c.Servers)
	if f != nil {
		return f
	}
	rand.Seed(c.Seed)
	b, f := issueIDs(c.Batch, c.Servers)
	if f != nil {
		return f
	}
	seen := map[string]bool{}
	for _, id := range append(append([]string(nil), a...), b...) {
		if f := checkIDFormat(id); f != nil {
			return f
		}
		if seen[id] {
			return Failf("C04/id-repeats", "session id %q issued twice (global math/rand re-seeded with %d between batches)", id, c.Seed)
		}
		seen[id] = true
	}
	all := append(a, b...)
	// entropy estimate: per position, log2 of the number of distinct symbols observed (capped by the batch size)
	minLen := len(all[0])
	for _, id := range all {
		if len(id) < minLen {
			minLen = len(id)
		}
	}
	bits := 0.0
	for p := 0; p < minLen; p++ {
		sym := map[byte]bool{}
		for _, id := range all {
			sym[id[p]] = true
		}
		bits += math.Log2(float64(len(sym)))
	}
	if len(all) >= 256 && bits < 127.5 {
		return Failf("C04/id-low-entropy", "ids such as %q vary over only ~%.0f bits across %d samples (positions with a fixed or narrow symbol set)", all[0], bits, len(all))
	}
	// per-bit frequency for hex ids
	if len(all) >= 512 {
		if raw, err := hex.DecodeString(all[0]); err == nil {
			nb := len(raw) * 8
			ones := make([]int, nb)
			cnt := 0
			for _, id := range all {
				r, err := hex.DecodeString(id)
				if err != nil || len(r)*8 != nb {
					continue
				}
				cnt++
				for i := 0; i < nb; i++ {
					if r[i/8]&(1<<(7-uint(i%8))) != 0 {
						ones[i]++
					}
				}
			}
			sigma := math.Sqrt(float64(cnt)) / 2
			for i, o := range ones {
				if math.Abs(float64(o)-float64(cnt)/2) > 5*sigma {
					// a statistical verdict is confirmed on a fresh, larger sample before it is reported: a real bias of that
					// bit persists, a chance excursion (about one run in ten thousand shows one somewhere) does not
					more, f := issueIDs(4000, c.Servers)
					if f != nil {
						return f
					}
					o2, n2 := 0, 0
					for _, id := range more {
						if r, err := hex.DecodeString(id); err == nil && len(r)*8 == nb {
							n2++
							if r[i/8]&(1<<(7-uint(i%8))) != 0 {
								o2++
							}
						}
					}
					if math.Abs(float64(o2)-float64(n2)/2) > 5*math.Sqrt(float64(n2))/2 {
						return Failf("C04/id-biased-bit", "bit %d of the session ids is set in %d of %d ids, and in %d of %d further ids (>5 sigma from half both times)", i, o, cnt, o2, n2)
					}
				}
			}
		}
	}
	return nil
}

func TestC04IDs(t *testing.T) {
	RunProp(t, Prop[C04IDCase]{ID: "C04",
		Gen: func(t *rapid.T) C04IDCase {
			return C04IDCase{Batch: rapid.SampledFrom([]int{300, 600}).Draw(t, "batch"), Servers: rapid.IntRange(1, 4).Draw(t, "servers"), Seed: rapid.Int64().Draw(t, "seed")}
		},
		Exec: execC04IDs,
		NT:   func(c C04IDCase) (bool, []string) { return true, []string{fmt.Sprintf("servers=%d", c.Servers)} }})
}

// C04DelRace: rounds of k DELETEs at once on a freshly issued session id. Whatever the interleaving, exactly one of
// them meets a live session; the others bear an already deleted id (404), and the session is gone afterwards.
type C04DelRace struct {
	K      int `json:"k"`
	Rounds int `json:"rounds"`
}

func execC04DelRace(c C04DelRace) *Failure {
	srv := c04Server(C04Case{Cfg: 0, GetSSE: true})
	w := &World{Srv: srv, Path: "/mcp"}
	for r := 0; r < c.Rounds; r++ {
		ex := w.Direct("POST", "/mcp", map[string]string{"Content-Type": "application/json", "Accept": "application/json"}, InitRequest("1", "2025-03-26"))
		id := ex.Header.Get("Mcp-Session-Id")
		if ex.Status != 200 || id == "" {
			return Failf("C04/no-id-issued", "initialize answered %d without id", ex.Status)
		}
		st := make([]int, c.K)
		var wg sync.WaitGroup
		start := make(chan struct{})
		for i := 0; i < c.K; i++ {
			wg.Add(1)
			go func(i int) {
				defer wg.Done()
				<-start
				st[i] = w.Direct("DELETE", "/mcp", map[string]string{"Mcp-Session-Id": id}, nil).Status
			}(i)
		}
		close(start)
		wg.Wait()
		ok, other := 0, 0
		for _, s := range st {
			switch {
			case s >= 200 && s <= 299:
				ok++
			case s != 404:
				other++
			}
		}
		if ok != 1 || other != 0 {
			return Failf("C04/concurrent-delete", "round %d: %d concurrent DELETEs of one live session were answered %v, want exactly one 2xx and 404 for the rest", r, c.K, st)
		}
		if act, _ := srv.GetActiveSessions(); len(act) != 0 {
			return Failf("C04/live-set-mismatch", "round %d: after the DELETEs the server still reports live sessions %v", r, act)
		}
	}
	return nil
}

func TestC04DeleteRace(t *testing.T) {
	RunProp(t, Prop[C04DelRace]{ID: "C04",
		Gen: func(t *rapid.T) C04DelRace {
			return C04DelRace{K: rapid.IntRange(2, 12).Draw(t, "k"), Rounds: rapid.SampledFrom([]int{100, 300}).Draw(t, "rounds")}
		},
		Exec: execC04DelRace,
		NT:   func(c C04DelRace) (bool, []string) { return true, []string{fmt.Sprintf("k=%d", c.K)} }})
}

// C04Conc: bursts of concurrent initialize / DELETE requests from several peers while other goroutines keep asking the
// server for its live sessions. Whatever the interleaving, (a) an answer given during a burst contains every session
// that was alive throughout the burst and none that was dead before it began or has never been issued, and (b) once the
// burst is over the reported set equals the set the history leaves alive.
type C04Conc struct {
	Preload int     `json:"preload"` // sessions created before the first burst
	Pollers int     `json:"pollers"`
	Bursts  [][]int `json:"bursts"` // per burst, per worker: number of operations (each worker alternates init / delete of its own ids, pattern from Pat)
	Pat     int     `json:"pat"`
}

func execC04Conc(c C04Conc) *Failure {
	srv := c04Server(C04Case{Cfg: 0, GetSSE: true})
	w := &World{Srv: srv, Path: "/mcp"}
	hdr := map[string]string{"Content-Type": "application/json", "Accept": "application/json"}
	initOne := func() (string, *Failure) {
		ex := w.Direct("POST", "/mcp", hdr, InitRequest("1", "2025-03-26"))
		id := ex.Header.Get("Mcp-Session-Id")
		if ex.Status != 200 || id == "" {
			return "", Failf("C04/no-id-issued", "initialize answered %d without id", ex.Status)
		}
		return id, nil
	}
	live := map[string]bool{}
	dead := map[string]bool{}
	for i := 0; i < c.Preload; i++ {
		id, f := initOne()
		if f != nil {
			return f
		}
		live[id] = true
	}
	for b, burst := range c.Bursts {
		stable := map[string]bool{}
		for id := range live {
			stable[id] = true
		}
		deadBefore := map[string]bool{}
		for id := range dead {
			deadBefore[id] = true
		}
		// each worker owns a share of the live sessions (it may delete them) and whatever it creates
		owned := make([][]string, len(burst))
		{
			var ids []string
			for id := range live {
				ids = append(ids, id)
			}
			sort.Strings(ids)
			for i, id := range ids {
				if i%3 == 0 && len(burst) > 0 { // a third of the old sessions may go in this burst
					k := (i / 3) % len(burst)
					owned[k] = append(owned[k], id)
					delete(stable, id)
				}
			}
		}
		type wres struct {
			created, deleted []string
			f                *Failure
		}
		res := make([]wres, len(burst))
		var wg, pg sync.WaitGroup
		stop := make(chan struct{})
		pollFail := make(chan *Failure, c.Pollers)
		issuedMu := sync.Mutex{}
		issued := map[string]bool{}
		for id := range live {
			issued[id] = true
		}
		for p := 0; p < c.Pollers; p++ {
			pg.Add(1)
			go func() {
				defer pg.Done()
				for {
					select {
					case <-stop:
						return
					default:
					}
					act, err := srv.GetActiveSessions()
					if err != nil {
						pollFail <- Failf("C04/active-sessions-error", "burst %d: GetActiveSessions: %v", b, err)
						return
					}
					seen := map[string]bool{}
					for _, id := range act {
						if seen[id] {
							pollFail <- Failf("C04/live-set-duplicate", "burst %d: GetActiveSessions lists %q twice", b, id)
							return
						}
						seen[id] = true
						if deadBefore[id] {
							pollFail <- Failf("C04/live-set-resurrects", "burst %d: GetActiveSessions lists %q, which was deleted before the burst began", b, id)
							return
						}
					}
					for id := range stable {
						if !seen[id] {
							pollFail <- Failf("C04/live-set-misses-live", "burst %d: GetActiveSessions (%d ids) misses %q, which is alive throughout the burst", b, len(act), id)
							return
						}
					}
				}
			}()
		}
		for k, nops := range burst {
			wg.Add(1)
			go func(k, nops int) {
				defer wg.Done()
				mine := owned[k]
				for i := 0; i < nops; i++ {
					del := len(mine) > 0 && ((c.Pat>>(uint(k+i)%16))&1 == 1 || i == nops-1 && (c.Pat>>uint(k%8))&1 == 0)
					if del {
						id := mine[0]
						mine = mine[1:]
						ex := w.Direct("DELETE", "/mcp", map[string]string{"Mcp-Session-Id": id}, nil)
						if ex.Status < 200 || ex.Status > 299 {
							res[k].f = Failf("C04/delete-refused", "burst %d worker %d: DELETE of live session %q answered %d", b, k, id, ex.Status)
							return
						}
						res[k].deleted = append(res[k].deleted, id)
					} else {
						id, f := initOne()
						if f != nil {
							res[k].f = f
							return
						}
						issuedMu.Lock()
						dup := issued[id]
						issued[id] = true
						issuedMu.Unlock()
						if dup {
							res[k].f = Failf("C04/id-reused", "burst %d worker %d: issued id %q was issued before", b, k, id)
							return
						}
						mine = append(mine, id)
						res[k].created = append(res[k].created, id)
					}
				}
			}(k, nops)
		}
		wg.Wait()
		close(stop)
		pg.Wait()
		select {
		case f := <-pollFail:
			return f
		default:
		}
		for _, r := range res {
			if r.f != nil {
				return r.f
			}
			for _, id := range r.created {
				live[id] = true
			}
			for _, id := range r.deleted {
				delete(live, id)
				dead[id] = true
			}
		}
		// quiescent: the reported set is the one the history leaves alive (asked twice: a cached answer must not be stale either)
		for rep := 0; rep < 2; rep++ {
			act, err := srv.GetActiveSessions()
			if err != nil {
				return Failf("C04/active-sessions-error", "after burst %d: GetActiveSessions: %v", b, err)
			}
			sort.Strings(act)
			var want []string
			for id := range live {
				want = append(want, id)
			}
			sort.Strings(want)
			if strings.Join(act, ",") != strings.Join(want, ",") {
				var missing, extra []string
				am := map[string]bool{}
				for _, id := range act {
					am[id] = true
					if !live[id] {
						extra = append(extra, id)
					}
				}
				for _, id := range want {
					if !am[id] {
						missing = append(missing, id)
					}
				}
				return Failf("C04/live-set-mismatch", "after burst %d (%d workers, %d pollers): server reports %d live sessions, the history leaves %d alive; missing %v, listed although deleted %v", b, len(burst), c.Pollers, len(act), len(want), missing, extra)
			}
		}
		// every live id is still served, every deleted one refused
		for id := range live {
			if ex := w.Direct("POST", "/mcp", map[string]string{"Content-Type": "application/json", "Accept": "application/json", "Mcp-Session-Id": id}, []byte(`{"jsonrpc":"2.0","id":9,"method":"ping"}`)); ex.Status != 200 {
				return Failf("C04/live-request-not-served", "after burst %d: ping in live session %q answered %d", b, id, ex.Status)
			}
		}
		for id := range dead {
			if ex := w.Direct("POST", "/mcp", map[string]string{"Content-Type": "application/json", "Accept": "application/json", "Mcp-Session-Id": id}, []byte(`{"jsonrpc":"2.0","id":9,"method":"ping"}`)); ex.Status != 404 {
				return Failf("C04/not-refused/req/dead/got"+fmt.Sprint(ex.Status), "after burst %d: ping bearing deleted id %q answered %d", b, id, ex.Status)
			}
		}
	}
	return nil
}

func TestC04Concurrent(t *testing.T) {
	RunProp(t, Prop[C04Conc]{ID: "C04",
		Gen: func(t *rapid.T) C04Conc {
			c := C04Conc{Preload: rapid.SampledFrom([]int{0, 3, 20, 60, 150}).Draw(t, "preload"), Pollers: rapid.IntRange(1, 6).Draw(t, "pollers"), Pat: rapid.IntRange(0, 65535).Draw(t, "pat")}
			nb := rapid.IntRange(1, 6).Draw(t, "bursts")
			for i := 0; i < nb; i++ {
				nw := rapid.IntRange(1, 6).Draw(t, "workers")
				var ws []int
				for k := 0; k < nw; k++ {
					ws = append(ws, rapid.IntRange(1, 8).Draw(t, "nops"))
				}
				c.Bursts = append(c.Bursts, ws)
			}
			return c
		},
		Exec: execC04Conc,
		NT: func(c C04Conc) (bool, []string) {
			multi := false
			for _, b := range c.Bursts {
				if len(b) >= 2 {
					multi = true
				}
			}
			return multi, []string{fmt.Sprintf("pollers=%d", c.Pollers), fmt.Sprintf("preload=%d", c.Preload), fmt.Sprintf("bursts=%d", len(c.Bursts))}
		}})
}

var _ = time.Second
