#!/bin/bash
# usage: confirm_seed.sh <agent-out-dir> <seed-id>     e.g. /tmp/mut/out/C04/A C04-A
# Confirms in a scratch worktree: patch applies, suite passes with it, demo fails with it and passes without.
# On success stores /verif/seeded/<seed-id>/{patch.diff,demo file,meta.json}.
set -u
src=$1; sid=$2
export GOFLAGS=-mod=mod GOPROXY=off GOSUMDB=off GOTOOLCHAIN=local
wt=/tmp/wt/confirm-$sid
git -C /repo worktree remove --force $wt 2>/dev/null
git -C /repo worktree add -q --detach $wt HEAD || exit 2
export GOTMPDIR=/tmp/gotmp-confirm-$sid; rm -rf $GOTMPDIR; mkdir -p $GOTMPDIR
cleanup() { git -C /repo worktree remove --force $wt; rm -rf $GOTMPDIR; }
trap cleanup EXIT
cd $wt
demo_path=$(python3 -c "import json;print(json.load(open('$src/meta.json'))['demo_path'])")
demo_cmd=$(python3 -c "import json;print(json.load(open('$src/meta.json'))['demo_cmd'])")
demo_src=$(ls $src | grep -v -e patch.diff -e meta.json | head -1)
if ! git apply --check $src/patch.diff 2>/dev/null; then
  # written against an older commit of /repo: re-base it with a three-way merge, keep the result as the patch
  if git apply --3way $src/patch.diff >/dev/null 2>&1 && ! git diff --name-only --diff-filter=U | grep -q . && go build ./... ; then
    git reset -q; git diff > $src/patch.rebased; git checkout -q -- .; cp $src/patch.rebased $src/patch.diff; rm -f $src/patch.rebased; echo "note: patch re-based with a three-way merge"
  else
    echo "CONFIRM-FAIL patch does not apply"; exit 1
  fi
fi
mkdir -p $(dirname $demo_path); cp $src/$demo_src $demo_path
# 1. demo passes without change
if ! bash -c "$demo_cmd" > /tmp/confirm-$sid.clean.log 2>&1; then echo "CONFIRM-FAIL demo fails on the unchanged tree"; tail -20 /tmp/confirm-$sid.clean.log; exit 1; fi
git apply $src/patch.diff
# 2. demo fails with change
if bash -c "$demo_cmd" > /tmp/confirm-$sid.mut.log 2>&1; then echo "CONFIRM-FAIL demo passes with the change"; exit 1; fi
# 3. suite passes with change (demo file removed)
rm -f $demo_path
if ! go test -vet=off -count=1 -timeout 25m ./... > /tmp/confirm-$sid.suite.log 2>&1; then echo "CONFIRM-FAIL suite fails with the change"; grep -E "^(--- FAIL|FAIL)" /tmp/confirm-$sid.suite.log | head; exit 1; fi
dst=/verif/seeded/$sid; mkdir -p $dst
cp $src/patch.diff $dst/patch.diff; cp $src/$demo_src $dst/$demo_src
python3 - "$src/meta.json" "$dst/meta.json" "$sid" <<'PY'
import json,sys
m=json.load(open(sys.argv[1]))
m['seed_id']=sys.argv[3]
m['confirmed']={"by":"tools/confirm_seed.sh in a scratch worktree of /repo HEAD","patch_applies":True,"suite_passes_with_change":True,"demo_fails_with_change":True,"demo_passes_without_change":True}
json.dump(m,open(sys.argv[2],'w'),indent=1)
PY
rm -f /tmp/confirm-$sid.*.log
echo "CONFIRMED $sid"
