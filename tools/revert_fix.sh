#!/bin/bash
# usage: revert_fix.sh <commit> <check-id> [extra ./check args]
# Reverts one "fix:" commit of /repo in a scratch worktree and runs a check against it: a repaired defect that returns must be reported again.
c=$1; shift; cid=$1; shift
wt=/tmp/wt/revert-$c-$$
git -C /repo worktree add -q --detach $wt HEAD || exit 2
trap "git -C /repo worktree remove --force $wt" EXIT
if ! git -C $wt revert --no-commit $c >/dev/null 2>&1; then echo "revert of $c conflicts with later commits"; echo "fix=$c check=$cid exit=3"; exit 3; fi
( cd $wt && GOFLAGS=-mod=mod GOPROXY=off GOSUMDB=off GOTOOLCHAIN=local go build ./... ) >/dev/null 2>&1 || { echo "revert of $c does not build"; echo "fix=$c check=$cid exit=3"; exit 3; }
cd /verif
VERIF_REPO=$wt ./check $cid "$@" > /tmp/revert-$c-$cid.log 2>&1; rc=$?
grep -E "^(VIOLATION|violation|OK|INCONCLUSIVE)" /tmp/revert-$c-$cid.log | cut -c1-260 | head -3
echo "fix=$c check=$cid exit=$rc"
