#!/bin/bash
# usage: seed_round.sh <out-root> <prop> <letters...>   e.g. seed_round.sh /tmp/mut/out2 C04 C D
# Confirms each delivered seed in a scratch worktree and, when confirmed, tries the property's check against it (worktree, /repo untouched).
root=$1; p=$2; shift 2
cd /verif
for x in "$@"; do
  r=$(tools/confirm_seed.sh $root/$p/$x $p-$x 2>&1 | tail -4)
  echo "$r" | tail -1
  if echo "$r" | grep -q "^CONFIRMED"; then tools/try_seed_wt.sh $p-$x $p 2>&1 | cut -c1-260; else echo "$r"; fi
done
