#!/bin/bash
# usage: try_seed_wt.sh <seed-id> <check-id> [extra ./check args]
# Like try_seed.sh but leaves /repo alone: the seed is applied in a scratch worktree and the check is built against it (VERIF_REPO).
# A patch written against an older commit of /repo is re-based with a three-way merge.
sid=$1; shift; cid=$1; shift
wt=/tmp/wt/try-$sid-$cid-$$
git -C /repo worktree add -q --detach $wt HEAD || exit 2
trap "git -C /repo worktree remove --force $wt" EXIT
apply_patch() {
  git -C $wt apply /verif/seeded/$sid/patch.diff 2>/dev/null && return 0
  git -C $wt apply --3way /verif/seeded/$sid/patch.diff >/dev/null 2>&1 || return 1
  if git -C $wt diff --name-only --diff-filter=U | grep -q .; then return 1; fi
  git -C $wt reset -q
  return 0
}
if ! apply_patch; then echo "patch does not apply"; echo "seed=$sid check=$cid exit=2"; exit 2; fi
cd /verif
VERIF_REPO=$wt ./check $cid "$@" > /tmp/try-$sid-$cid.log 2>&1; rc=$?
grep -E "^(VIOLATION|violation|KNOWN|OK|NOTE|INCONCLUSIVE)" /tmp/try-$sid-$cid.log | grep -v "^KNOWN" | cut -c1-300 | head -6
echo "seed=$sid check=$cid exit=$rc"
