#!/bin/bash
# usage: try_seed_wt.sh <seed-id> <check-id> [extra ./check args]
# Like try_seed.sh but leaves /repo alone: the seed is applied in a scratch worktree and the check is built against it (VERIF_REPO).
sid=$1; shift; cid=$1; shift
wt=/tmp/wt/try-$sid-$cid-$$
git -C /repo worktree add -q --detach $wt HEAD || exit 2
trap "git -C /repo worktree remove --force $wt" EXIT
git -C $wt apply /verif/seeded/$sid/patch.diff 2>/dev/null || { git -C $wt apply --3way /verif/seeded/$sid/patch.diff >/dev/null 2>&1 && ! git -C $wt diff --name-only --diff-filter=U | grep -q . && git -C $wt reset -q; } || { echo "patch does not apply"; exit 2; }
cd /verif
VERIF_REPO=$wt ./check $cid "$@" > /tmp/try-$sid-$cid.log 2>&1; rc=$?
grep -E "^(VIOLATION|violation|KNOWN|OK|NOTE|INCONCLUSIVE)" /tmp/try-$sid-$cid.log | grep -v "^KNOWN" | cut -c1-300 | head -6
echo "seed=$sid check=$cid exit=$rc"
