#!/usr/bin/env python3
"""usage: seed_prompts.py <round-dir> <letter1> <letter2>
Writes one prompt per property to <round-dir>/prompts/<id>.txt for a round of seeded changes written by sub-agents
(each gets only the property's text, a scratch worktree <round-dir>/wt/<id>, an output directory <round-dir>/out/<id> and
one line per change already tried for the property). Nothing from /verif's machinery is shown to them."""
import json, os, sys
rd, l1, l2 = sys.argv[1], sys.argv[2], sys.argv[3]
props = {json.loads(l)['id']: json.loads(l) for l in open('/verif/properties.jsonl')}
res = json.load(open('/verif/seeded/RESULTS.json'))
prior = {}
for d in sorted(os.listdir('/verif/seeded')):
    if not os.path.isdir('/verif/seeded/' + d):
        continue
    m = json.load(open(f'/verif/seeded/{d}/meta.json'))
    short = res.get(d, {}).get('short') or (m.get('summary') or '')[:200].replace('\n', ' ')
    prior.setdefault(d.split('-')[0], []).append(short)
REQ3 = {
 'MN': '''3. It must need SOMETHING SPECIFIC to manifest - not be exposed at once by ordinary use. TWELVE changes were already tried for this property (listed below, one line each); do not repeat their ideas, files or code paths where you can avoid it. Change {l1}: put the slip where something ENDS or is RENEWED - a timeout or deadline, keep-alive, Close / Stop / Shutdown / session termination or expiry, clean-up of a map or goroutine when a session, stream, call or child process ends, reconnect / resume / re-initialize after such an end - so that the property breaks for what happens around or after that ending (and only then). Change {l2}: put the slip into a pair of operations that must mirror each other - encode / decode, register / look up, write / parse, escape / unescape, header set / header read, number or id formatting / matching, omitempty / presence tests, pointer vs value receivers, copy vs alias - so that the two sides disagree only for PARTICULAR VALUES (a zero or empty value, a value with special characters or case, a large or negative number, a nil vs empty collection, a key that differs only in case or normalisation).''',
 'KL': '''3. It must need SOMETHING SPECIFIC to manifest - not be exposed at once by ordinary use. TEN changes were already tried for this property (listed below, one line each); do not repeat their ideas, files or code paths where you can avoid it. Change {l1}: write it as a plausible FEATURE ADDITION or PERFORMANCE OPTIMISATION (a cache, a pool, a fast path, an early return, batching, lazy initialisation, a new option with a default) whose slip only bites from the N-th use on, above or below a size threshold, after a specific sequence of public calls, or for one value of an option - and say in meta.json what the commit message of such a change would have been. Change {l2}: make it an INTERPLAY of two public features that are each fine alone (for example retry + sessions, middlewares + list filters, stateless mode + notifications, stdio + roots, context functions + SSE, custom paths + reconnect, unregister + in-flight calls, two servers or two clients in one process, Close + re-Initialize), or put it on the side (client vs server, transport) that the ten listed changes attack least.''',
}
HEAD = '''You are helping to evaluate a verification framework for the Go library trpc-group/trpc-mcp-go (Model Context Protocol clients and servers over JSON-RPC: Streamable HTTP, legacy SSE and STDIO transports, session management). Your job is to write TWO independent, realistic, subtle code changes ("seeded defects") to the library, each of which BREAKS the semantic property below while the library still compiles and its whole existing test suite still passes. Think of the kind of slip a competent maintainer could make in a refactor, optimisation, feature addition or "tidy-up" commit, that code review might let through.

THE PROPERTY (id {pid}):
{prop}

YOUR WORKSPACE: a private git worktree of the library at {wt} (work ONLY there; never touch /repo or /verif, never read anything under /verif). Environment for every shell command: `export GOFLAGS=-mod=mod GOPROXY=off GOSUMDB=off GOTOOLCHAIN=local` (no network; Go 1.23.5). If `git status` shows go.sum modified by a build, `git checkout go.sum`. NEVER use `git stash` (the stash is shared with other people's worktrees of the same repository and gets mixed up): to switch between 'clean tree' and 'with change', save your change with `git diff > {rd}/{pid}-x.patch`, `git checkout -- .`, and re-apply with `git apply`. The machine is shared and busy: builds and tests can be several times slower than usual, so give time-outs room.

REQUIREMENTS for each of the two changes (call them {l1} and {l2}):
1. It changes only non-test library source files (no *_test.go, no examples, no docs), stays small (roughly 5-60 changed lines), compiles (`go build ./...`, also `go build -tags verif ./...`), and the WHOLE existing suite still passes with it: `go test -vet=off -count=1 -timeout 25m ./...` from the worktree root (takes 1-5 minutes; run it, do not assume). If the suite is flaky on a test unrelated to you, re-run once.
2. It genuinely violates the property as stated (not merely a related nicety), on the real code paths the property's anchors name, and is reachable through the library's PUBLIC API (exported functions/options/methods of package mcp, or raw protocol traffic against a server built with it) - not only by calling unexported functions.
{req3}
4. The two changes must differ from each other in mechanism and location, and must differ from these already-tried changes (do NOT repeat their idea):
{prior}
5. For each change, write a DEMONSTRATION: one Go test file (package mcp, or the package of the code you changed; placed in the matching directory of the worktree) with a test that FAILS with your change applied and PASSES on the unchanged tree, deterministically or nearly so (loop enough iterations that it fails >= 9 times out of 10 with the change, and never fails without it - also not when the machine is busy). Keep its run time under ~60 s. It may use unexported identifiers for observation, but the defect itself must be triggered the way a user of the public API (or a network peer) could trigger it. It must not depend on anything outside the repository and the Go standard library.
6. Verify all of it yourself: (a) on the clean tree the demo passes; (b) with the change the demo fails; (c) with the change and WITHOUT the demo file present, the whole suite passes.

DELIVERABLES - for each change X in {{{l1}, {l2}}} create the directory {out}/X/ containing exactly:
- patch.diff : output of `git diff` (library files only, NOT the demo file) against the worktree's HEAD, applicable with `git apply` from the repo root;
- the demo test file (keep the file name you used, it must end in _test.go);
- meta.json : {{"property": "{pid}", "summary": "<which file/function changed, what the slip is, why it breaks the property>", "needs": "<what exactly is needed for it to manifest>", "demo_path": "<path relative to repo root where the demo file must be placed, e.g. x_demo_test.go or internal/retry/x_demo_test.go>", "demo_cmd": "GOFLAGS=-mod=mod GOPROXY=off GOSUMDB=off GOTOOLCHAIN=local go test -vet=off -count=1 -run '<TestName>' <package path like . or ./internal/retry>", "suite_passes": true, "demo_fails_with_change": true, "demo_passes_without_change": true}}
After saving the first change's deliverables, restore the worktree (`git checkout -- . && git clean -fdq`) before starting the second. At the very end restore the worktree again and remove build litter you created under /tmp (not the worktree, not {out}).

Quality matters more than speed: a change that is caught by the existing tests, that does not really break the property, or that shows up on the very first ordinary call is useless. Read the relevant code carefully first. Your final reply should be a short summary of the two changes (files, mechanism, what is needed to trigger).'''
os.makedirs(f'{rd}/prompts', exist_ok=True)
req3 = REQ3.get(l1 + l2) or REQ3['KL']
for pid, p in props.items():
    wt, out = f'{rd}/wt/{pid}', f'{rd}/out/{pid}'
    os.makedirs(out, exist_ok=True)
    ptxt = json.dumps({k: p[k] for k in ('title', 'statement', 'quantifier', 'anchors') if k in p}, indent=1, ensure_ascii=False)
    pr = '\n'.join(f'   - {s}' for s in prior.get(pid, []))
    open(f'{rd}/prompts/{pid}.txt', 'w').write(HEAD.format(pid=pid, prop=ptxt, wt=wt, out=out, rd=rd, l1=l1, l2=l2, prior=pr, req3=req3.format(l1=l1, l2=l2)))
print(len(os.listdir(f'{rd}/prompts')), 'prompts in', f'{rd}/prompts')
