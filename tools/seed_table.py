#!/usr/bin/env python3
"""Prints the markdown table of seeded changes from seeded/*/meta.json and seeded/RESULTS.json
(RESULTS.json: {seed: {"caught_by": "C09 (TestX)", "after": "what was added, if the check missed it at first"}})."""
import json, os, sys
root = os.path.join(os.path.dirname(os.path.abspath(__file__)), "..", "seeded")
res = json.load(open(os.path.join(root, "RESULTS.json")))
letters = sys.argv[1] if len(sys.argv) > 1 else "CDEFGH"
print("| seed | change (needs) | caught by |")
print("|------|----------------|-----------|")
for d in sorted(os.listdir(root)):
    if not os.path.isdir(os.path.join(root, d)) or d[-1] not in letters:
        continue
    m = json.load(open(os.path.join(root, d, "meta.json")))
    r = res.get(d, {})
    short = r.get("short") or (m.get("summary", "")[:150].replace("\n", " ").replace("|", "/") + "...")
    by = r.get("caught_by", "?")
    if r.get("after"):
        by += " - after " + r["after"]
    print(f"| {d} | {short} | {by} |")
