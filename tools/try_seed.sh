#!/bin/bash
# usage: try_seed.sh <seed-id> <check-id> [extra ./check args]   applies seeded/<seed-id>/patch.diff to /repo, runs the check, reverts.
sid=$1; shift; cid=$1; shift
cd /verif
git -C /repo diff --quiet || { echo "/repo is dirty"; exit 2; }
git -C /repo apply /verif/seeded/$sid/patch.diff || exit 2
./check $cid "$@" > /tmp/try-$sid-$cid.log 2>&1; rc=$?
git -C /repo checkout -- . ; git -C /repo clean -fdq
grep -E "^(VIOLATION|violation|KNOWN|OK|NOTE|INCONCLUSIVE)" /tmp/try-$sid-$cid.log | cut -c1-400 | head -8
echo "seed=$sid check=$cid exit=$rc"
