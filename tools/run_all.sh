#!/bin/bash
# usage: tools/run_all.sh [quick|thorough] [seed]   runs every registered check in turn and prints one line per check
tier=${1:-quick}; seed=${2:-1}
cd "$(dirname "$0")/.."
for id in $(python3 -c "import json;print(' '.join(c['property_id'] for c in json.load(open('MANIFEST.json'))['checks']))"); do
  s=$(date +%s); VERIF_SEED=$seed ./check $id --tier $tier > /tmp/runall-$id.log 2>&1; rc=$?; e=$(date +%s)
  echo "$id exit=$rc $((e-s))s $(grep -c '^KNOWN-FINDING' /tmp/runall-$id.log) known $(grep -E '^(VIOLATION|INCONCLUSIVE|NOTE)' /tmp/runall-$id.log | head -3 | tr '\n' ' ' | cut -c1-300)"
done
