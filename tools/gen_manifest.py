#!/usr/bin/env python3
"""Regenerates /verif/MANIFEST.json and /verif/rules.json from the table below (keeps them in step with ./check)."""
import json, os, re, subprocess
ROOT = os.path.dirname(os.path.dirname(os.path.abspath(__file__)))

T = {
 "C01": ("exploration", "§5 C01",
  "generated concurrent workloads (1-4 clients/sessions x 1-32 calls in flight x 3 rounds, answer sizes to 150 KB, handler latency classes, succeeding and failing handlers) in two layers: the library's three clients through the public API, and raw reference peers that choose the ids (strings, integers up to 2^53); every call must return exactly once with f(own nonce) and the handler counter of every request must be 1",
  "property-based testing (rapid), nonce/counter oracle over concurrent workloads",
  "interleavings are sampled (scheduler + seeded handler latencies), not enumerated; 'no answer' is a time-bounded verdict confirmed 3x in an isolated replay; ids above 2^53, fractional / null ids and ids reused while in flight are outside the statement",
  "cases: mode x layer x clients x in-flight x sizes x latency x ids; non-trivial = at least 2 calls in flight on one session or at least 2 clients; distinct by SHA-1 of the case JSON"),
 "C02": ("exploration", "§5 C02",
  "generated handler return values (0-4 content items of kinds text/image/audio/embedded text+blob resource; string classes ascii, BMP, astral, controls, line breaks, U+2028/2029/0085/FEFF, quotes, NUL, SSE-looking text; sizes 0, 4 KiB, 70 KB, 200 KB (1 MiB thorough); isError; structured content trees; _meta; prompt results with both roles; single and multi resource contents; handler errors; descriptors built with the public builders incl. annotations and schemas) x all seven server modes x the matching library client (stdio through a re-executed child); oracle: an independent field-by-field projection of what the client returns equals the projection of the descriptor, descriptors equal as JSON trees",
  "property-based testing (rapid), round-trip oracle through an independent projection",
  "invalid UTF-8 and content-level annotations are outside the statement; 1 in 10 HTTP cases runs over real loopback TCP with the default request handler, the rest over the in-process bridge",
  "non-trivial = a string beyond printable ASCII or >= 64 KiB, >= 2 content kinds in one result, or structured content"),
 "C03": ("exploration", "§5 C03",
  "request sequences (valid + structurally mutated: field removed / retyped to each other JSON type / duplicated / unknown key / wrong version / unknown method / stale session) x handler outcomes (ok, Go error, isError, nil content) x all seven modes, every emitted frame validated against the hand-written MCP schema and a reference function fault-class -> allowed outcome set; the method x field x JSON-type lattice (15k cases) is walked completely in both tiers",
  "property-based testing (rapid) + exhaustive mutation lattice, spec/reference-function oracle",
  "conformance is to the subset in harness/spec/mcp.json (only constraints the specifications state unambiguously); where the statement does not decide (optional params, ids of non-id types) both outcomes are allowed; missing answers on asynchronous transports are time-bounded verdicts confirmed in isolation",
  "non-trivial = at least one mutated request, a wrong path or a non-ok handler outcome"),
 "C04": ("exploration", "§5 C04",
  "histories of 1-14 operations over {initialize, request (incl. a tool that keeps data in its session), notification, response-post, GET, stream-close, DELETE} x id class {none, live, deleted, never-issued, garbage} on stateful / stateless / session-disabled servers x GET on/off x POST-SSE on/off, compared step by step with a reference model (status class, Mcp-Session-Id value, GetActiveSessions == model's live set, DELETE ends exactly that session's stream, stateless answers equal a fresh server's); id quality over batches of 600-1200 issued ids (charset, distinctness, >=128 bits of per-position variation, per-bit frequency, independence of the global math/rand source)",
  "model-based property testing (rapid) against a session-table reference model + statistical id checks",
  "that ids come from the system CSPRNG is a static fact: sampling only refutes short / structured / repeating / math-rand ids; the one-minute sweeper and one-hour expiry cannot fire inside a case",
  "non-trivial = the history has a negative-space step (dead / foreign / missing id) and either >= 2 sessions or a use-after-DELETE"),
 "C05": ("exploration", "§5 C05",
  "histories over 1-5 sessions with reference-peer streams: SendNotification / BroadcastNotification / SendFilteredNotification (payloads to 300 KB), ListRoots issued inside a tool handler and answered by the own session, by a foreign session under the same request id, cancelled, or overlapping in two sessions at once; stream close / reopen; on Streamable HTTP, legacy SSE and stdio; per-session frame sequence == model queue, counts == sessions with an open stream, no write after a stream's handler returned, VerifPendingServerRequests == 0 at the end; plus 2-5 library clients answering roots/list concurrently",
  "model-based property testing (rapid) with reference peers per session",
  "legacy-SSE SendNotification refuses every session on this tree (the per-session initialized flag is never set), so the addressed-notification half is exercised on Streamable HTTP only; the 30 s built-in timeout is not waited for",
  "non-trivial = >= 2 sessions with open streams and an addressed send, a filtered send or a foreign answer"),
 "C06": ("exploration", "§5 C06",
  "HTTP-level abuse sequences (verbs, paths, missing / duplicated / garbage Mcp-Session-Id / Accept / Content-Type / Last-Event-ID, 24 body classes: truncated, garbage bytes, invalid UTF-8, nesting 20000 deep, bodies to 4 MiB, batch arrays, NUL, BOM, trailing garbage, huge numbers, duplicated initialized notifications, unsolicited responses, peers that vanish mid-stream) on stateful / stateless / session-disabled Streamable servers, the legacy SSE server and the stdio server; oracle: no panic, malformed input answered by an HTTP error or JSON-RPC error, every handler returns (watchdog), a ping on the same session and a fresh handshake succeed afterwards, no library goroutine left; the complete field x JSON-type lattice (5 server kinds) judged for survival",
  "property-based testing (rapid) + exhaustive mutation lattice, survival oracle with leak detector",
  "deadlock is approximated by watchdogs and the follow-up ping, confirmed in isolation; native coverage-guided fuzzing is part of the thorough tier only",
  "non-trivial = the input is not a valid message of its kind (or goes to a wrong verb / path / session)"),
 "C07": ("exploration", "§5 C07",
  "server scripts: a valid answer with junk before / within / after (25 junk kinds: non-JSON, frames of the wrong kind, unknown ids, ids of the wrong type, repeated answers, giant frames to 1 MiB, comments, blank lines, BOM, CRLF, unknown events, repeated endpoint events, multi-line data, truncated frames) for the Streamable client (JSON body, POST event stream, listening stream), the legacy SSE client and the stdio client (scripted child); oracle: the affected call returns (valid value or error), other pending and later calls complete with the right value, handler (un)registration still works, later frames on the stream are still processed, an idle client does not spin, Close returns",
  "property-based testing (rapid) with scripted peers, survival oracle",
  "a lone CR is not used as line end (a reader splitting at LF cannot recover what follows); timing bounds are confirmed in isolation",
  "non-trivial = the script contains at least one junk element"),
 "C08": ("fault_enumeration", "§5 C08",
  "fault kind {refuse, close, reset, truncate, stall; child exit 0 / exit 3 / kill -9 / stdout closed} x position {before any byte, 0, 1, 50, 99, 100 % of the answer; sampled offsets} x transport {Streamable JSON, Streamable event stream, legacy SSE, stdio} x context {none, cancel, deadline} x 1-8 pending calls: enumerated completely over the class grid (584 cases) plus sampled; oracle: every pending call ends, no partial result, after Close zero pending entries, zero unclosed response bodies, zero library goroutines, descriptor count back to baseline, child gone",
  "fault enumeration over a scripted peer + rapid sampling of offsets, release oracle (goroutine/fd/child/pending diff)",
  "a stall is only required to end when the caller set a limit; faults are injected at the HTTP-exchange level through the in-process bridge (real TCP RST is represented by its error value)",
  "non-trivial = the fault lands strictly inside an exchange or meets a cancelled / expiring context"),
 "C09": ("exploration", "§5 C09",
  "2-64 concurrent writers on one stream - stdio server responses + server-issued requests, Streamable listening stream (notifications + server requests), legacy SSE stream (responses + 1 ms keep-alive comments), stdio client (requests vs error answers to server requests, recorded by the child) - payload classes with CR/LF/U+2028/SSE-looking text, sizes straddling 4096 and 65536, seeded delays at every Write of the harness-owned writer and exact orders of the first writers' write steps; oracle: a WHATWG SSE parser / strict LF splitter recovers exactly the multiset written, each frame parseable alone",
  "property-based testing (rapid) with schedule perturbation at harness-owned write points",
  "orderings are forced only at Write calls of the harness-owned writer; elsewhere they are sampled",
  "non-trivial = >= 2 writers; overlapping writes are counted by the recording writer and reported in the evidence"),
 "C10": ("exploration", "§5 C10",
  "1-4 concurrent calls on one client, each with 0-50 progress / log / custom notifications (params trees, _meta, sizes to 200 KB, zero-delay bursts), generated handler subsets, handlers that return errors, POST-SSE and JSON response modes; oracle: per call the handler-recorded sequence equals the emitted sequence filtered to registered methods (once, in order, params and _meta equal) and precedes the return of CallTool, result intact; nothing recorded in JSON mode; a raw peer checks event ids are pairwise distinct and events = notifications + 1",
  "property-based testing (rapid), sequence oracle + raw SSE reference reader", "stateless and stateful POST-SSE; real loopback TCP in 1 of 10 cases",
  "non-trivial = >= 2 notifications in one call, at least two of them with zero delay"),
 "C11": ("exploration", "§5 C11",
  "open / close / reopen sequences of up to 6 generations of a session's listening stream with handlers held at the instrumented points (after registration, before an old handler removes its registration), sends paused between lookup and write, peer departure racing with a new GET, notifications and server requests placed between every step; oracle: while the newest stream's headers have been received and its peer is connected every send succeeds and its frame is on that stream, replaced streams end, a stream's exit removes only itself, a bystander session is untouched",
  "model-based property testing (rapid) with gates at instrumented yield points (schedule enumeration)",
  "orderings are enumerated at the yield points of MANIFEST.hooks and the harness-owned writers; the check-then-remove window of a handler's exit is only reached by racing (30 attempts per race op)",
  "non-trivial = a reopen happened and at least one send followed it"),
 "C12": ("exploration", "§5 C12",
  "concurrent histories from 2-8 goroutines over register tool / prompt / resource / notification handler, unregister, list, call, get, read on a 4-name pool with version tags, judged by interval reasoning on the recorded history (definitely present -> listed / callable, never registered -> absent / not found, listed descriptor is one registered version, no duplicates, registration order); the same workload from the race-instrumented binary",
  "property-based testing (rapid) with an interval (linearisation-style) oracle + Go race detector",
  "lock discipline on paths the workload does not reach is a static question", "non-trivial = a read-type operation in one goroutine and a write-type operation on the same registry in another"),
 "C13": ("exploration", "§5 C13",
  "2-10 concurrent clients with distinct header tokens, 1-3 HTTP context functions, list filters on all three registries (allocating or compacting in place), a middleware and a handler that echo token, context-function order, session, client session, server handle, notification sender and data stored in the session; Streamable stateful / stateless (JSON and event-stream answers) and legacy SSE",
  "property-based testing (rapid), echo oracle", "overlap of requests with different tokens is measured and reported, not forced",
  "non-trivial = >= 2 clients of different filter classes"),
 "C14": ("exploration", "§5 C14",
  "generated registrations and request sequences (string / integer ids, params valid or mutated) sent through raw peers to all seven modes and compared pairwise after normalisation (result JSON with listed items sorted, or the error code); generated handler values served by four server kinds to the three library clients, whose projected return values must be equal",
  "differential property testing (rapid) across transports and clients", "unencodable handler results are C03's business; error wording is ignored",
  "non-trivial = an invalid request or >= 2 populated registries"),
 "C15": ("exploration", "§5 C15",
  "chains of 0-4 middlewares over {pass, modify-request, modify-result, short-circuit, fail-before, fail-after-with-result} x both option forms x 8 methods x batches of 1-6 concurrent requests from 1-3 sessions x Streamable modes and legacy SSE, notifications interleaved; a reference interpreter of the chain predicts the per-request trace and the client-visible outcome; every stage must see the request's own session",
  "model-based property testing (rapid) against a reference interpreter of the chain", "inner results of non-tool methods are taken from a chain-free twin server",
  "non-trivial = chain length >= 2 with a non-pass behaviour"),
 "C16": ("exploration", "§5 C16",
  "server: 19 version strings (supported, near misses, empty, long, NUL, full-width) x generated name/version x registration histories interleaved with initialize on all seven modes; client: histories over {Initialize ok / transport error / JSON-RPC error / malformed result / failing initialized notification, 7 operations, Close} on the three client kinds against a recording scripted peer, judged by a two-state model (error class, GetState, request counter at the peer)",
  "model-based property testing (rapid), two-state client model + capability oracle", "a stdio client cannot observe a child dying on the initialized notification: on that transport the fault is placed on the initialize request",
  "non-trivial = an operation in the uninitialised state after a failed handshake or Close, or a non-supported version / a registration before a handshake"),
 "C17": ("exploration", "§5 C17",
  "configurations from a boundary grid (10 x 11 x 15 x 10 values incl. NaN, +-Inf, MaxInt64) x outcome scripts up to MaxRetries+2 over {success, JSON-RPC error, refused, reset, timeout, EOF, wrapped EOF, 408/409/429/5xx, other 4xx, other network error} x cancellation at every attempt and inside every wait, directly on retry.Execute with the waits observed through the hook (no sleeping) and end to end for the Streamable and legacy SSE clients with WithRetry / WithSimpleRetry / no option; the k-th wait is compared with min(Initial*Factor^(k-1), Max) in big.Float",
  "model-based property testing (rapid) against a retry reference model", "error kinds the statement does not name are left unasserted",
  "non-trivial = a transient failure followed by something else, or a configuration outside the documented ranges"),
 "C18": ("exploration", "§5 C18",
  "struct types drawn from a type grammar and built with reflect.StructOf (all integer/float kinds, bool, string, slices, arrays, maps with string and int keys, pointers, []byte, interface{}, time.Time, Duration, nested / reused / embedded structs, unexported fields, tag names over encoding/json's alphabet, omitempty, ,string, -, jsonschema directives) x 3 styles x fully populated values; a corpus of 8 self- and mutually recursive compile-time types x 3 styles x depths; typed tool handlers over 5 modes; oracle: generation terminates, every $ref resolves inside the document, property names == keys encoding/json emits, the encoding validates against the schema (own validator), typed binding == fresh decode, tools/list schema == registered schema",
  "property-based testing over generated programs (types), schema-validation + round-trip oracle", "types encoding/json cannot encode and structs with colliding JSON names are outside the statement; the validator is the harness's own (cross-checked by ./check selftest)",
  "non-trivial = a feature beyond flat primitives (nesting, container, pointer, embedding, special std type, tag option, recursion)"),
 "C19": ("exploration", "§5 C19",
  "the power set of {0-2 static header options, before-request function (optionally failing once at a chosen request kind), custom request handler vs default handler over real TCP, custom path} x a first handshake answered 503 x histories over call / list / roots-changed notification / server-issued roots and unknown requests / TerminateSession / Close on the Streamable and legacy SSE clients; three logs (server, request handler, before-request function) must agree as multisets, every request goes to the configured path with every static header and the issued session id and the calling operation's context values; a refusing function means nothing is sent and the operation fails with its error",
  "property-based testing (rapid), three-log agreement oracle", "there is no option to set a custom http.Client, so that customisation is not generated; whether the client opens a listening stream at all is not asserted here",
  "non-trivial = >= 2 customisations and a path other than a plain call"),
 "C20": ("exploration", "§5 C20",
  "the concurrent workloads of C01, C05, C09, C11, C12, C13 plus a client workload (concurrent calls, handlers (un)registered, roots provider swapped and mutated, roots notifications, server pushes, session objects read and written from 4 goroutines, TerminateSession, Close) and 2-5 clients answering server requests at once, from the race-instrumented binary under GOMAXPROCS 2/4/8/16; every race report is keyed by the struct field both source lines name (else by the pair of library methods) and matched against the known findings",
  "Go race detector over generated concurrent workloads", "the detector sees only races the generated schedules execute", "non-trivial = >= 2 goroutines inside library code (workload definitions of the reused properties apply)"),
}

# additions made after the second round of seeded changes (appended to the descriptions above)
EXTRA = {
 "C01": " The library layer mixes tools/list and prompts/list requests with the calls in flight (ids of different request kinds must not collide).",
 "C04": " Several DELETEs of one id at once (an op of the histories and TestC04DeleteRace: 2-12 DELETEs x 100-300 rounds): exactly one meets a live session.",
 "C05": " Servers are configured with 0-2 pass-through middlewares.",
 "C06": " TestC06Flood: a legacy-SSE peer stops reading its stream, posts 1-300 requests (error-answered, valid, mixed; padded) and leaves: other clients are served meanwhile and no goroutine remains.",
 "C07": " Answers and argument echoes up to 200 KB, giants from 600 bytes, event ids with control characters, event streams delivered in pieces (a frame's blank line in a later read), repeated answers on stdio held between lookup and delivery (yield point); large well-formed notifications among the junk must reach their handler on the listening stream.",
 "C08": " Further fault kinds: the pending calls are answered with HTTP 404 / 500 / 503 and a body (error, and the body is closed), and a legacy event stream that never announces its endpoint (the handshake ends with its context, Close releases it).",
 "C09": " get-reconnect: the session's stream is replaced while senders are parked behind a stalled write, more senders write to the new stream when the parked ones get their turn (no overlapping Write calls, every frame parses, each message once over both streams).",
 "C10": " _meta is spelled as map, mcp.Meta, struct or inside a hand-built Notification; 1-6 calls of other peers that left mid-stream precede the observed calls (their notifications must not surface anywhere).",
 "C12": " TestC12Notif: 1-6 goroutines register notification handlers (names re-registered) while 1-3 client connections send notifications, on Streamable, legacy SSE and stdio servers: no crash, the handler registered throughout runs once per notification, and afterwards each name is served by a handler registered last.",
 "C13": " One case in six repeats every client's request list 20-60 times (bursts of concurrent list requests under different filters).",
 "C15": " Middleware kinds include failing with an error that wraps context.Canceled / DeadlineExceeded and stamping map results in place (a result object shared between requests shows foreign stamps).",
 "C17": " TestC17Timed: real waits with attempts that take 0-60 ms: the gap between a failed attempt and the next is never shorter than the computed backoff (lower bound only; pre-1.23 timer-channel semantics as the library's go.mod implies). End to end, the legacy event stream is refused with 503 one to three times before it opens.",
 "C18": " The corpus of recursive compile-time types has 17 shapes (pure-pointer mutual recursion, 3-cycles, cycles through maps and slices of pointers, two independent cycles in one type).",
 "C19": " The configured URL may carry a query string (kept on every request kind); the first session DELETE may be answered 503 (the operation fails, the session id keeps being sent, a later terminate is sent again).",
 "C20": " Roots providers are mutated (AddRoot / RemoveRoot) while roots/list requests are being answered; the client workload that once raced is replayed three times under the detector on every run.",
}
# additions made during the third round of seeded changes
EXTRA3 = {
 "C11": " TestC11Client (the client half): one library client goes through generated histories of Close followed after 0-5000 microseconds by a new Initialize, server notifications and server-issued roots/list requests, over a transport whose cancelled streams take 0-6 ms to notice: once the server has the new listening stream registered it stays registered, notifications reach the client's handler once and roots/list is answered.",
 "C05": " A foreign session may answer a server-issued request with an error object under the same id (not accepted either); a request may be given up before it is issued (context already cancelled): it fails and leaves nothing pending.",
 "C10": " Handlers may emit notifications that cannot be encoded (NaN progress, a channel among the parameters) and go on: the later ones are delivered. 3-400 further handlers are registered by another goroutine while the calls are in flight; a call made afterwards reaches every one of them, in order.",
 "C13": " One request in four carries a token of another class than its session's earlier requests: lists, context values and session data follow the request.",
 "C14": " One client case in eight performs the handshake under a 150-300 ms deadline and makes its calls after that deadline has passed.",
 "C18": " TestC18Conc: 2-3 new type families per round are generated by 2-8 goroutines each, released together, every result judged by the same oracle, and a composite of all roots is generated afterwards in the three styles (name tables and caches left by the concurrent phase). TestC18Tools: 1-5 tools built from the same three struct types in all styles, some with properties added by builder options after the struct schema, registered one after the other: a tool names exactly its struct's JSON fields plus its own additions, keeps the schema it was registered with when other tools are built, and tools/list carries exactly that schema.",
 "C20": " The client workload runs next to 0-5 initialised sessions that hold no listening stream (sends to them fail) and issues filtered sends.",
 "C19": " With a configured request handler the handler may lose one request with a connection error (EOF) at a drawn request kind: it passed the before-request function once and reaches no server, and nothing is sent past the function afterwards (the three logs still agree). A legacy client's first connect GET may be refused with 503 and the handshake repeated under another context: the second connect carries the second handshake's context values.",
 "C17": " The outcome pools hold every assigned 5xx code and 30 more 4xx codes individually. TestC17TCP: over real loopback TCP (net/http's keep-alive transport, 0-2 warm-up calls) the front reads each attempt completely and then closes / resets the connection before any response byte, answers 503 / 429 / 404, or serves it: the attempts counted at the server are exactly the model's (one more after every transient fate, at most MaxRetries+1, one without a retry option) and equal the observed waits + 1.",
 "C15": " A middleware kind hands a new request object (deep copy with modified arguments) to the next stage instead of mutating in place.",
 "C16": " Bursts of 2-16 concurrent handshakes asking for different (supported and unsupported) versions, 1-60 rounds each: every answer is judged against its own request. The stdio child may be killed behind the client's back before Close.",
 "C08": " TestC08Init: the handshake as the pending call, for the three client kinds: Initialize meets a generated fate (answered, HTTP 503, JSON-RPC error, malformed result, never answered, child exits) and Close comes after it returned or 0-3000 microseconds after it started (while the connection / child process is being set up), optionally twice, over 1-6 fresh clients: both return, and afterwards no library goroutine, open response body or server-side stream, descriptor, pending entry or child process of this process (found through /proc, so also one forked after Close began) is left.",
 "C12": " Names and URIs come in three spellings (plain; spaces, non-ASCII, upper-case scheme, '|', '{}', trailing '#'; percent-encoded vs literal, query strings, urn:) - they are opaque keys; 0 / 40 / 300 ballast entries per registry widen the windows inside list requests and must all be listed every time; after the concurrent phase every registry is listed once more (a registration that has returned is visible to every later list, whatever raced with it).",
 "C03": " TestC03Stream: messages the server writes on its own initiative are judged by the same frame oracle: addressed and broadcast notifications (12 method spellings x 7 parameter shapes up to 70 KB), server-issued requests (roots/list inside a tool, SendRequest with server-numbered, integer and string ids; answered or ended by their context), in-call notifications of five constructions (progress, log, custom map, hand-built Notification, NewNotification with _meta), and listening streams opened and re-opened with generated Last-Event-ID values (what the server says about a resumption), on Streamable HTTP (JSON and event-stream answers) and legacy SSE; every frame on every current or replaced stream and in every POST answer must validate.",
 "C01": " The library's clients start at generated positions of their request id counter (around 10^6, 2^31, 2^32, up to 2^53 - 2000): a long-lived client's calls are answered like a fresh one's. TestC01Fault: the library's HTTP clients over real loopback TCP (net/http's keep-alive transport) against a server whose front lets the handler finish and then kills the connection (close / reset before any byte, after the status line, inside the body) for a generated subset of 1-8 calls, sequential or 2-4 at once: every handler counter stays exactly 1 (nothing is re-sent without a retry option) and a call ends with an error or its own answer.",
 "C04": " TestC04Concurrent: bursts of concurrent initialize / DELETE requests from 1-6 peers over 0-150 preloaded sessions while 1-6 goroutines poll GetActiveSessions: an answer given during a burst contains every session alive throughout and none deleted before, and after each burst the reported set equals the model's (asked twice), every live id is served and every deleted id refused. Tools that send notifications before answering (the first event commits the response headers) are part of the histories; headers are judged as committed on the wire.",
}
# additions made during the fourth round of seeded changes (configuration / second-use / error-path changes)
EXTRA4 = {
 "C01": " Calls whose result cannot be encoded run among the concurrent calls (they end with an error of their own, promptly).",
 "C02": " Blob and binary payloads include the empty one and 100 KB.",
 "C03": " Tool handlers may fail with errors whose chain holds context.DeadlineExceeded / context.Canceled (answered -32603 like any handler failure).",
 "C04": " Rejected handshakes (initialize without params, with non-object params, without or with a mistyped protocolVersion): a session id named in any answer is an issued, live id.",
 "C05": " The addressed session may answer a server-issued request with an error object (the request ends, nothing stays pending).",
 "C07": " The server may end the listening stream cleanly, and every stream opened afterwards too: the idle client opens at most a handful of new streams and uses no CPU.",
 "C08": " Server half: HTTP / SSE context functions that derive from the request context or return a context of their own. Fault kind stallposts: the calls are acknowledged, then every further POST hangs (the calls still end with their context).",
 "C10": " Handlers may fail after emitting (notifications delivered, the error answer closes the stream, ids distinct); the client may be in its second or third life (Close, Initialize).",
 "C12": " Registrations without a handler (refused or kept, the registry stays well-formed); a listed entry nobody registered is a phantom; TestC12Notif runs next to a twin server of the same kind with handlers of its own (registries are per server).",
 "C13": " Filters may build their result by appending to a nil slice, and a class of callers is admitted to nothing.",
 "C15": " A middleware kind answers with a JSON-RPC error object of its own (code, message, data: delivered as returned); one case in three builds a second server in the process from the same leading middleware slice plus a middleware of its own afterwards (a server's chain is fixed at construction).",
 "C16": " A second handshake inside a session whose first one completed (initialize, initialized, initialize with another version).",
 "C17": " One to two earlier retry options (WithRetry / WithSimpleRetry, grid values) precede the judged one: the configuration the client ends up with is clamped and a fixed point.",
 "C18": " jsonschema tags may carry directives the parser does not know (multipleOf, readOnly, typos): the field stays a field. TestC18Tools also runs with a pass-through tool list filter; the input struct re-uses an inner type under described fields.",
 "C19": " Second life of a client (Close, Initialize: handshake, listening stream and calls are customised as in the first); TerminateSession under a context that has already ended sends nothing.",
 "C20": " TestC20Reconnect: a session's listening stream is replaced 3-40 times (with or without Last-Event-ID) while 1-4 goroutines keep sending notifications, broadcasts and server requests to it. The client workload also runs on stateless servers, with users of the session object that read before they write.",
}
# additions made during the fifth round (untouched clauses of the statements, slips far from the obvious path)
EXTRA5 = {
 "C11": " TestC11Stalled: writes to the old stream are stuck (its peer takes no bytes) when the session's stream is reopened; notifications and server requests sent afterwards return and arrive on the new stream without waiting for the stuck write.",
 "C12": " Tool versions are built from one struct type plus a parameter of their own (listed with exactly those parameters); resources come with single- and multi-content handlers; prompt / resource handlers take a moment and some register further entries while they serve; every request and registration must return.",
 "C13": " Servers may have only some of the three list filters configured (the others list everything).",
 "C14": " Tool results that cannot be encoded are part of the registrations (answered alike on every transport).",
 "C16": " Resources are registered with single- and multi-content handlers alternately.",
 "C17": " End to end, every observed wait is compared with the configured sequence, and error statuses carry Retry-After headers (seconds, dates, garbage).",
 "C18": " The type grammar adds outer fields that carry the JSON name of a promoted field; the typed input struct declares schema defaults.",
 "C19": " Configured paths include ones that are not in path.Clean form (trailing slash, double slash, dot segment, escaped characters).",
 "C20": " The client workload terminates the session and closes the client while three goroutines still call; HTTP clients may have a retry option with a third of the calls losing their connection once.",
 "C01": " One call in five carries no arguments at all (answered from no arguments).",
 "C02": " One string in twelve is a word the protocol itself uses or a printf verb (error, result, null, \"error\", 100% %d ...); JSON trees use such keys and values too; results without content items are returned without a Content slice.",
 "C04": " Every earlier listening stream of a session is followed to its end at DELETE; the server options are given in rotated orders.",
 "C06": " Requests that are wrong twice: an id that is an array, object or boolean on a request the server must refuse.",
 "C07": " One case in twelve on the legacy and listening streams runs over loopback TCP with the library's own HTTP handler after the stream has carried 3 or 20 MiB of comments and unknown events.",
 "C08": " HTTP clients may be created with a retry option (30 s backoff): the hit call is between two attempts when its context ends. The stdio server process may have a helper of its own that inherits its stdout / stderr and outlives it.",
 "C09": " Padding class with quotes, backslashes and percent signs. get-multi: 2-5 sessions' streams written at the same time (a message appears on its own session's stream only). get-stalled (one case in forty): the peer takes no bytes for 0.3 / 5.6 s during one event's flush while more events are sent - Write and Flush calls on one stream never overlap.",
 "C10": " Servers with sessions disabled and event-stream answers; notification payloads contain printf verbs.",
}
EXTRA6 = {
 "C01": " One case in three pads the arguments of some requests (3 KB - 300 KB: requests larger than a read buffer).",
 "C03": " TestC03Panic: tool / prompt / resource handlers and middlewares that panic on Streamable servers with 0-2 middlewares, next to healthy requests with large prose answers: whatever is written is a well-formed message, a panicking request is never answered as a success, a healthy one is answered.",
 "C04": " Servers are built with 0-2 pass-through middlewares. A statistical verdict on issued ids is confirmed on a fresh sample of 4000 ids before it is reported.",
 "C05": " burst: three goroutines broadcast and send filtered notifications at the same time (one filter consults the server's session list): every open session receives each once.",
 "C06": " Paging cursors of every JSON type on the four list methods, servers with a list filter that hides a tool, and runs of up to 300 blank / whitespace / bare-CR lines on stdio (writes to the server's input have a deadline: a server that stops reading is reported).",
 "C07": " Answers whose result has the wrong shape somewhere inside (annotations, content items, scalars for objects): an error or any value, never a crash. One script in four consists of skippable elements only (comments, blank lines, other event types, notifications, requests, answers under unknown or mistyped ids): the answer among them must arrive.",
 "C09": " post-stream: a session without a listening stream has 1-6 requests answered as event streams (their handlers emit notifications) while up to 12 goroutines send to the session and broadcast: each answer stream has one writer at a time, every event parses on its own, own notifications once and in order, one response, nothing written after the handler returned.",
 "C10": " Progress / log messages and custom parameters carry awkward text (control characters, DEL, line separators, unprintable astral runes, bytes that are not UTF-8). Every third notification may make its handler register and remove another handler on the same client; those calls must return.",
 "C11": " Sends are addressed or filtered down to the session, alternately.",
 "C12": " A version whose replacement had completed before a request began may no longer be listed or served (stale-entry / stale-handler). Tool handlers take a moment and two in three answer with a JSON document as text. After every history: each registry's handler is swapped three times under an unchanged descriptor (same pointer, fresh equal value) and the next request must reach the handler registered last. TestC12Notif: a goroutine registers and unregisters a method up to 2000 times while that method's notifications arrive.",
 "C13": " The legacy SSE server is given 1-3 context-function options: whichever of them it runs, it runs in the order given, the one given last among them.",
 "C14": " One case in three closes with: list everything, register one tool, prompt and resource again under its name with a new definition, list everything again and use the three entries - compared across all modes.",
 "C15": " Requests that belong to no session (stateless mode) never share a session object: a session id seen by one request's stages is seen by no other request's.",
 "C16": " A roots provider may be set before the first handshake; handshake mode later-fail loses every message other than the two handshake messages while Initialize runs - whatever Initialize returns, state and guard agree with it.",
 "C17": " End to end: error statuses may carry application/json bodies (JSON-RPC error objects, results, other JSON) - the status decides; the caller's context ends (cancelled, or its deadline passes - a context type of the harness) at the moment a chosen wait begins: no further attempt, and the call's error names the context's error.",
 "C18": " TestC18Typed alternates between the nested input struct and a scalar-only one whose string, int and int64 fields carry the ,string option.",
 "C19": " Static headers may use well-known names (User-Agent, Authorization, X-Api-Key); the before-request function may add a query parameter to the URL of one request kind (documented: it may modify the URL) - all other requests still go to the configured URL, that kind carries exactly one such parameter.",
 "C20": " The bursts of concurrent initialize / DELETE of TestC04Concurrent and the registration churn of TestC12Notif run under the detector as well (the former exposed a race of the unchanged tree, repaired); in the client workload the application sets roots providers and (un)registers handlers while the handshake runs.",
}
for _e in (EXTRA, EXTRA3, EXTRA4, EXTRA5, EXTRA6):
    for _k, _v in _e.items():
        _t = list(T[_k]); _t[2] = _t[2] + _v; T[_k] = tuple(_t)

def main():
    src = open(os.path.join(ROOT, "check")).read()
    props = sorted(set(re.findall(r'^    "(C\d\d)": dict\(', src, re.M)))
    ids = [json.loads(l)["id"] for l in open(os.path.join(ROOT, "properties.jsonl"))]
    old = json.load(open(os.path.join(ROOT, "MANIFEST.json")))
    hooks = subprocess.run(["git", "-C", "/repo", "log", "--format=%h %s"], capture_output=True, text=True).stdout.splitlines()
    hook_commits = [l.split()[0] for l in hooks if l.split(" ", 1)[1].startswith("verif hook")]
    checks, rules = [], {}
    for pid in ids:
        if pid not in props or pid not in T:
            continue
        level, ref, text, tech, note, rule = T[pid]
        checks.append({"property_id": pid, "quick_cmd": f"./check {pid} --tier quick", "thorough_cmd": f"./check {pid} --tier thorough",
                       "evidence_file": f"evidence/{pid}.json", "replay_cmd_template": f"./check {pid} --replay {{path}}", "engine": "harness",
                       "level_claimed": {"category": level, "text": text, "design_ref": "DESIGN.md " + ref}, "level_note": note, "technique": tech})
        rules[pid] = {"rule": "generated by harness/ (rapid generators / enumerations); " + rule + "; distinct = SHA-1 of the canonical case JSON",
                      "assumptions": [note]}
    m = {"version": 1, "setup_cmd": "./check setup",
         "hooks": {"guard": "verif", "enable": "go test -c -tags verif in /verif/harness (go.mod: replace trpc.group/trpc-go/trpc-mcp-go => /repo)",
                   "baseline_off_cmd": "cd /repo && GOFLAGS=-mod=mod GOPROXY=off GOSUMDB=off GOTOOLCHAIN=local go test -json -vet=off -count=1 -timeout 25m ./...",
                   "source_commits": list(reversed(hook_commits)), "add_only": True},
         "engines": [{"name": "harness", "path": "harness/", "serves_properties": [c["property_id"] for c in checks],
                      "kind_free_text": "Go property-based tests (pgregory.net/rapid v1.3.0 state machines and generators, exhaustive enumerations, native go fuzz targets, -race builds) driven by the python driver ./check"}],
         "checks": checks,
         "not_applicable": [{"property_id": i, "reason": "not claimed yet: the generated check for this property is still under construction"} for i in ids if i not in [c["property_id"] for c in checks]],
         "notes": "known findings and repaired defects: known_findings.json; seeded changes used for sensitivity testing: seeded/; design and results: DESIGN.md"}
    json.dump(m, open(os.path.join(ROOT, "MANIFEST.json"), "w"), indent=1)
    json.dump(rules, open(os.path.join(ROOT, "rules.json"), "w"), indent=1)
    print(len(checks), "checks;", len(m["not_applicable"]), "not applicable; hook commits", m["hooks"]["source_commits"])

main()
